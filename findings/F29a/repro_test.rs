//! F29a repro: LeaderState predicts the index of the entries it is about to append as
//! `raft_log.last_entry_id() + 1` (reads `max_index`), whereas the entries really get their
//! index from `raft_log.pre_allocate_id_range()` (reads `next_id`).  The two disagree when the
//! in-memory log is empty after a full purge (max_index == 0, next_id == last + 1).
//!
//! Uses the REAL BufferedRaftLog, the REAL ReplicationHandler and the REAL LeaderState.
//! Only storage engine / membership / transport / state machine are mocks.

use std::sync::Arc;

use bytes::Bytes;
use d_engine_proto::common::EntryPayload;
use d_engine_proto::common::LogId;
use rand::distr::SampleString;
use tokio::sync::mpsc;

use crate::ApplyResult;
use crate::BufferedRaftLog;
use crate::FlushPolicy;
use crate::MockCommitHandler;
use crate::MockElectionCore;
use crate::MockMembership;
use crate::MockPurgeExecutor;
use crate::MockSnapshotPolicy;
use crate::MockStateMachine;
use crate::MockStateMachineHandler;
use crate::MockStorageEngine;
use crate::MockTransport;
use crate::PersistenceConfig;
use crate::PersistenceStrategy;
use crate::RaftLog;
use crate::RaftRequestWithSignal;
use crate::ReplicationHandler;
use crate::TypeConfig;
use crate::maybe_clone_oneshot::MaybeCloneOneshot;
use crate::maybe_clone_oneshot::RaftOneshot;
use crate::raft_context::RaftContext;
use crate::raft_context::RaftCoreHandlers;
use crate::raft_context::RaftStorageHandles;
use crate::raft_role::leader_state::LeaderState;
use crate::role_state::RaftRoleState;
use crate::test_utils::BufferedRaftLogTestContext;
use crate::test_utils::node_config;

// ---------------------------------------------------------------------------------------------
// Part 1: real BufferedRaftLog only
// ---------------------------------------------------------------------------------------------

/// append 1..=10, purge up to 10  =>  last_entry_id()==0 but the next allocated id is 11.
#[tokio::test]
async fn f29a_log_level_last_entry_id_vs_preallocated_id_after_full_purge() {
    let ctx = BufferedRaftLogTestContext::new(
        PersistenceStrategy::MemFirst,
        FlushPolicy::Batch {
            idle_flush_interval_ms: 1,
        },
        "f29a_log_level",
    );
    ctx.append_entries(1, 10, 1).await;
    assert_eq!(ctx.raft_log.last_entry_id(), 10);

    // Same call the follower / learner makes after InstallSnapshot (follower_state.rs:377,
    // learner_state.rs:325/500): unconditional purge up to the snapshot's last_included.
    ctx.raft_log.purge_logs_up_to(LogId { index: 10, term: 1 }).await.unwrap();

    let last_entry_id = ctx.raft_log.last_entry_id();
    let last_log_id = ctx.raft_log.last_log_id();
    let predicted_next = last_entry_id + 1; // what LeaderState::process_batch computes
    let allocated = ctx.raft_log.pre_allocate_id_range(1); // what generate_new_entries uses
    println!(
        "F29a/log: after append 1..=10 + purge_logs_up_to(10): last_entry_id()={last_entry_id}, last_log_id()={last_log_id:?}, \
         last_entry_id()+1={predicted_next}, pre_allocate_id_range(1)={allocated:?}"
    );
    assert_eq!(last_entry_id, 0);
    assert_eq!(allocated, 11..=11);
    // What C29 needs (prediction == allocation) does NOT hold:
    assert_ne!(predicted_next, *allocated.start());
}

/// Side observation: purge does not advance next_id to the purge boundary either.
/// Follower holds 1..=5, installs a snapshot covering 1..=10, purges up to 10.
#[tokio::test]
async fn f29a_side_purge_beyond_last_does_not_advance_next_id() {
    let ctx = BufferedRaftLogTestContext::new(
        PersistenceStrategy::MemFirst,
        FlushPolicy::Batch {
            idle_flush_interval_ms: 1,
        },
        "f29a_side",
    );
    ctx.append_entries(1, 5, 1).await;
    ctx.raft_log.purge_logs_up_to(LogId { index: 10, term: 1 }).await.unwrap();
    let last_log_id = ctx.raft_log.last_log_id();
    let allocated = ctx.raft_log.pre_allocate_id_range(1);
    println!(
        "F29a/side: append 1..=5 + purge_logs_up_to(10): last_entry_id()={}, last_log_id()={last_log_id:?}, pre_allocate_id_range(1)={allocated:?}",
        ctx.raft_log.last_entry_id()
    );
    assert_eq!(last_log_id, Some(LogId { index: 10, term: 1 }));
    assert_eq!(allocated, 6..=6); // next entry would get index 6 <= purge boundary 10
}

// ---------------------------------------------------------------------------------------------
// Part 2: real LeaderState + real ReplicationHandler + real BufferedRaftLog
// ---------------------------------------------------------------------------------------------

#[derive(Debug)]
struct RealLogTypeConfig;

impl TypeConfig for RealLogTypeConfig {
    type R = BufferedRaftLog<Self>;
    type SE = MockStorageEngine;
    type E = MockElectionCore<Self>;
    type TR = MockTransport<Self>;
    type SM = MockStateMachine;
    type M = MockMembership<Self>;
    type REP = ReplicationHandler<Self>;
    type C = MockCommitHandler;
    type SMH = MockStateMachineHandler<Self>;
    type SNP = MockSnapshotPolicy;
    type PE = MockPurgeExecutor;
}

struct Fixture {
    state: LeaderState<RealLogTypeConfig>,
    ctx: RaftContext<RealLogTypeConfig>,
}

async fn fixture(name: &str) -> Fixture {
    let storage = Arc::new(MockStorageEngine::with_id(name.to_string()));
    let (raft_log, receiver) = BufferedRaftLog::<RealLogTypeConfig>::new(
        1,
        PersistenceConfig {
            strategy: PersistenceStrategy::MemFirst,
            flush_policy: FlushPolicy::Batch {
                idle_flush_interval_ms: 1,
            },
            max_buffered_entries: 1000,
        },
        storage,
    );
    let raft_log = raft_log.start(receiver, None);

    let mut cfg = node_config(&format!("/tmp/{name}"));
    cfg.raft.snapshot.enable = false;

    let ctx = RaftContext::<RealLogTypeConfig> {
        node_id: 1,
        storage: RaftStorageHandles {
            raft_log,
            state_machine: Arc::new(MockStateMachine::new()),
        },
        transport: Arc::new(MockTransport::new()),
        membership: Arc::new(MockMembership::new()),
        handlers: RaftCoreHandlers {
            election_handler: MockElectionCore::new(),
            replication_handler: ReplicationHandler::new(1),
            state_machine_handler: Arc::new(MockStateMachineHandler::new()),
            purge_executor: Arc::new(MockPurgeExecutor::new()),
        },
        node_config: Arc::new(cfg),
    };

    let mut state = LeaderState::<RealLogTypeConfig>::new(1, ctx.node_config.clone());
    // Single-voter cluster metadata (no replication targets) -- keeps transport out of the picture.
    let mut membership = MockMembership::<RealLogTypeConfig>::new();
    membership.expect_voters().returning(Vec::new);
    membership.expect_replication_peers().returning(Vec::new);
    state.init_cluster_metadata(&Arc::new(membership)).await.unwrap();
    assert!(state.cluster_metadata.single_voter);

    Fixture { state, ctx }
}

/// History: node holds 1..=10 (term 1), snapshot covers 10, log purged up to 10 (what a
/// follower/learner does after InstallSnapshot).  Then the node acts as leader.
async fn purged_fixture(name: &str) -> Fixture {
    let mut f = fixture(name).await;
    let entries: Vec<_> = (1..=10u64)
        .map(|index| d_engine_proto::common::Entry {
            index,
            term: 1,
            payload: Some(EntryPayload::command(Bytes::from_static(b"x"))),
        })
        .collect();
    f.ctx.raft_log().append_entries(entries).await.unwrap();
    f.ctx.raft_log().purge_logs_up_to(LogId { index: 10, term: 1 }).await.unwrap();
    f.state.update_commit_index(10).unwrap();
    f.state.update_current_term(2);
    assert_eq!(f.ctx.raft_log().last_entry_id(), 0);
    f
}

fn write_request(
    tx: crate::MaybeCloneOneshotSender<std::result::Result<crate::client::ClientResponse, tonic::Status>>
) -> RaftRequestWithSignal {
    RaftRequestWithSignal {
        id: rand::distr::Alphanumeric.sample_string(&mut rand::rng(), 21),
        payloads: vec![EntryPayload::command(Bytes::from_static(b"client-write"))],
        senders: vec![tx],
        wait_for_apply_event: true,
    }
}

/// Reachable flow: exactly what Raft::handle BecomeLeader does (raft.rs:544) on a node whose
/// log is empty after snapshot install: `initiate_noop_commit`.
/// The noop's post-commit action is registered under index 1, the noop entry gets index 11.
#[tokio::test]
async fn f29a_new_leader_with_purged_log_noop_index_prediction() {
    let mut f = purged_fixture("f29a_noop").await;
    let (internal_event_tx, _rx) = mpsc::unbounded_channel();

    f.state.initiate_noop_commit(&f.ctx, &internal_event_tx).await.unwrap();

    let keys: Vec<u64> = f.state.pending_commit_actions.keys().copied().collect();
    let noop = f.ctx.raft_log().last_entry().unwrap();
    println!(
        "F29a/noop: pending_commit_actions keys={keys:?}; real noop entry index={} term={}",
        noop.index, noop.term
    );
    assert_eq!(noop.index, 11);
    assert_eq!(keys, vec![1], "noop action keyed by last_entry_id()+1 == 1, not by the real index 11");

    // Masking mechanism for CLIENT writes: once the noop is in the log the log is no longer
    // empty, so the next prediction is right again.
    let (tx, _rx_client) = <MaybeCloneOneshot as RaftOneshot<_>>::new();
    f.state
        .execute_request_immediately(write_request(tx), &f.ctx, &internal_event_tx)
        .await
        .unwrap();
    let keys: Vec<u64> = f.state.pending_client_writes.keys().copied().collect();
    let last = f.ctx.raft_log().last_entry_id();
    println!("F29a/noop: after noop, client write keyed {keys:?}, entry index {last}");
    assert_eq!(keys, vec![12]);
    assert_eq!(last, 12);
}

/// The claimed client-visible effect, driven on real code, for a leader whose log is empty
/// (NOTE: this state is only hypothetical for a client write -- see verdict -- because
/// BecomeLeader always appends the noop first and leader-side purge keeps >= 1 entry).
#[tokio::test]
async fn f29a_client_write_on_empty_purged_log_is_keyed_by_wrong_index() {
    let mut f = purged_fixture("f29a_write").await;
    let (internal_event_tx, _rx) = mpsc::unbounded_channel();

    let (tx, mut rx_client) = <MaybeCloneOneshot as RaftOneshot<_>>::new();
    f.state
        .execute_request_immediately(write_request(tx), &f.ctx, &internal_event_tx)
        .await
        .unwrap();

    let entry_index = f.ctx.raft_log().last_entry_id();
    let keys: Vec<u64> = f.state.pending_client_writes.keys().copied().collect();
    let start_idx = f.state.pending_client_writes.values().next().unwrap().start_idx;
    println!(
        "F29a/write: entry appended at index {entry_index}; pending_client_writes key={keys:?} start_idx={start_idx}"
    );
    assert_eq!(entry_index, 11);
    assert_eq!(keys, vec![1]);

    // Single-voter commit path: LogFlushed -> commit = last_entry_id() = 11 -> drain.
    f.state.handle_log_flushed(11, &f.ctx, &internal_event_tx).await;
    assert_eq!(f.state.commit_index(), 11);
    let apply_keys: Vec<u64> = f.state.pending_write_apply.keys().copied().collect();
    println!("F29a/write: after commit=11 pending_write_apply keys={apply_keys:?}");
    assert_eq!(apply_keys, vec![1]);

    // State machine applies entry 11 and reports its result.
    f.state
        .handle_apply_completed(
            11,
            vec![ApplyResult {
                index: 11,
                succeeded: true,
            }],
            &f.ctx,
            &internal_event_tx,
        )
        .await
        .unwrap();

    let answered = tokio::time::timeout(std::time::Duration::from_millis(300), rx_client.recv()).await;
    println!(
        "F29a/write: client answered after ApplyCompleted(index 11)? {}",
        answered.is_ok()
    );
    assert!(
        answered.is_err(),
        "the response for entry 11 is never delivered: sender is parked under index 1"
    );
    assert_eq!(
        f.state.pending_write_apply.keys().copied().collect::<Vec<_>>(),
        vec![1]
    );
}
