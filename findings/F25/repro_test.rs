//! F25 repro: RocksDBStateMachine::scan_prefix creates the iterator (implicit RocksDB snapshot at
//! creation time), drains it, and only THEN loads `last_applied_index`.  Nothing (no lock, no
//! explicit snapshot) ties the two reads together, so any apply_chunk that completes while the
//! iterator is being drained is counted in `revision` but missing from `entries`.
//!
//! Construction: log entry i (i = 1..) inserts key "p/{i:010}".  Therefore a scan of prefix "p/"
//! whose reported revision is R matches its contents iff it returns exactly R keys.
//!   entries.len() <  revision  => revision is AHEAD of contents (a watcher resuming from
//!                                 revision+1 silently misses those writes)

use std::sync::Arc;
use std::sync::atomic::AtomicBool;
use std::sync::atomic::Ordering;

use bytes::Bytes;
use d_engine_core::ApplyEntry;
use d_engine_core::Command;
use d_engine_core::StateMachine;
use tempfile::TempDir;

use super::RocksDBStateMachine;

fn ins(i: u64) -> ApplyEntry {
    ApplyEntry {
        index: i,
        term: 1,
        command: Command::Insert {
            key: Bytes::from(format!("p/{i:010}")),
            value: Bytes::from_static(b"v"),
            ttl_secs: None,
        },
    }
}

/// tokio's rt-multi-thread feature is not enabled in this crate, so: the applier runs on its own
/// OS thread with its own current-thread runtime (it is a single serial task in production too),
/// the scanner runs on the test thread (scan_prefix is a plain sync fn).
#[test]
fn f25_rocksdb_scan_revision_matches_contents() {
    const PRELOAD: u64 = 100_000;
    let rt = tokio::runtime::Builder::new_current_thread().enable_all().build().unwrap();
    let tmp = TempDir::new().unwrap();
    let sm = Arc::new(RocksDBStateMachine::new(tmp.path().join("db")).unwrap());
    rt.block_on(async {
        sm.start().await.unwrap();
        let mut i = 1u64;
        while i <= PRELOAD {
            let chunk: Vec<ApplyEntry> = (i..i + 1000).map(ins).collect();
            sm.apply_chunk(&chunk).await.unwrap();
            i += 1000;
        }
    });
    assert_eq!(sm.last_applied().index, PRELOAD);

    // sanity: quiescent scan is consistent
    let quiet = sm.scan_prefix(b"p/").unwrap();
    assert_eq!(quiet.entries.len() as u64, quiet.revision);

    let stop = Arc::new(AtomicBool::new(false));

    // writer = the (single) apply task: one entry per chunk, like a low-traffic leader
    let w_sm = sm.clone();
    let w_stop = stop.clone();
    let writer = std::thread::spawn(move || {
        let rt = tokio::runtime::Builder::new_current_thread().enable_all().build().unwrap();
        rt.block_on(async move {
            let mut i = PRELOAD + 1;
            while !w_stop.load(Ordering::Relaxed) {
                w_sm.apply_chunk(&[ins(i)]).await.unwrap();
                i += 1;
            }
            i - 1
        })
    });

    // reader = client scans
    let mut obs = vec![];
    for _ in 0..20 {
        let r = sm.scan_prefix(b"p/").unwrap();
        let last = r.entries.last().map(|(k, _)| String::from_utf8_lossy(k).to_string());
        obs.push((r.revision, r.entries.len() as u64, last));
    }
    stop.store(true, Ordering::Relaxed);
    let last_written = writer.join().unwrap();
    println!("F25 writer applied up to index {last_written}");

    let mut ahead = 0;
    let mut behind = 0;
    for (rev, len, last) in &obs {
        let tag = if len < rev {
            ahead += 1;
            "REVISION AHEAD OF CONTENTS"
        } else if len > rev {
            behind += 1;
            "revision behind contents"
        } else {
            "ok"
        };
        println!(
            "F25 scan: revision={rev} entries={len} last_key={last:?} missing={} -> {tag}",
            rev.saturating_sub(*len)
        );
    }
    println!(
        "F25 summary: {} scans, {ahead} with revision > contents, {behind} with revision < contents",
        obs.len()
    );

    assert_eq!(
        ahead,
        0,
        "PROPERTY VIOLATED: {ahead}/{} scans reported a revision that covers writes absent from the returned entries",
        obs.len()
    );
}
