//! F24a / F24b repro tests (real WatchRegistry + WatchDispatcher).

use std::sync::Arc;
use std::sync::atomic::AtomicU64;

use bytes::Bytes;
use d_engine_proto::client::WatchResponse;
use tokio::sync::broadcast;
use tokio::sync::mpsc;
use tokio::time::Duration;
use tokio::time::timeout;

use super::*;

fn put(
    key: &Bytes,
    revision: u64,
) -> WatchResponse {
    WatchResponse {
        key: key.clone(),
        value: Bytes::from(format!("v{revision}")),
        prev_value: Bytes::new(),
        event_type: d_engine_proto::client::WatchEventType::Put as i32,
        error: 0,
        revision,
    }
}

/// Builds the watch system exactly like NodeBuilder::build does, but with a small
/// broadcast capacity (`raft.watch.event_queue_size`) and WITHOUT spawning the dispatcher yet.
fn build(
    event_queue_size: usize,
    watcher_buffer_size: usize,
    boot_last_applied: u64,
    heartbeat_ms: u64,
) -> (
    broadcast::Sender<WatchResponse>,
    Arc<WatchRegistry>,
    WatchDispatcher,
    Arc<AtomicU64>,
) {
    let (broadcast_tx, broadcast_rx) = broadcast::channel(event_queue_size);
    let (unregister_tx, unregister_rx) = mpsc::unbounded_channel();
    let registry = Arc::new(WatchRegistry::new(watcher_buffer_size, unregister_tx));
    let last_applied = Arc::new(AtomicU64::new(boot_last_applied));
    let dispatcher = WatchDispatcher::new(
        Arc::clone(&registry),
        broadcast_rx,
        unregister_rx,
        Arc::clone(&last_applied),
        heartbeat_ms,
    );
    (broadcast_tx, registry, dispatcher, last_applied)
}

/// Drives the history and returns the events seen by the watcher within `window`.
async fn f24a_history() -> (Vec<WatchEvent>, usize) {
    // event_queue_size = 4, watcher buffer is large (64) so the watcher itself is never "slow".
    let (tx, registry, dispatcher, _la) = build(4, 64, 0, 0);
    let key = Bytes::from_static(b"k");
    let mut handle = registry.register(key.clone(), false).unwrap();

    // The state machine applies 20 writes to k (fire-and-forget broadcast, as
    // DefaultStateMachineHandler::broadcast_watch_events does) before the dispatcher task gets
    // CPU time.
    for rev in 1..=20u64 {
        tx.send(put(&key, rev)).unwrap();
    }

    // Now the dispatcher runs.
    let jh = tokio::spawn(dispatcher.run());

    let mut got = Vec::new();
    while let Ok(Some(ev)) = timeout(Duration::from_millis(300), handle.receiver_mut().recv()).await
    {
        got.push(ev);
    }
    let still_registered = registry.watcher_count(&key);

    // a later write is still delivered on the same (gapped) stream
    tx.send(put(&key, 21)).unwrap();
    if let Ok(Some(ev)) = timeout(Duration::from_millis(300), handle.receiver_mut().recv()).await {
        got.push(ev);
    }
    jh.abort();
    (got, still_registered)
}

/// Property: gap-free or ended by CANCELED.  EXPECTED TO FAIL on current code.
#[tokio::test]
async fn f24a_lagged_dispatcher_must_cancel_or_deliver_all() {
    let (got, still_registered) = f24a_history().await;
    let revs: Vec<u64> = got.iter().map(|e| e.revision).collect();
    let types: Vec<_> = got.iter().map(|e| e.event_type.clone()).collect();
    println!("F24a: watcher received revisions {revs:?}");
    println!("F24a: event types {types:?}");
    println!("F24a: watcher still registered after lag: {still_registered}");

    let canceled = got.iter().any(|e| e.event_type == WatchEventType::Canceled);
    let data_revs: Vec<u64> = got
        .iter()
        .filter(|e| e.event_type == WatchEventType::Put)
        .map(|e| e.revision)
        .collect();
    let gap_free = data_revs == (1..=21u64).collect::<Vec<_>>();
    assert!(
        gap_free || canceled,
        "watcher has a gap (got {data_revs:?} of 1..=21) and was never cancelled"
    );
}

/// Buggy outcome asserted.  EXPECTED TO PASS on current code.
#[tokio::test]
async fn f24a_lagged_dispatcher_silently_drops_events_buggy() {
    let (got, still_registered) = f24a_history().await;
    let revs: Vec<u64> = got.iter().map(|e| e.revision).collect();
    println!("F24a (buggy): watcher received revisions {revs:?}");
    assert!(got.iter().all(|e| e.event_type == WatchEventType::Put), "no CANCELED, no error");
    assert_eq!(revs, vec![17, 18, 19, 20, 21], "revisions 1..=16 silently lost");
    assert_eq!(still_registered, 1, "watcher stays registered as if nothing happened");
}

/// F24b: Progress revision comes from an Arc<AtomicU64> nobody updates.
/// Wiring copied from NodeBuilder::build (d-engine-server/src/node/builder.rs:356-372):
/// boot-time last_applied = 3, the only other clone of the Arc is dropped/ignored by the builder.
/// EXPECTED TO FAIL on current code (asserts the property: progress revision >= delivered revision).
#[tokio::test]
async fn f24b_progress_revision_must_not_go_backwards() {
    let (tx, registry, dispatcher, last_applied_ref) = build(1000, 64, 3, 50);
    // builder.rs:598-600 destructures the tuple with `_` for last_applied_ref => dropped.
    drop(last_applied_ref);
    let jh = tokio::spawn(dispatcher.run());

    let key = Bytes::from_static(b"k");
    let mut handle = registry.register(key.clone(), false).unwrap();

    // state machine applied index 10 and broadcast the event (revision = entry index)
    tx.send(put(&key, 10)).unwrap();

    let mut max_data_rev = 0u64;
    let mut progress_rev = None;
    let deadline = tokio::time::Instant::now() + Duration::from_millis(500);
    while tokio::time::Instant::now() < deadline {
        match timeout(Duration::from_millis(100), handle.receiver_mut().recv()).await {
            Ok(Some(ev)) => match ev.event_type {
                WatchEventType::Put => max_data_rev = max_data_rev.max(ev.revision),
                WatchEventType::Progress => {
                    if max_data_rev > 0 {
                        progress_rev = Some(ev.revision);
                        break;
                    }
                }
                _ => {}
            },
            _ => {}
        }
    }
    jh.abort();
    println!("F24b: delivered data revision = {max_data_rev}, later Progress revision = {progress_rev:?}");
    let p = progress_rev.expect("a progress event after the data event");
    assert_eq!(max_data_rev, 10);
    assert!(
        p >= max_data_rev,
        "Progress revision {p} is lower than already delivered revision {max_data_rev}"
    );
}
