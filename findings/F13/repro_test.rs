//! F13 repro: gRPC `handle_client_read` fast path ignores
//! `ReadConsistencyConfig.allow_client_override = false`.
//!
//! Server config: allow_client_override = false, default_policy = LinearizableRead.
//! The node is NOT a leader: its ReadLease was never renewed (as on a follower) and
//! whatever arrives on cmd_tx is answered like a follower's Raft loop would
//! ("Not leader", see `RaftRoleState::push_client_cmd` default impl).
//!
//! Property: the client-supplied EventualConsistency must be ignored, the read has to be
//! routed to the Raft command channel (-> rejected with not-leader on a follower).
#[cfg(test)]
mod f13_grpc_repro {
    use std::sync::Arc;
    use std::sync::atomic::AtomicUsize;
    use std::sync::atomic::Ordering;

    use bytes::Bytes;
    use d_engine_core::ClientCmd;
    use d_engine_core::MockStateMachine;
    use d_engine_core::MockTypeConfig;
    use d_engine_core::ReadLease;
    use d_engine_core::config::ReadConsistencyPolicy as ServerPolicy;
    use d_engine_proto::client::ClientReadRequest;
    use d_engine_proto::client::ReadConsistencyPolicy as ProtoPolicy;
    use d_engine_proto::client::client_response::SuccessResult;
    use d_engine_proto::client::raft_client_service_server::RaftClientService;
    use tokio::sync::mpsc;
    use tonic::Request;

    use crate::Node;
    use crate::api::StandaloneReadHandle;
    use crate::read_actor::run_read_actor;
    use crate::test_utils::mock_node;

    /// Node with override disabled + default Linearizable, a live ReadActor over a local SM that
    /// holds (possibly stale) value "stale_local", and a fake follower Raft loop on cmd_rx that
    /// counts the Read commands it receives and rejects them with "Not leader".
    async fn make_follower_node(db: &str) -> (Node<MockTypeConfig>, Arc<AtomicUsize>) {
        let mut sm = MockStateMachine::new();
        sm.expect_is_running().returning(|| true);
        sm.expect_get_multi().returning(|keys| {
            Ok(keys.iter().map(|_| Some(Bytes::from_static(b"stale_local"))).collect())
        });

        // never renewed == follower / candidate
        let lease = Arc::new(ReadLease::new());

        let (read_tx, read_rx) = mpsc::channel(8);
        let (cmd_tx, mut cmd_rx) = mpsc::channel::<ClientCmd>(8);
        tokio::spawn(run_read_actor(read_rx, lease, Arc::new(sm), 64));

        let raft_reads = Arc::new(AtomicUsize::new(0));
        let raft_reads2 = raft_reads.clone();
        tokio::spawn(async move {
            while let Some(cmd) = cmd_rx.recv().await {
                if let ClientCmd::Read(_req, sender) = cmd {
                    raft_reads2.fetch_add(1, Ordering::SeqCst);
                    let _ = sender.send(Err(tonic::Status::failed_precondition("Not leader")));
                }
            }
        });

        let (_tx, graceful_rx) = tokio::sync::watch::channel(());
        let mut node = mock_node(db, graceful_rx, None);

        let mut cfg = (*node.node_config).clone();
        cfg.raft.read_consistency.allow_client_override = false;
        cfg.raft.read_consistency.default_policy = ServerPolicy::LinearizableRead;
        node.node_config = Arc::new(cfg);

        node.read_handle = StandaloneReadHandle::new(Some(read_tx), cmd_tx);
        node.ready.store(true, Ordering::SeqCst);
        (node, raft_reads)
    }

    fn req(policy: Option<ProtoPolicy>) -> ClientReadRequest {
        ClientReadRequest {
            client_id: 7,
            keys: vec![Bytes::from_static(b"k")],
            consistency_policy: policy.map(|p| p as i32),
        }
    }

    /// Asserts what the property demands. EXPECTED TO FAIL on the current code.
    #[tokio::test]
    async fn f13_grpc_override_disabled_eventual_must_not_be_served_locally() {
        let (node, raft_reads) = make_follower_node("/tmp/f13_grpc_a").await;
        assert!(!node.node_config.raft.read_consistency.allow_client_override);

        let result = node
            .handle_client_read(Request::new(req(Some(ProtoPolicy::EventualConsistency))))
            .await;
        println!("F13 grpc: result = {result:?}");
        println!(
            "F13 grpc: reads routed to raft cmd channel = {}",
            raft_reads.load(Ordering::SeqCst)
        );

        assert_eq!(
            raft_reads.load(Ordering::SeqCst),
            1,
            "override disabled + default Linearizable: read must be routed to the Raft loop"
        );
        assert!(
            result.is_err(),
            "non-leader must reject (server policy is LinearizableRead), got {result:?}"
        );
    }

    /// Asserts the buggy outcome. EXPECTED TO PASS on the current code.
    #[tokio::test]
    async fn f13_grpc_override_disabled_eventual_is_served_locally_buggy() {
        let (node, raft_reads) = make_follower_node("/tmp/f13_grpc_b").await;

        let result = node
            .handle_client_read(Request::new(req(Some(ProtoPolicy::EventualConsistency))))
            .await;
        let cr = result.expect("BUG: served although override disabled").into_inner();
        assert_eq!(cr.error, 0);
        match cr.success_result {
            Some(SuccessResult::ReadData(rd)) => {
                assert_eq!(rd.results.len(), 1);
                assert_eq!(rd.results[0].value, Bytes::from_static(b"stale_local"));
                println!("F13 grpc (buggy): follower served {:?} locally", rd.results[0].value);
            }
            other => panic!("unexpected payload {other:?}"),
        }
        assert_eq!(raft_reads.load(Ordering::SeqCst), 0, "Raft loop never saw the read");

        // Control 1: same node, same server config, no client policy -> goes to Raft loop -> rejected.
        let r2 = node.handle_client_read(Request::new(req(None))).await;
        println!("F13 grpc control (no policy): {r2:?}");
        assert!(r2.is_err());
        assert_eq!(raft_reads.load(Ordering::SeqCst), 1);

        // Control 2: explicit Linearizable -> Raft loop -> rejected.
        let r3 = node
            .handle_client_read(Request::new(req(Some(ProtoPolicy::LinearizableRead))))
            .await;
        assert!(r3.is_err());
        assert_eq!(raft_reads.load(Ordering::SeqCst), 2);
    }

    /// Same for LeaseRead on a node that holds a valid lease: the client downgrades
    /// Linearizable -> LeaseRead although overrides are disabled. EXPECTED TO PASS (buggy outcome).
    #[tokio::test]
    async fn f13_grpc_override_disabled_lease_read_is_served_from_lease_buggy() {
        let mut sm = MockStateMachine::new();
        sm.expect_is_running().returning(|| true);
        sm.expect_get_multi()
            .returning(|keys| Ok(keys.iter().map(|_| Some(Bytes::from_static(b"lease_v"))).collect()));
        let lease = Arc::new(ReadLease::new());
        lease.renew(1, d_engine_core::now_ms() + 60_000);

        let (read_tx, read_rx) = mpsc::channel(8);
        let (cmd_tx, cmd_rx) = mpsc::channel::<ClientCmd>(8);
        drop(cmd_rx); // any Raft-path routing would error
        tokio::spawn(run_read_actor(read_rx, lease, Arc::new(sm), 64));

        let (_tx, graceful_rx) = tokio::sync::watch::channel(());
        let mut node = mock_node("/tmp/f13_grpc_c", graceful_rx, None);
        let mut cfg = (*node.node_config).clone();
        cfg.raft.read_consistency.allow_client_override = false;
        cfg.raft.read_consistency.default_policy = ServerPolicy::LinearizableRead;
        node.node_config = Arc::new(cfg);
        node.read_handle = StandaloneReadHandle::new(Some(read_tx), cmd_tx);
        node.ready.store(true, Ordering::SeqCst);

        let r = node.handle_client_read(Request::new(req(Some(ProtoPolicy::LeaseRead)))).await;
        println!("F13 grpc lease (buggy): {r:?}");
        assert!(r.is_ok(), "BUG: LeaseRead served although override disabled and default Linearizable");
    }
}


// ===================== second file: d-engine-server/src/api/embedded_test/f13_embedded_repro_test.rs =====================

//! F13 repro (embedded path): `EmbeddedClient::get*_with_consistency` ->
//! `EmbeddedReadHandle::get_batch` never consults
//! `ReadConsistencyConfig.allow_client_override` (the handle does not even hold a config).
#[cfg(test)]
mod f13_embedded_repro {
    use std::sync::Arc;
    use std::sync::atomic::AtomicUsize;
    use std::sync::atomic::Ordering;
    use std::time::Duration;

    use bytes::Bytes;
    use d_engine_core::ApplyEntry;
    use d_engine_core::ClientCmd;
    use d_engine_core::Command;
    use d_engine_core::MockStateMachine;
    use d_engine_core::MockTypeConfig;
    use d_engine_core::ReadLease;
    use d_engine_core::StateMachine;
    use d_engine_core::config::ReadConsistencyPolicy;
    use d_engine_proto::common::NodeRole;
    use d_engine_proto::common::NodeStatus;
    use d_engine_proto::server::cluster::NodeMeta;
    use tokio::sync::mpsc;

    use crate::api::embedded_client::EmbeddedClient;
    use crate::api::embedded_read_handle::EmbeddedReadHandle;
    use crate::storage::FileStateMachine;
    use crate::storage::FileStorageEngine;

    /// Unit level: the real EmbeddedClient + real EmbeddedReadHandle, node is a non-leader
    /// (lease never renewed; the Raft loop stand-in on cmd_rx rejects reads with "Not leader"
    /// exactly as `RaftRoleState::push_client_cmd` does for override=false/default=Linearizable).
    ///
    /// There is no way to hand the server's ReadConsistencyConfig to the handle/client at all:
    /// `EmbeddedReadHandle::new(sm, lease, cmd_tx)`, `EmbeddedClient::new_internal(event_tx,
    /// read_handle, client_id, timeout)`.
    ///
    /// Asserts the property -> EXPECTED TO FAIL.
    #[tokio::test]
    async fn f13_embedded_eventual_on_non_leader_must_go_through_raft() {
        let mut sm = MockStateMachine::new();
        sm.expect_get_multi().returning(|keys| {
            Ok(keys.iter().map(|_| Some(Bytes::from_static(b"stale_local"))).collect())
        });
        let lease = Arc::new(ReadLease::new()); // never renewed: not a leader

        let (cmd_tx, mut cmd_rx) = mpsc::channel::<ClientCmd>(8);
        let raft_reads = Arc::new(AtomicUsize::new(0));
        let rr = raft_reads.clone();
        tokio::spawn(async move {
            while let Some(cmd) = cmd_rx.recv().await {
                if let ClientCmd::Read(_req, sender) = cmd {
                    rr.fetch_add(1, Ordering::SeqCst);
                    let _ = sender.send(Err(tonic::Status::failed_precondition("Not leader")));
                }
            }
        });

        let handle = EmbeddedReadHandle::<MockTypeConfig>::new(Arc::new(sm), lease, cmd_tx);
        let (event_tx, _event_rx) = mpsc::channel(8);
        let client =
            EmbeddedClient::<MockTypeConfig>::new_internal(event_tx, handle, 1, Duration::from_millis(300));

        let r = client.get_eventual(b"k").await;
        println!("F13 embedded unit: get_eventual -> {r:?}, raft_reads={}", raft_reads.load(Ordering::SeqCst));
        let r_multi = client
            .get_multi_with_consistency(&[Bytes::from_static(b"k")], ReadConsistencyPolicy::EventualConsistency)
            .await;
        println!("F13 embedded unit: get_multi_with_consistency(Eventual) -> {r_multi:?}");

        // control: linearizable goes through the raft loop and is rejected
        let lin = client.get_linearizable(b"k").await;
        println!("F13 embedded unit: get_linearizable -> {lin:?}");
        assert!(lin.is_err());

        assert!(
            r.is_err(),
            "server policy Linearizable + override disabled: non-leader must not serve, got {r:?}"
        );
    }

    /// End-to-end: a REAL EmbeddedEngine (FileStorageEngine + FileStateMachine) configured with
    /// allow_client_override=false, default_policy=LinearizableRead, member of a 3-voter
    /// cluster whose two peers are unreachable => this node can never be leader.
    /// The state machine holds k=stale (applied before start).
    ///
    /// Asserts the buggy outcome -> EXPECTED TO PASS on current code.
    #[tokio::test]
    async fn f13_embedded_e2e_non_leader_serves_eventual_despite_override_disabled() {
        unsafe {
            std::env::remove_var("CONFIG_PATH");
        }
        let tmp = tempfile::tempdir().unwrap();
        let storage_path = tmp.path().join("storage");
        let sm_path = tmp.path().join("sm");
        std::fs::create_dir_all(&storage_path).unwrap();
        std::fs::create_dir_all(&sm_path).unwrap();
        let storage = Arc::new(FileStorageEngine::new(storage_path).unwrap());
        let sm = Arc::new(FileStateMachine::new(sm_path).await.unwrap());
        sm.apply_chunk(&[ApplyEntry {
            index: 1,
            term: 1,
            command: Command::Insert {
                key: Bytes::from_static(b"k"),
                value: Bytes::from_static(b"stale"),
                ttl_secs: None,
            },
        }])
        .await
        .unwrap();

        let mut cfg = d_engine_core::RaftNodeConfig::new().unwrap();
        cfg.cluster.db_root_dir = tmp.path().to_path_buf();
        cfg.cluster.node_id = 1;
        cfg.cluster.listen_address = "127.0.0.1:39613".parse().unwrap();
        let meta = |id: u32, port: u16| NodeMeta {
            id,
            address: format!("127.0.0.1:{port}"),
            role: NodeRole::Follower as i32,
            status: NodeStatus::Active.into(),
        };
        cfg.cluster.initial_cluster = vec![meta(1, 39613), meta(2, 39614), meta(3, 39615)];
        cfg.raft.read_consistency.allow_client_override = false;
        cfg.raft.read_consistency.default_policy = ReadConsistencyPolicy::LinearizableRead;
        cfg.raft.general_raft_timeout_duration_in_ms = 500;
        let cfg = cfg.validate().unwrap();

        let engine = crate::api::embedded::EmbeddedEngine::start_node(cfg, storage, sm).await.unwrap();
        // not a leader, and never will be
        assert!(engine.wait_ready(Duration::from_millis(800)).await.is_err());

        let client = engine.client();
        let ev = client.get_eventual(b"k").await;
        let ev2 = client
            .get_with_consistency(b"k", ReadConsistencyPolicy::EventualConsistency)
            .await;
        let lin = client.get_linearizable(b"k").await;
        println!("F13 embedded e2e: get_eventual      -> {ev:?}");
        println!("F13 embedded e2e: get_with_consistency(Eventual) -> {ev2:?}");
        println!("F13 embedded e2e: get_linearizable  -> {lin:?}");

        assert!(lin.is_err(), "no leader: the server-default (linearizable) read fails");
        assert_eq!(
            ev.unwrap(),
            Some(Bytes::from_static(b"stale")),
            "BUG: non-leader served the read locally although override is disabled"
        );
        assert_eq!(ev2.unwrap(), Some(Bytes::from_static(b"stale")));

        let _ = tokio::time::timeout(Duration::from_secs(5), engine.stop()).await;
    }
}
