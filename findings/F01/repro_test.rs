//! F01 repro: a node that was LEADER of term T (it voted for itself in T) steps down via
//! `InternalEvent::BecomeFollower(None)` WITHOUT a term change.  `Raft::handle_internal_event`
//! unconditionally clears `voted_for`; a later VoteRequest{term: T} from another candidate is granted.
//! => the same node cast two votes in term T  (Election Safety: at most one leader per term).
//!
//! Everything on the decision path is production code:
//!   Raft::handle_internal_event, CandidateState::tick, LeaderState::{handle_self_removed, tick},
//!   FollowerState::handle_inbound_event, ElectionHandler::{broadcast_vote_requests, handle_vote_request}.
//! Only storage / transport / membership / replication are mockall mocks.

use std::collections::HashSet;
use std::sync::Arc;
use std::sync::atomic::{AtomicU64, Ordering};

use d_engine_proto::common::NodeRole::{Candidate, Follower, Leader};
use d_engine_proto::common::NodeStatus;
use d_engine_proto::server::cluster::ClusterMembership;
use d_engine_proto::server::cluster::NodeMeta;
use d_engine_proto::server::election::VoteRequest;
use d_engine_proto::server::election::VoteResponse;
use tokio::sync::mpsc;
use tokio::sync::watch;

use crate::ElectionConfig;
use crate::ElectionHandler;
use crate::InboundEvent;
use crate::InternalEvent;
use crate::MaybeCloneOneshot;
use crate::MockCommitHandler;
use crate::MockMembership;
use crate::MockPurgeExecutor;
use crate::MockRaftLog;
use crate::MockReplicationCore;
use crate::MockSnapshotPolicy;
use crate::MockStateMachine;
use crate::MockStateMachineHandler;
use crate::MockStorageEngine;
use crate::MockTransport;
use crate::Raft;
use crate::RaftConfig;
use crate::RaftCoreHandlers;
use crate::RaftNodeConfig;
use crate::RaftOneshot;
use crate::RaftRole;
use crate::RaftStorageHandles;
use crate::SignalParams;
use crate::TypeConfig;
use crate::VoteResult;
use crate::follower_state::FollowerState;
use crate::test_utils::mock::mock_raft_builder::mock_state_machine;

/// Same as MockTypeConfig but with the REAL election handler.
#[derive(Debug, Clone, Copy, Default, Eq, PartialEq, Ord, PartialOrd)]
pub struct RealElectionTC;

impl TypeConfig for RealElectionTC {
    type R = MockRaftLog;
    type SE = MockStorageEngine;
    type E = ElectionHandler<Self>;
    type TR = MockTransport<Self>;
    type SM = MockStateMachine;
    type M = MockMembership<Self>;
    type REP = MockReplicationCore<Self>;
    type C = MockCommitHandler;
    type SMH = MockStateMachineHandler<Self>;
    type SNP = MockSnapshotPolicy;
    type PE = MockPurgeExecutor;
}

fn peer(id: u32) -> NodeMeta {
    NodeMeta {
        id,
        address: format!("127.0.0.1:{}", 9000 + id),
        role: Follower as i32,
        status: NodeStatus::Active as i32,
    }
}

/// 3-voter cluster {1(self),2,3}.
fn membership_3() -> MockMembership<RealElectionTC> {
    let mut m = MockMembership::new();
    m.expect_can_rejoin().returning(|_, _| Ok(()));
    m.expect_pre_warm_connections().returning(|| Ok(()));
    m.expect_voters().returning(|| vec![peer(2), peer(3)]);
    m.expect_replication_peers().returning(|| vec![peer(2), peer(3)]);
    m.expect_members().returning(|| vec![peer(1), peer(2), peer(3)]);
    m.expect_check_cluster_is_ready().returning(|| Ok(()));
    m.expect_retrieve_cluster_membership_config().returning(|_| ClusterMembership {
        version: 1,
        nodes: vec![],
        current_leader_id: None,
    });
    m.expect_get_cluster_conf_version().returning(|| 1);
    m.expect_get_peers_id_with_condition().returning(|_| vec![2, 3]);
    m.expect_is_single_node_cluster().returning(|| false);
    m.expect_initial_cluster_size().returning(|| 3);
    m
}

fn raft_log(log_index: Arc<AtomicU64>) -> MockRaftLog {
    let (a, b) = (log_index.clone(), log_index.clone());
    let mut raft_log = MockRaftLog::new();
    raft_log.expect_last_entry_id().returning(move || a.load(Ordering::Relaxed));
    raft_log.expect_durable_index().returning(move || b.load(Ordering::Relaxed));
    raft_log.expect_last_log_id().returning(|| None);
    raft_log.expect_flush().returning(|| Ok(()));
    raft_log.expect_load_hard_state().returning(|| Ok(None));
    raft_log.expect_save_hard_state().returning(|_| Ok(()));
    raft_log.expect_calculate_majority_matched_index().returning(|_, _, _| None);
    raft_log.expect_close().returning(|| ());
    raft_log
}

struct Harness {
    raft: Raft<RealElectionTC>,
    _shutdown_tx: watch::Sender<()>,
}

/// `noop_prepare_fails`: make the leader's noop write fail (-> production path
/// "initiate_noop_commit failed — stepping down" in Raft::handle_internal_event).
fn build(noop_prepare_fails: bool) -> Harness {
    let (shutdown_tx, shutdown_rx) = watch::channel(());
    let (internal_event_tx, internal_event_rx) = mpsc::unbounded_channel();
    let (event_tx, event_rx) = mpsc::channel(10);
    let (cmd_tx, cmd_rx) = mpsc::channel(1024);

    let mut node_config = RaftNodeConfig::new().unwrap().validate().unwrap();
    // production default is 3600s; shorten so the real LeaderState::tick noop-timeout path is testable
    node_config.raft.membership.verify_leadership_persistent_timeout = std::time::Duration::from_millis(100);
    let node_config = Arc::new(RaftNodeConfig {
        raft: RaftConfig {
            election: ElectionConfig {
                election_timeout_min: 1,
                election_timeout_max: 2,
                ..node_config.raft.election
            },
            ..node_config.raft
        },
        ..node_config
    });

    // Transport: both peers grant their vote for whatever term the REAL candidate asks for.
    let mut transport = MockTransport::<RealElectionTC>::new();
    transport.expect_send_vote_requests().returning(|req, _, _| {
        Ok(VoteResult {
            peer_ids: HashSet::from([2, 3]),
            responses: vec![
                Ok(VoteResponse {
                    term: req.term,
                    vote_granted: true,
                    last_log_index: 0,
                    last_log_term: 0,
                }),
                Ok(VoteResponse {
                    term: req.term,
                    vote_granted: true,
                    last_log_index: 0,
                    last_log_term: 0,
                }),
            ],
        })
    });

    let log_index = Arc::new(AtomicU64::new(0));
    let li = log_index.clone();
    let mut replication = MockReplicationCore::<RealElectionTC>::new();
    replication.expect_prepare_batch_requests().returning(move |payloads, _, _, _, _| {
        if noop_prepare_fails {
            return Err(crate::Error::Fatal("noop write failed".into()));
        }
        li.fetch_add(payloads.len() as u64, Ordering::Relaxed);
        // no peer is reachable: nothing gets sent, noop never reaches quorum
        Ok(crate::PrepareResult::default())
    });

    let mut smh = MockStateMachineHandler::<RealElectionTC>::new();
    smh.expect_update_pending().returning(|_| {});
    smh.expect_read_from_state_machine().returning(|_| None);
    smh.expect_should_snapshot().returning(|_| false);
    smh.expect_get_latest_snapshot_metadata().returning(|| None);

    let mut purge = MockPurgeExecutor::new();
    purge.expect_execute_purge().returning(|_| Ok(()));

    let state_machine = Arc::new(mock_state_machine());
    let role = RaftRole::Follower(Box::new(FollowerState::new(1, node_config.clone(), None, Some(0))));

    let raft = Raft::<RealElectionTC>::new(
        1,
        role,
        RaftStorageHandles {
            raft_log: Arc::new(raft_log(log_index)),
            state_machine,
        },
        transport,
        RaftCoreHandlers {
            election_handler: ElectionHandler::new(1),
            replication_handler: replication,
            state_machine_handler: Arc::new(smh),
            purge_executor: Arc::new(purge),
        },
        Arc::new(membership_3()),
        SignalParams {
            internal_event_tx,
            internal_event_rx,
            event_tx,
            event_rx,
            cmd_tx,
            cmd_rx,
            shutdown_signal: shutdown_rx,
        },
        node_config,
    );
    Harness {
        raft,
        _shutdown_tx: shutdown_tx,
    }
}

/// Pop the next internal event the production code queued for the Raft loop and feed it to the
/// real `handle_internal_event` (this is exactly what `Raft::run` does).
async fn pump_one(raft: &mut Raft<RealElectionTC>) -> String {
    let ev = raft.internal_event_rx.try_recv().expect("an internal event must be queued");
    let name = format!("{:?}", ev);
    raft.handle_internal_event(ev).await.expect("handle_internal_event");
    name
}

/// Follower(term 1) --BecomeCandidate--> Candidate --real tick: term 2, vote self, win--> Leader(term 2)
async fn win_election(raft: &mut Raft<RealElectionTC>) -> u64 {
    raft.handle_internal_event(InternalEvent::BecomeCandidate).await.unwrap();
    assert_eq!(raft.role.as_i32(), Candidate as i32);

    tokio::time::sleep(std::time::Duration::from_millis(10)).await; // election timer (1-2ms) expires
    let (itx, etx) = (raft.internal_event_tx.clone(), raft.event_tx.clone());
    raft.role.tick(&itx, &etx, &raft.ctx).await.expect("candidate tick");

    let term = raft.role.current_term();
    let vote = raft.role.voted_for().unwrap().expect("candidate voted for itself");
    assert_eq!((vote.voted_for_id, vote.voted_for_term), (1, term));
    println!("[F01] candidate term={term} voted_for={vote:?}");

    let ev = pump_one(raft).await;
    assert!(ev.starts_with("BecomeLeader"), "got {ev}");
    assert_eq!(raft.role.as_i32(), Leader as i32);
    let vote = raft.role.voted_for().unwrap().expect("leader keeps its self-vote");
    assert_eq!((vote.voted_for_id, vote.voted_for_term), (1, term));
    println!("[F01] LEADER of term {term}, voted_for={vote:?}");
    term
}

/// After the step-down: same term, competing candidate 2 asks for a vote in that SAME term.
async fn assert_no_second_vote_in_term(
    raft: &mut Raft<RealElectionTC>,
    term: u64,
) {
    assert_eq!(raft.role.as_i32(), Follower as i32);
    assert_eq!(raft.role.current_term(), term, "step-down must not have changed the term");
    println!(
        "[F01] after BecomeFollower(None): role=Follower term={} voted_for={:?}",
        raft.role.current_term(),
        raft.role.voted_for().unwrap()
    );

    let (resp_tx, mut resp_rx) = MaybeCloneOneshot::new();
    let itx = raft.internal_event_tx.clone();
    raft.role
        .handle_inbound_event(
            InboundEvent::ReceiveVoteRequest(
                VoteRequest {
                    term,
                    candidate_id: 2,
                    last_log_index: 100, // at least as up to date as ours
                    last_log_term: term,
                },
                resp_tx,
            ),
            &raft.ctx,
            itx,
        )
        .await
        .expect("follower handles vote request");
    let resp = resp_rx.recv().await.unwrap().unwrap();
    println!(
        "[F01] VoteRequest{{term:{term}, candidate:2}} -> {:?}; voted_for now {:?}",
        resp,
        raft.role.voted_for().unwrap()
    );

    // The property: this node already voted (for itself, and WON) in `term`; it must refuse.
    assert!(
        !resp.vote_granted,
        "DOUBLE VOTE: node 1 was elected leader of term {term} with its own vote and now ALSO granted its \
         term-{term} vote to candidate 2"
    );
}

/// Path 1: leader removed from membership -> InternalEvent::StepDownSelfRemoved ->
/// LeaderState::handle_self_removed -> BecomeFollower(None)  (no term change).
#[tokio::test]
async fn f01_leader_self_removed_then_votes_again_in_same_term() {
    let mut h = build(false);
    let raft = &mut h.raft;
    let term = win_election(raft).await;

    raft.handle_internal_event(InternalEvent::StepDownSelfRemoved).await.unwrap();
    let ev = pump_one(raft).await;
    assert!(ev.starts_with("BecomeFollower(None)"), "got {ev}");

    assert_no_second_vote_in_term(raft, term).await;
}

/// Path 2: leader's noop never reaches quorum -> real LeaderState::tick times the noop out ->
/// BecomeFollower(None)  (no term change).
#[tokio::test]
async fn f01_leader_noop_timeout_then_votes_again_in_same_term() {
    let mut h = build(false);
    let raft = &mut h.raft;
    let term = win_election(raft).await;

    let timeout = raft.ctx.node_config.raft.membership.verify_leadership_persistent_timeout;
    println!("[F01] waiting noop deadline {:?}", timeout);
    tokio::time::sleep(timeout + std::time::Duration::from_millis(50)).await;
    let (itx, etx) = (raft.internal_event_tx.clone(), raft.event_tx.clone());
    raft.role.tick(&itx, &etx, &raft.ctx).await.expect("leader tick");

    // drain whatever the tick queued until the BecomeFollower(None)
    loop {
        let ev = pump_one(raft).await;
        println!("[F01] pumped {ev}");
        if ev.starts_with("BecomeFollower(None)") {
            break;
        }
    }
    assert_no_second_vote_in_term(raft, term).await;
}

/// Path 3: noop write fails inside BecomeLeader handling -> Raft::handle_internal_event itself queues
/// BecomeFollower(None)  (no term change).
#[tokio::test]
async fn f01_leader_noop_write_fails_then_votes_again_in_same_term() {
    let mut h = build(true);
    let raft = &mut h.raft;
    let term = win_election(raft).await;

    let ev = pump_one(raft).await;
    assert!(ev.starts_with("BecomeFollower(None)"), "got {ev}");

    assert_no_second_vote_in_term(raft, term).await;
}
