//! F03 repro: a node may skip vote collection only when it is the ONLY voter.
//!
//! `Membership::is_single_node_cluster()` == `initial_cluster_size() == 1`, and
//! `RaftMembership::initial_cluster_size` is a field set once in `RaftMembership::new`.
//! `ElectionHandler::broadcast_vote_requests` returns Ok(()) ("election won") immediately when it is true.
//!
//! History: node 1 bootstraps as a 1-node cluster, then nodes 2 and 3 join through the normal
//! committed-config-change path (`apply_config_change(AddNode)` then `apply_config_change(Promote)`),
//! i.e. the cluster now has 3 voters.  Node 1 later starts an election.

use std::sync::Arc;

use d_engine_core::ElectionCore;
use d_engine_core::ElectionHandler;
use d_engine_core::Membership;
use d_engine_core::MockCommitHandler;
use d_engine_core::MockPurgeExecutor;
use d_engine_core::MockRaftLog;
use d_engine_core::MockReplicationCore;
use d_engine_core::MockSnapshotPolicy;
use d_engine_core::MockStateMachine;
use d_engine_core::MockStateMachineHandler;
use d_engine_core::MockStorageEngine;
use d_engine_core::MockTransport;
use d_engine_core::RaftNodeConfig;
use d_engine_core::TypeConfig;
use d_engine_proto::common::AddNode;
use d_engine_proto::common::MembershipChange;
use d_engine_proto::common::NodeRole::Follower;
use d_engine_proto::common::NodeStatus;
use d_engine_proto::common::PromoteLearner;
use d_engine_proto::common::membership_change::Change;
use d_engine_proto::server::cluster::NodeMeta;

use super::RaftMembership;

/// REAL membership + REAL election handler; transport is a mock so that we can count RPCs.
#[derive(Debug, Clone, Copy, Default, Eq, PartialEq, Ord, PartialOrd)]
struct F03TC;

impl TypeConfig for F03TC {
    type R = MockRaftLog;
    type SE = MockStorageEngine;
    type E = ElectionHandler<Self>;
    type TR = MockTransport<Self>;
    type SM = MockStateMachine;
    type M = RaftMembership<Self>;
    type REP = MockReplicationCore<Self>;
    type C = MockCommitHandler;
    type SMH = MockStateMachineHandler<Self>;
    type SNP = MockSnapshotPolicy;
    type PE = MockPurgeExecutor;
}

async fn grown_membership() -> RaftMembership<F03TC> {
    // bootstrap: single-node cluster {1}
    let (membership, _zombie_rx) = RaftMembership::<F03TC>::new(
        1,
        vec![NodeMeta {
            id: 1,
            address: "127.0.0.1:9081".to_string(),
            role: Follower as i32,
            status: NodeStatus::Active.into(),
        }],
        RaftNodeConfig::default(),
    );
    assert!(membership.is_single_node_cluster().await);
    assert_eq!(membership.voters().await.len(), 0);

    // nodes 2 and 3 join (committed AddNode entries applied), then get promoted (committed Promote entries)
    for id in [2u32, 3] {
        membership
            .apply_config_change(MembershipChange {
                change: Some(Change::AddNode(AddNode {
                    node_id: id,
                    address: format!("127.0.0.1:{}", 9080 + id),
                    status: NodeStatus::Promotable as i32,
                })),
            })
            .await
            .expect("AddNode");
        membership.notify_config_applied(id as u64 * 2).await;
        membership
            .apply_config_change(MembershipChange {
                change: Some(Change::Promote(PromoteLearner {
                    node_id: id,
                    status: NodeStatus::Active as i32,
                })),
            })
            .await
            .expect("Promote");
        membership.notify_config_applied(id as u64 * 2 + 1).await;
    }
    membership
}

/// Pure membership view: once there are other voters the node is not a "single node cluster" any more.
#[tokio::test]
async fn f03_is_single_node_cluster_false_after_cluster_grew() {
    let membership = grown_membership().await;

    let voters = membership.voters().await; // peers (non-self) that vote
    let members = membership.members().await;
    let snapshot = membership.subscribe_membership().borrow().clone();
    println!("[F03] members = {:?}", members.iter().map(|n| (n.id, n.role, n.status)).collect::<Vec<_>>());
    println!("[F03] voters() (other voting peers) = {:?}", voters.iter().map(|n| n.id).collect::<Vec<_>>());
    println!("[F03] committed snapshot = {:?}", snapshot);
    println!(
        "[F03] initial_cluster_size() = {}  is_single_node_cluster() = {}",
        membership.initial_cluster_size().await,
        membership.is_single_node_cluster().await
    );
    assert_eq!(voters.len(), 2, "nodes 2 and 3 are voting peers now");

    assert!(
        !membership.is_single_node_cluster().await,
        "cluster has {} other voters {:?} but is_single_node_cluster() still says true",
        voters.len(),
        voters.iter().map(|n| n.id).collect::<Vec<_>>()
    );
}

/// The consumer: the REAL ElectionHandler::broadcast_vote_requests "wins" without asking anybody.
#[tokio::test]
async fn f03_election_must_collect_votes_after_cluster_grew() {
    let membership = Arc::new(grown_membership().await);
    assert_eq!(membership.voters().await.len(), 2);

    let sent = Arc::new(std::sync::atomic::AtomicUsize::new(0));
    let sent2 = sent.clone();
    let mut transport = MockTransport::<F03TC>::new();
    // every peer REJECTS: if the candidate asked, it could not win
    transport.expect_send_vote_requests().returning(move |req, _, _| {
        sent2.fetch_add(1, std::sync::atomic::Ordering::SeqCst);
        Ok(d_engine_core::VoteResult {
            peer_ids: std::collections::HashSet::from([2, 3]),
            responses: vec![
                Ok(d_engine_proto::server::election::VoteResponse {
                    term: req.term,
                    vote_granted: false,
                    last_log_index: 0,
                    last_log_term: 0,
                }),
                Ok(d_engine_proto::server::election::VoteResponse {
                    term: req.term,
                    vote_granted: false,
                    last_log_index: 0,
                    last_log_term: 0,
                }),
            ],
        })
    });
    let transport = Arc::new(transport);

    let mut raft_log = MockRaftLog::new();
    raft_log.expect_last_log_id().returning(|| None);
    let raft_log = Arc::new(raft_log);

    let handler = ElectionHandler::<F03TC>::new(1);
    let result = handler
        .broadcast_vote_requests(
            7,
            membership.clone(),
            &raft_log,
            &transport,
            &Arc::new(RaftNodeConfig::default()),
        )
        .await;
    let rpcs = sent.load(std::sync::atomic::Ordering::SeqCst);
    println!("[F03] broadcast_vote_requests(term=7) -> {:?}; send_vote_requests calls = {}", result, rpcs);

    assert_eq!(rpcs, 1, "candidate in a 3-voter cluster never asked its peers for votes");
    assert!(
        result.is_err(),
        "ELECTION WON WITHOUT A MAJORITY: both other voters would have rejected, yet broadcast_vote_requests returned Ok"
    );
}
