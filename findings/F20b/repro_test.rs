//! F20b repro: RocksDBLogStore::truncate / replace_range derive the cached `last_index`
//! from their arguments instead of from the surviving entries.
//!
//! Property C20: File and RocksDB log stores return the same entries, last index and purge
//! boundary as a reference store, live and after reopen, and agree with each other.

use std::sync::Arc;

use bytes::Bytes;
use d_engine_core::LogStore;
use d_engine_core::StorageEngine;
use d_engine_proto::common::Entry;
use d_engine_proto::common::EntryPayload;
use tempfile::TempDir;

use super::RocksDBStorageEngine;
use crate::storage::adaptors::file::FileStorageEngine;

fn entries(range: std::ops::RangeInclusive<u64>) -> Vec<Entry> {
    range
        .map(|i| Entry {
            index: i,
            term: 1,
            payload: Some(EntryPayload::command(Bytes::from(format!("v{i}")))),
        })
        .collect()
}

#[derive(Debug, PartialEq, Eq, Clone)]
struct View {
    last_index: u64,
    stored: Vec<u64>,
}

fn view<L: LogStore>(s: &Arc<L>) -> View {
    View {
        last_index: s.last_index(),
        stored: s.get_entries(0..=u64::MAX - 1).unwrap().into_iter().map(|e| e.index).collect(),
    }
}

#[derive(Clone, Copy, Debug)]
enum Op {
    Truncate(u64),
    ReplaceRangeEmpty(u64),
}

async fn run(op: Op) -> (View, View, View, View) {
    let dir = TempDir::new().unwrap();
    let rocks_path = dir.path().join("rocks");
    let file_path = dir.path().join("file");

    // ---- live ----
    let rocks = RocksDBStorageEngine::new(&rocks_path).unwrap();
    let file = FileStorageEngine::new(file_path.clone()).unwrap();
    let (rl, fl) = (rocks.log_store(), file.log_store());

    rl.persist_entries(entries(1..=5)).await.unwrap();
    fl.persist_entries(entries(1..=5)).await.unwrap();
    assert_eq!(view(&rl), view(&fl));
    assert_eq!(rl.last_index(), 5);

    match op {
        Op::Truncate(i) => {
            rl.truncate(i).await.unwrap();
            fl.truncate(i).await.unwrap();
        }
        Op::ReplaceRangeEmpty(i) => {
            rl.replace_range(i, vec![]).await.unwrap();
            fl.replace_range(i, vec![]).await.unwrap();
        }
    }
    rl.flush().unwrap();
    fl.flush().unwrap();

    let rocks_live = view(&rl);
    let file_live = view(&fl);

    // ---- reopen ----
    drop(rl);
    drop(fl);
    drop(rocks);
    drop(file);
    let rocks = RocksDBStorageEngine::new(&rocks_path).unwrap();
    let file = FileStorageEngine::new(file_path).unwrap();
    let rocks_reopen = view(&rocks.log_store());
    let file_reopen = view(&file.log_store());

    println!("F20b {op:?}:");
    println!("  rocksdb live   = {rocks_live:?}");
    println!("  file    live   = {file_live:?}");
    println!("  rocksdb reopen = {rocks_reopen:?}");
    println!("  file    reopen = {file_reopen:?}");
    (rocks_live, file_live, rocks_reopen, file_reopen)
}

fn expected() -> View {
    View {
        last_index: 5,
        stored: vec![1, 2, 3, 4, 5],
    }
}

/// Asserts what C20 demands. FAILS on current code (rocksdb live last_index == 9).
#[tokio::test]
async fn f20b_truncate_beyond_end_property() {
    let (rocks_live, file_live, rocks_reopen, file_reopen) = run(Op::Truncate(10)).await;
    assert_eq!(file_live, expected());
    assert_eq!(file_reopen, expected());
    assert_eq!(rocks_reopen, expected());
    assert_eq!(rocks_live, expected(), "RocksDB live view differs from File / reference / itself-after-reopen");
}

/// Asserts what C20 demands. FAILS on current code (rocksdb live last_index == 9).
#[tokio::test]
async fn f20b_replace_range_empty_beyond_end_property() {
    let (rocks_live, file_live, rocks_reopen, file_reopen) = run(Op::ReplaceRangeEmpty(10)).await;
    assert_eq!(file_live, expected());
    assert_eq!(file_reopen, expected());
    assert_eq!(rocks_reopen, expected());
    assert_eq!(rocks_live, expected(), "RocksDB live view differs from File / reference / itself-after-reopen");
}

/// Asserts the buggy outcome; PASSES on current code.
#[tokio::test]
async fn f20b_buggy_outcome_passes() {
    for op in [Op::Truncate(10), Op::ReplaceRangeEmpty(10)] {
        let (rocks_live, file_live, rocks_reopen, file_reopen) = run(op).await;
        assert_eq!(rocks_live.stored, vec![1, 2, 3, 4, 5]);
        assert_eq!(rocks_live.last_index, 9, "argument-derived last_index");
        assert_eq!(file_live.last_index, 5);
        assert_eq!(rocks_reopen.last_index, 5);
        assert_eq!(file_reopen.last_index, 5);
    }
}

/// Variant with a gap inside the range: after purge(<=3) (store holds 4,5) truncate(2)
/// removes everything; and truncate(3) on a store holding only 1 and 5..: irrelevant.
/// Here: in-range but sparse case -- persist 1..=5, purge up to 5 (empty store), truncate(4):
/// nothing left, File says last_index 0, RocksDB says 3.
#[tokio::test]
async fn f20b_truncate_after_full_purge_buggy_outcome_passes() {
    let dir = TempDir::new().unwrap();
    let rocks = RocksDBStorageEngine::new(dir.path().join("rocks")).unwrap();
    let file = FileStorageEngine::new(dir.path().join("file")).unwrap();
    let (rl, fl) = (rocks.log_store(), file.log_store());
    rl.persist_entries(entries(1..=5)).await.unwrap();
    fl.persist_entries(entries(1..=5)).await.unwrap();
    let cutoff = d_engine_proto::common::LogId { index: 5, term: 1 };
    rl.purge(cutoff).await.unwrap();
    fl.purge(cutoff).await.unwrap();
    println!("after purge(5): rocksdb={:?} file={:?}", view(&rl), view(&fl));
    rl.truncate(4).await.unwrap();
    fl.truncate(4).await.unwrap();
    println!("after purge(5)+truncate(4): rocksdb={:?} file={:?}", view(&rl), view(&fl));
    assert!(view(&rl).stored.is_empty() && view(&fl).stored.is_empty());
    assert_eq!(fl.last_index(), 0);
    assert_eq!(rl.last_index(), 3);
}
