//! F05 repro: `filter_out_conflicts_and_append(prev=0/0, ..)` wipes the whole follower log
//! (reset) although nothing conflicts -> entries beyond the request batch are lost.

use std::collections::HashMap;
use std::sync::Arc;

use crate::test_utils::{BufferedRaftLogTestContext, mock_entries};
use crate::{
    BufferedRaftLog, FlushPolicy, MockCommitHandler, MockElectionCore, MockMembership,
    MockPurgeExecutor, MockReplicationCore, MockSnapshotPolicy, MockStateMachine,
    MockStateMachineHandler, MockStorageEngine, MockTransport, PersistenceConfig,
    PersistenceStrategy, RaftLog, ReplicationCore, ReplicationData, ReplicationHandler,
    StateSnapshot, TypeConfig,
};

fn ctx(name: &str) -> BufferedRaftLogTestContext {
    BufferedRaftLogTestContext::new(
        PersistenceStrategy::MemFirst,
        FlushPolicy::Batch {
            idle_flush_interval_ms: 50,
        },
        name,
    )
}

/// PROPERTY assertion (expected to FAIL on current code):
/// follower holds 1..=150 (term 1) identical to the leader's. Leader (next_index=1, cap=100)
/// sends prev=0/0 with entries 1..=100 of the same terms. Nothing conflicts, so the follower
/// must keep 101..=150.
#[tokio::test]
async fn f05_property_non_conflicting_suffix_must_survive() {
    let ctx = ctx("f05_property");
    ctx.append_entries(1, 150, 1).await;
    ctx.raft_log.flush().await.unwrap();
    assert_eq!(ctx.raft_log.last_entry_id(), 150);

    let r = ctx
        .raft_log
        .filter_out_conflicts_and_append(0, 0, mock_entries(1, 100, 1))
        .await
        .unwrap();
    println!(
        "F05: returned last_match={:?}, last_entry_id()={}, entry(101).is_some()={}, entry(150).is_some()={}",
        r,
        ctx.raft_log.last_entry_id(),
        ctx.raft_log.entry(101).unwrap().is_some(),
        ctx.raft_log.entry(150).unwrap().is_some()
    );
    assert_eq!(
        ctx.raft_log.last_entry_id(),
        150,
        "entries 101..=150 did not conflict with the request and must not be deleted"
    );
    assert!(ctx.raft_log.entry(150).unwrap().is_some());
}

/// Same history, asserting the BUGGY outcome (expected to PASS on current code).
#[tokio::test]
async fn f05_buggy_outcome_suffix_is_wiped() {
    let ctx = ctx("f05_buggy");
    ctx.append_entries(1, 150, 1).await;
    ctx.raft_log.flush().await.unwrap();
    assert_eq!(ctx.raft_log.last_entry_id(), 150);
    assert_eq!(ctx.raft_log.durable_index(), 150);

    ctx.raft_log
        .filter_out_conflicts_and_append(0, 0, mock_entries(1, 100, 1))
        .await
        .unwrap();
    ctx.raft_log.flush().await.unwrap();

    assert_eq!(ctx.raft_log.last_entry_id(), 100);
    for i in 101..=150u64 {
        assert!(ctx.raft_log.entry(i).unwrap().is_none(), "entry {i} still there");
    }
    // also gone from the (mock) durable store after a restart
    let recovered = ctx.recover_from_crash();
    println!(
        "F05: after restart last_entry_id()={}",
        recovered.raft_log.last_entry_id()
    );
    assert_eq!(recovered.raft_log.last_entry_id(), 100);
}

// ---- end-to-end: real leader-side request builder -> real follower-side handler ----

#[derive(Debug, Clone, Copy, Default, Eq, PartialEq, Ord, PartialOrd)]
pub struct F05TypeConfig;
impl TypeConfig for F05TypeConfig {
    type R = BufferedRaftLog<Self>;
    type SE = MockStorageEngine;
    type E = MockElectionCore<Self>;
    type TR = MockTransport<Self>;
    type SM = MockStateMachine;
    type M = MockMembership<Self>;
    type REP = MockReplicationCore<Self>;
    type C = MockCommitHandler;
    type SMH = MockStateMachineHandler<Self>;
    type SNP = MockSnapshotPolicy;
    type PE = MockPurgeExecutor;
}

fn real_log(id: &str) -> Arc<BufferedRaftLog<F05TypeConfig>> {
    let storage = Arc::new(MockStorageEngine::with_id(id.to_string()));
    let (log, rx) = BufferedRaftLog::<F05TypeConfig>::new(
        1,
        PersistenceConfig {
            strategy: PersistenceStrategy::MemFirst,
            flush_policy: FlushPolicy::Batch {
                idle_flush_interval_ms: 50,
            },
            max_buffered_entries: 1000,
        },
        storage,
    );
    let log = log.start(rx, None);
    std::thread::sleep(std::time::Duration::from_millis(10));
    log
}

/// Leader (150 entries, peer next_index=1 as after handle_peer_stream_error with match_index=0,
/// default cap 100, heartbeat = no new entries) builds the request with the real
/// prepare_peer_entries/build_append_request; the follower (identical 150 entries, commit=150)
/// processes it with the real handle_append_entries.
#[tokio::test]
async fn f05_end_to_end_leader_request_wipes_identical_follower() {
    let leader_log = real_log("f05_e2e_leader");
    let follower_log = real_log("f05_e2e_follower");
    leader_log.append_entries(mock_entries(1, 150, 1)).await.unwrap();
    follower_log.append_entries(mock_entries(1, 150, 1)).await.unwrap();
    follower_log.flush().await.unwrap();

    let leader = ReplicationHandler::<F05TypeConfig>::new(1);
    let data = ReplicationData {
        leader_last_index_before: leader_log.last_entry_id(),
        current_term: 1,
        commit_index: 150,
        peer_next_indices: HashMap::from([(2u32, 1u64)]),
    };
    let default_cap = crate::RaftNodeConfig::default()
        .raft
        .replication
        .append_entries_max_entries_per_replication;
    println!("F05: default append_entries_max_entries_per_replication = {default_cap}");
    let mut per_peer = leader.prepare_peer_entries(&[], &data, default_cap, &leader_log);
    let (_, req) = leader.build_append_request(&leader_log, 2, &mut per_peer, &data);
    println!(
        "F05: leader request prev={}/{} entries={}..={} leader_commit={}",
        req.prev_log_index,
        req.prev_log_term,
        req.entries.first().unwrap().index,
        req.entries.last().unwrap().index,
        req.leader_commit_index
    );
    assert_eq!((req.prev_log_index, req.prev_log_term), (0, 0));
    assert_eq!(req.entries.len() as u64, default_cap);

    let follower = ReplicationHandler::<F05TypeConfig>::new(2);
    let snap = StateSnapshot {
        role: 0,
        current_term: 1,
        voted_for: None,
        commit_index: 150,
    };
    let resp = follower.handle_append_entries(req, &snap, &follower_log).await.unwrap();
    println!(
        "F05: follower response={:?} commit_update={:?}; follower last_entry_id()={} (commit_index was 150)",
        resp.response,
        resp.commit_index_update,
        follower_log.last_entry_id()
    );
    // property: committed entries (<=150) never lost
    assert_eq!(
        follower_log.last_entry_id(),
        150,
        "follower lost committed entries 101..=150 by processing a non-conflicting AppendEntries"
    );
}
