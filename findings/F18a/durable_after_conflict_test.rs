//! Triage F18a: durable_index is never lowered by a conflict truncation, so entries appended afterwards
//! at indexes at or below the stale mark are reported durable without ever reaching the store.

use bytes::Bytes;
use d_engine_core::{FlushPolicy, LogStore, PersistenceStrategy, RaftLog, StorageEngine};
use d_engine_proto::common::{Entry, EntryPayload};
use d_engine_server::FileStorageEngine;
use std::path::PathBuf;

use super::TestContext;

fn entry(index: u64, term: u64) -> Entry {
    Entry {
        index,
        term,
        payload: Some(EntryPayload::command(Bytes::from(b"data".to_vec()))),
    }
}

/// append 1..=10 (term 1), flush (durable = 10); a new leader replaces 5.. with [5,6] of term 2;
/// then 7..=9 (term 2) are appended and flushed. Everything flush() reported durable must be on disk.
#[tokio::test]
async fn test_entries_reported_durable_after_conflict_truncation_are_on_disk() {
    let mut ctx = TestContext::new(
        PersistenceStrategy::MemFirst,
        FlushPolicy::Batch {
            idle_flush_interval_ms: 1,
        },
        "test_entries_reported_durable_after_conflict_truncation_are_on_disk",
    );

    ctx.append_entries(1, 10, 1).await;
    ctx.raft_log.flush().await.unwrap();
    assert_eq!(ctx.raft_log.durable_index(), 10);

    ctx.raft_log
        .filter_out_conflicts_and_append(4, 1, vec![entry(5, 2), entry(6, 2)])
        .await
        .unwrap();
    assert_eq!(ctx.raft_log.last_entry_id(), 6);

    ctx.raft_log.append_entries(vec![entry(7, 2), entry(8, 2), entry(9, 2)]).await.unwrap();
    ctx.raft_log.flush().await.unwrap();
    let reported = ctx.raft_log.durable_index();
    assert!(reported >= 9, "flush() returned: entries up to 9 are reported durable (durable_index={reported})");

    // kill -9: what is physically in the store, read by a fresh engine
    let _dir = ctx._temp_dir.take();
    let path = ctx.path.clone();
    std::mem::forget(ctx);
    let storage = FileStorageEngine::new(PathBuf::from(path)).unwrap();
    let on_disk: Vec<(u64, u64)> =
        storage.log_store().get_entries(1..=u64::MAX).unwrap().iter().map(|e| (e.index, e.term)).collect();
    let want: Vec<(u64, u64)> =
        (1..=4).map(|i| (i, 1)).chain((5..=9).map(|i| (i, 2))).collect();
    assert_eq!(on_disk, want, "every entry reported durable (durable_index={reported}) must be in the store");
}
