//! F16d repro: snapshot boundary is read before the state is captured, and nothing excludes
//! `apply_chunk` in between (C16: "A snapshot's recorded boundary always matches the state it contains").
//!
//! Real `DefaultStateMachineHandler` + real `FileStateMachine`.  One task plays the SM worker
//! (`handler.apply_chunk(vec![entry])`, worker.rs:110), the other plays the task spawned by
//! `handle_create_snapshot` (leader_state.rs:1791-1792: `tokio::spawn(.. create_snapshot() ..)`).
//! Each produced snapshot is installed into a fresh follower through the real
//! `load_snapshot_data` -> `apply_snapshot_stream_from_leader` path and its contents are compared
//! with the boundary recorded in the snapshot metadata.

use std::path::Path;
use std::sync::Arc;
use std::sync::atomic::AtomicUsize;
use std::time::Duration;

use bytes::Bytes;
use bytes::BytesMut;
use d_engine_core::DefaultStateMachineHandler;
use d_engine_core::LogSizePolicy;
use d_engine_core::SnapshotConfig;
use d_engine_core::StateMachine;
use d_engine_core::StateMachineHandler;
use d_engine_proto::client::WriteCommand;
use d_engine_proto::common::Entry;
use d_engine_proto::common::EntryPayload;
use d_engine_proto::server::storage::SnapshotMetadata;
use futures::StreamExt;
use prost::Message;
use tempfile::TempDir;
use tokio::sync::mpsc;

use crate::node::RaftTypeConfig;
use crate::storage::FileStateMachine;
use crate::storage::FileStorageEngine;

type TC = RaftTypeConfig<FileStorageEngine, FileStateMachine>;
type Handler = DefaultStateMachineHandler<TC>;

pub(super) fn cfg(dir: &Path) -> SnapshotConfig {
    std::fs::create_dir_all(dir).unwrap();
    let mut c = d_engine_core::snapshot_config(dir.to_path_buf());
    c.chunk_size = 64 * 1024;
    c.retained_log_entries = 1; // minimum accepted by SnapshotConfig::validate (raft.rs:644)
    c.cleanup_retain_count = 2;
    c
}

pub(super) fn handler(
    node_id: u32,
    sm: Arc<FileStateMachine>,
    snaps: &Path,
) -> Arc<Handler> {
    let last = sm.last_applied().index;
    Arc::new(Handler::new(
        node_id,
        last,
        sm,
        cfg(snaps),
        LogSizePolicy::new(1_000_000, Duration::from_secs(0)),
        None,
        Arc::new(AtomicUsize::new(0)),
    ))
}

pub(super) fn insert_entry(
    index: u64,
    key: Vec<u8>,
    value: Vec<u8>,
) -> Entry {
    let mut buf = BytesMut::new();
    WriteCommand::insert(Bytes::from(key), Bytes::from(value)).encode(&mut buf).unwrap();
    Entry {
        index,
        term: 1,
        payload: Some(EntryPayload::command(buf.freeze())),
    }
}

/// Leader -> follower snapshot transfer with the production sender (`load_snapshot_data`) and the
/// production receiver (`apply_snapshot_stream_from_leader`).
pub(super) async fn install(
    sender: &Arc<Handler>,
    meta: &SnapshotMetadata,
    receiver: &Arc<Handler>,
    receiver_cfg: &SnapshotConfig,
) -> Result<(), String> {
    let mut stream = sender
        .load_snapshot_data(meta.clone())
        .await
        .map_err(|e| format!("SENDER load_snapshot_data failed: {e:?}"))?;
    let (tx, rx) = mpsc::channel(8);
    let (ack_tx, mut ack_rx) = mpsc::channel(8);
    let drain = tokio::spawn(async move { while ack_rx.recv().await.is_some() {} });
    let feed = tokio::spawn(async move {
        while let Some(c) = stream.next().await {
            match c {
                Ok(c) => {
                    if tx.send(c).await.is_err() {
                        break;
                    }
                }
                Err(e) => {
                    println!("sender stream error: {e:?}");
                    break;
                }
            }
        }
    });
    let r = receiver
        .apply_snapshot_stream_from_leader(1, rx, ack_tx, receiver_cfg)
        .await
        .map_err(|e| format!("RECEIVER rejected: {e:?}"));
    let _ = feed.await;
    let _ = drain.await;
    r
}

fn key_of(i: u64) -> Vec<u8> {
    format!("k{i:010}").into_bytes()
}

#[tokio::test]
async fn f16d_snapshot_contains_entries_beyond_its_boundary() {
    const N: u64 = 30_000;
    let tmp = TempDir::new().unwrap();
    let sm = Arc::new(FileStateMachine::new(tmp.path().join("leader_sm")).await.unwrap());
    let leader = handler(1, sm.clone(), &tmp.path().join("leader_snaps"));

    // SM worker: applies committed entries one by one, key = index.
    let applier = {
        let leader = leader.clone();
        tokio::spawn(async move {
            for i in 1..=N {
                leader
                    .apply_chunk(vec![insert_entry(i, key_of(i), i.to_be_bytes().to_vec())])
                    .await
                    .unwrap();
            }
        })
    };

    let mut snapshots = 0u32;
    let mut violations: Vec<String> = Vec::new();
    while !applier.is_finished() && violations.len() < 3 && snapshots < 200 {
        // what handle_create_snapshot's spawned task runs
        let (meta, _path) = leader.create_snapshot().await.unwrap();
        snapshots += 1;
        let boundary = meta.last_included.unwrap().index;
        // create_snapshot read raw = sm.last_applied() and recorded raw.saturating_sub(1):
        let raw_last_applied_read = boundary + 1;

        let fdir = tmp.path().join(format!("follower{snapshots}"));
        let fsm = Arc::new(FileStateMachine::new(fdir.join("sm")).await.unwrap());
        let fcfg = cfg(&fdir.join("snaps"));
        let follower = handler(2, fsm.clone(), &fdir.join("snaps"));
        install(&leader, &meta, &follower, &fcfg).await.unwrap();

        let scan = fsm.scan_prefix(b"k").unwrap();
        let max_idx = scan
            .entries
            .iter()
            .map(|(k, _)| std::str::from_utf8(&k[1..]).unwrap().parse::<u64>().unwrap())
            .max()
            .unwrap_or(0);
        let line = format!(
            "snapshot #{snapshots}: metadata.last_included.index={boundary} (last_applied read by create_snapshot <= {raw_last_applied_read}); \
             follower after install: last_applied={} keys={} max_key_index={max_idx}",
            fsm.last_applied().index,
            scan.entries.len(),
        );
        if max_idx > raw_last_applied_read {
            println!("[F16d] VIOLATION {line}  -> contains {} entries beyond the boundary that was read", max_idx - raw_last_applied_read);
            violations.push(line);
        } else if snapshots <= 3 {
            println!("[F16d] ok        {line}");
        }
        let _ = std::fs::remove_dir_all(&fdir);
    }
    applier.abort();
    println!("[F16d] snapshots taken: {snapshots}, violations: {}", violations.len());
    assert!(
        violations.is_empty(),
        "C16 violated: snapshot holds state from entries applied AFTER the boundary was read:\n{}",
        violations.join("\n")
    );
}
