//! F28 repro: committed membership changes are not persisted and not re-derived at restart.
//!
//! RaftMembership is purely in-memory (MembershipGuard = ArcSwap<HashMap>) and is rebuilt by
//! NodeBuilder::build from `node_config.cluster.initial_cluster` (builder.rs:408-413).
//! The committed Config log entries are not replayed either: the commit handler only looks at
//! `state_machine_handler.pending_range()` = (last_applied+1)..=commit, and last_applied is seeded
//! from the state machine's persisted last_applied (builder.rs:304/391) which already covers them.

use std::sync::Arc;

use d_engine_core::DefaultStateMachineHandler;
use d_engine_core::LogSizePolicy;
use d_engine_core::Membership;
use d_engine_core::RaftNodeConfig;
use d_engine_core::StateMachine;
use d_engine_core::StateMachineHandler;
use d_engine_proto::common::AddNode;
use d_engine_proto::common::Entry;
use d_engine_proto::common::EntryPayload;
use d_engine_proto::common::MembershipChange;
use d_engine_proto::common::NodeRole::Follower;
use d_engine_proto::common::NodeStatus;
use d_engine_proto::common::PromoteLearner;
use d_engine_proto::common::membership_change::Change;
use d_engine_proto::server::cluster::NodeMeta;
use tempfile::TempDir;

use super::RaftMembership;
use crate::node::RaftTypeConfig;
use crate::storage::FileStateMachine;
use crate::storage::FileStorageEngine;

type TC = RaftTypeConfig<FileStorageEngine, FileStateMachine>;

fn initial_cluster() -> Vec<NodeMeta> {
    (1..=3u32)
        .map(|id| NodeMeta {
            id,
            address: format!("127.0.0.1:{}", 9000 + id),
            role: Follower as i32,
            status: NodeStatus::Active.into(),
        })
        .collect()
}

/// Exactly what NodeBuilder::build does when no pre-built membership is injected.
fn build_membership_like_node_builder(node_config: &RaftNodeConfig) -> RaftMembership<TC> {
    RaftMembership::<TC>::new(
        1,
        node_config.cluster.initial_cluster.clone(),
        node_config.clone(),
    )
    .0
}

fn add_node_4() -> MembershipChange {
    MembershipChange {
        change: Some(Change::AddNode(AddNode {
            node_id: 4,
            address: "127.0.0.1:9004".to_string(),
            status: NodeStatus::Promotable as i32,
        })),
    }
}
fn promote_node_4() -> MembershipChange {
    MembershipChange {
        change: Some(Change::Promote(PromoteLearner {
            node_id: 4,
            status: NodeStatus::Active as i32,
        })),
    }
}

async fn voter_ids(m: &RaftMembership<TC>) -> Vec<u32> {
    let mut v: Vec<u32> = m
        .members()
        .await
        .into_iter()
        .filter(|n| n.role == Follower as i32 && n.status == NodeStatus::Active as i32)
        .map(|n| n.id)
        .collect();
    v.sort();
    v
}

/// History: node 1 of {1,2,3}; log index 1 = Config(AddNode 4), index 2 = Config(Promote 4),
/// both committed and applied (same calls DefaultCommitHandler::apply_config_change makes).
/// Then a graceful restart with the same config file.
async fn run_history() -> (Vec<u32>, Vec<u32>, bool, Option<std::ops::RangeInclusive<u64>>) {
    let tmp = TempDir::new().unwrap();
    let mut node_config = RaftNodeConfig::default();
    node_config.cluster.node_id = 1;
    node_config.cluster.initial_cluster = initial_cluster();
    node_config.cluster.db_root_dir = tmp.path().to_path_buf();
    node_config.raft.snapshot.snapshots_dir = tmp.path().join("snapshots");
    let sm_dir = tmp.path().join("sm");

    // ---------------- run 1 ----------------
    let before_restart = {
        let membership = build_membership_like_node_builder(&node_config);
        let sm = Arc::new(FileStateMachine::new(sm_dir.clone()).await.unwrap());
        let smh = DefaultStateMachineHandler::<TC>::new(
            1,
            sm.last_applied().index,
            sm.clone(),
            node_config.raft.snapshot.clone(),
            LogSizePolicy::new(1000, std::time::Duration::from_secs(60)),
            None,
            Arc::new(std::sync::atomic::AtomicUsize::new(0)),
        );

        // commit handler: membership.apply_config_change(change) + notify_config_applied(index),
        // and the same entry goes to the SM (as Noop) so that last_applied advances.
        membership.apply_config_change(add_node_4()).await.unwrap();
        membership.notify_config_applied(1).await;
        membership.apply_config_change(promote_node_4()).await.unwrap();
        membership.notify_config_applied(2).await;
        smh.apply_chunk(vec![
            Entry {
                index: 1,
                term: 1,
                payload: Some(EntryPayload::config(add_node_4().change.unwrap())),
            },
            Entry {
                index: 2,
                term: 1,
                payload: Some(EntryPayload::config(promote_node_4().change.unwrap())),
            },
        ])
        .await
        .unwrap();
        assert_eq!(sm.last_applied().index, 2);

        let v = voter_ids(&membership).await;
        assert_eq!(v, vec![1, 2, 3, 4], "run 1: node 4 is a voter after AddNode+Promote");
        assert_eq!(membership.subscribe_membership().borrow().committed_index, 2);

        // graceful shutdown
        sm.flush_async().await.unwrap();
        sm.stop().unwrap();
        v
        // membership, smh, sm dropped here
    };

    // files written under the node's db_root_dir during run 1 (anything membership-related?)
    fn walk(
        p: &std::path::Path,
        out: &mut Vec<String>,
    ) {
        for e in std::fs::read_dir(p).unwrap() {
            let e = e.unwrap();
            if e.path().is_dir() {
                walk(&e.path(), out);
            } else {
                out.push(e.path().display().to_string());
            }
        }
    }
    let mut files = vec![];
    walk(tmp.path(), &mut files);
    println!("F28 files on disk after run 1: {files:#?}");

    // ---------------- run 2 (restart, same config) ----------------
    let membership = build_membership_like_node_builder(&node_config);
    let sm = Arc::new(FileStateMachine::new(sm_dir.clone()).await.unwrap());
    let la = sm.last_applied().index;
    println!("F28 restart: state machine last_applied = {la}");
    assert_eq!(la, 2);
    let smh = DefaultStateMachineHandler::<TC>::new(
        1,
        la,
        sm.clone(),
        node_config.raft.snapshot.clone(),
        LogSizePolicy::new(1000, std::time::Duration::from_secs(60)),
        None,
        Arc::new(std::sync::atomic::AtomicUsize::new(0)),
    );
    // leader tells us commit_index = 2 again -> CommitHandler::run -> update_pending(2) -> process_batch
    smh.update_pending(2);
    let pending = smh.pending_range();
    println!("F28 restart: pending_range after commit_index=2 -> {pending:?} (None = nothing re-applied)");

    let after_restart = voter_ids(&membership).await;
    let contains4 = membership.contains_node(4).await;
    println!("F28 voters before restart = {before_restart:?}, after restart = {after_restart:?}");
    (before_restart, after_restart, contains4, pending)
}

/// Asserts what the property DEMANDS -> FAILS on the current code.
#[tokio::test]
async fn f28_membership_survives_restart() {
    let (before, after, contains4, _) = run_history().await;
    assert!(contains4, "PROPERTY VIOLATED: committed member 4 is gone after restart");
    assert_eq!(before, after, "PROPERTY VIOLATED: voter set changed across restart");
}

/// Asserts the BUGGY outcome -> PASSES on the current code.
#[tokio::test]
async fn f28_membership_lost_on_restart_buggy_outcome() {
    let (before, after, contains4, pending) = run_history().await;
    assert_eq!(before, vec![1, 2, 3, 4]);
    assert_eq!(after, vec![1, 2, 3], "membership reverted to initial_cluster");
    assert!(!contains4);
    assert_eq!(pending, None, "config entries 1..=2 are not re-applied: pending_range is empty");
}
