//! F15(a) repro: RocksDBStateMachine does not persist last_applied atomically with the data.
//!
//! apply_chunk() -> db.write_wbwi(data batch)  (durable in the RocksDB WAL)
//!               -> update_last_applied()       (in-memory atomics ONLY)
//! last_applied is written to the meta CF only by flush()/close_db()/Drop/reset().
//!
//! Crash simulation: copy the DB directory (SST + WAL + MANIFEST) while the DB is still open
//! and before any graceful flush/close/drop runs, then open the copy.  This is exactly the
//! on-disk image a `kill -9` would leave behind.

use std::path::Path;

use bytes::Bytes;
use d_engine_core::ApplyEntry;
use d_engine_core::Command;
use d_engine_core::StateMachine;
use tempfile::TempDir;

use super::RocksDBStateMachine;

fn copy_dir(
    src: &Path,
    dst: &Path,
) {
    std::fs::create_dir_all(dst).unwrap();
    for e in std::fs::read_dir(src).unwrap() {
        let e = e.unwrap();
        let p = e.path();
        let to = dst.join(e.file_name());
        if p.is_dir() {
            copy_dir(&p, &to);
        } else {
            std::fs::copy(&p, &to).unwrap();
        }
    }
}

fn cas(
    index: u64,
    key: &str,
    expected: Option<&str>,
    value: &str,
) -> ApplyEntry {
    ApplyEntry {
        index,
        term: 1,
        command: Command::CompareAndSwap {
            key: Bytes::from(key.to_string()),
            expected: expected.map(|e| Bytes::from(e.to_string())),
            value: Bytes::from(value.to_string()),
        },
    }
}

/// The committed history (log indexes 1..=3), all on key "k":
///   1: CAS(k, None -> "w")   succeeds on an empty store
///   2: CAS(k, "x"  -> "y")   fails   (k == "w")
///   3: CAS(k, "w"  -> "x")   succeeds
/// Applied exactly once: results [ok, FAIL, ok], k == "x".
fn history() -> Vec<ApplyEntry> {
    vec![
        cas(1, "k", None, "w"),
        cas(2, "k", Some("x"), "y"),
        cas(3, "k", Some("w"), "x"),
    ]
}

async fn crash_and_reopen() -> (TempDir, RocksDBStateMachine, Vec<bool>) {
    let tmp = TempDir::new().unwrap();
    let live = tmp.path().join("live");
    let crashed = tmp.path().join("crashed");

    let sm = RocksDBStateMachine::new(&live).unwrap();
    sm.start().await.unwrap();
    let once: Vec<bool> =
        sm.apply_chunk(&history()).await.unwrap().iter().map(|r| r.succeeded).collect();
    assert_eq!(once, vec![true, false, true]);
    assert_eq!(sm.get(b"k").unwrap(), Some(Bytes::from("x")));
    assert_eq!(sm.last_applied().index, 3, "in-memory last_applied before crash");

    // ---- CRASH: take the on-disk image now, no flush/close/drop has run ----
    copy_dir(&live, &crashed);
    // (the original object is dropped gracefully afterwards; that only touches `live`)
    drop(sm);

    let reopened = RocksDBStateMachine::new(&crashed).unwrap();
    reopened.start().await.unwrap();
    (tmp, reopened, once)
}

/// Asserts what the property DEMANDS -> FAILS on the current code.
#[tokio::test]
async fn f15a_rocksdb_last_applied_matches_data_after_crash() {
    let (_tmp, sm, _) = crash_and_reopen().await;

    let k = sm.get(b"k").unwrap();
    let la = sm.last_applied();
    println!("F15a after crash+reopen: get(k)={k:?} last_applied={la:?}");

    // the data of entries 1..=3 survived (RocksDB WAL) ...
    assert_eq!(k, Some(Bytes::from("x")), "effects of entries 1..=3 are on disk");
    // ... so the applied index reported after restart must cover them.
    assert_eq!(
        la.index, 3,
        "PROPERTY VIOLATED: data contains entries 1..=3 but last_applied() reports {}",
        la.index
    );
}

/// Asserts the BUGGY outcome -> PASSES on the current code.
/// After restart NodeBuilder::build seeds DefaultStateMachineHandler.last_applied from
/// state_machine.last_applied().index (builder.rs:304), so pending_range() = (0+1)..=commit
/// and entries 1..=3 are handed to apply_chunk a second time.
#[tokio::test]
async fn f15a_rocksdb_double_apply_diverges() {
    let (_tmp, sm, once) = crash_and_reopen().await;

    assert_eq!(sm.last_applied().index, 0, "stale last_applied after crash");
    assert_eq!(sm.get(b"k").unwrap(), Some(Bytes::from("x")), "but data is there");

    // node restarts: re-applies (last_applied+1)..=commit_index == 1..=3
    let twice: Vec<bool> =
        sm.apply_chunk(&history()).await.unwrap().iter().map(|r| r.succeeded).collect();
    let k = sm.get(b"k").unwrap();
    println!("F15a results applied once = {once:?}, re-applied after crash = {twice:?}, k={k:?}");

    assert_eq!(once, vec![true, false, true]);
    assert_eq!(twice, vec![false, true, false], "every CAS outcome flipped");
    assert_eq!(
        k,
        Some(Bytes::from("y")),
        "state diverged: exactly-once gives k=x, this node now has k=y"
    );
}
