//! F31 repro: leader-change notifications must report at most one leader per term.
//!
//! `LeaderState::handle_inbound_event` — for an AppendEntries / ClusterConfUpdate request carrying a HIGHER
//! term — queues `BecomeFollower(Some(new_leader_id))` but does not call `update_current_term`
//! (see the `//TODO: if there is a bug?` comments).  `Raft::handle_internal_event(BecomeFollower)` then
//! publishes `notify_leader_change(Some(new_leader), self.role.current_term())` = the node's OLD term.
//!
//! Real code on the path: Raft::handle_internal_event, Raft::process_inbound_events, CandidateState::tick,
//! LeaderState::handle_inbound_event, FollowerState (replayed AppendEntries), the watch-channel listener
//! registered with `register_leader_change_listener`.

use std::collections::BTreeMap;
use std::collections::BTreeSet;
use std::sync::Arc;
use std::sync::atomic::{AtomicU64, Ordering};

use d_engine_proto::common::NodeRole::{Candidate, Follower, Leader};
use d_engine_proto::server::cluster::ClusterConfChangeRequest;
use d_engine_proto::server::replication::AppendEntriesRequest;
use d_engine_proto::server::replication::AppendEntriesResponse;
use tokio::sync::watch;

use crate::AppendResponseWithUpdates;
use crate::InboundEvent;
use crate::InternalEvent;
use crate::LeaderInfo;
use crate::MaybeCloneOneshot;
use crate::MockRaftLog;
use crate::MockReplicationCore;
use crate::Raft;
use crate::RaftOneshot;
use crate::test_utils::MockBuilder;
use crate::test_utils::MockTypeConfig;

const OTHER: u32 = 2;

struct Recorder {
    rx: watch::Receiver<Option<LeaderInfo>>,
    history: Vec<Option<LeaderInfo>>,
}
impl Recorder {
    /// record what a subscriber polling right now would observe
    fn observe(
        &mut self,
        after: &str,
    ) {
        if self.rx.has_changed().unwrap_or(false) {
            let v = *self.rx.borrow_and_update();
            println!("[F31] listener sees {:?}   (after {after})", v);
            self.history.push(v);
        }
    }
    fn leaders_per_term(&self) -> BTreeMap<u64, BTreeSet<u32>> {
        let mut m: BTreeMap<u64, BTreeSet<u32>> = BTreeMap::new();
        for info in self.history.iter().flatten() {
            m.entry(info.term).or_default().insert(info.leader_id);
        }
        m
    }
}

fn build() -> (Raft<MockTypeConfig>, watch::Sender<()>, Recorder) {
    let (graceful_tx, graceful_rx) = watch::channel(());
    let mut raft = MockBuilder::new(graceful_rx).build_raft();

    // same storage/replication mocks the existing raft tests use for a successful (single-voter) noop commit
    let log_index = Arc::new(AtomicU64::new(11));
    let (a, b, c) = (log_index.clone(), log_index.clone(), log_index.clone());
    let mut raft_log = MockRaftLog::new();
    raft_log.expect_last_entry_id().returning(move || a.load(Ordering::Relaxed));
    raft_log.expect_durable_index().returning(move || b.load(Ordering::Relaxed));
    raft_log.expect_last_log_id().returning(|| None);
    raft_log.expect_flush().returning(|| Ok(()));
    raft_log.expect_calculate_majority_matched_index().returning(|_, _, _| Some(11));
    raft_log.expect_load_hard_state().returning(|| Ok(None));
    raft_log.expect_save_hard_state().returning(|_| Ok(()));
    let mut replication = MockReplicationCore::<MockTypeConfig>::new();
    replication.expect_prepare_batch_requests().returning(move |payloads, _, _, _, _| {
        c.fetch_add(payloads.len() as u64, Ordering::Relaxed);
        Ok(crate::PrepareResult::default())
    });
    // the follower side of the replayed AppendEntries
    replication.expect_handle_append_entries().returning(|req, _, _| {
        Ok(AppendResponseWithUpdates {
            response: AppendEntriesResponse::success(1, req.term, None),
            commit_index_update: None,
        })
    });
    raft.ctx.storage.raft_log = Arc::new(raft_log);
    raft.ctx.handlers.replication_handler = replication;

    let (leader_tx, leader_rx) = watch::channel(None);
    raft.register_leader_change_listener(leader_tx);
    (
        raft,
        graceful_tx,
        Recorder {
            rx: leader_rx,
            history: vec![],
        },
    )
}

/// pop every queued internal event and run it through the real handler, observing the listener after each
async fn pump_all(
    raft: &mut Raft<MockTypeConfig>,
    rec: &mut Recorder,
) -> Vec<String> {
    let mut names = vec![];
    while let Ok(ev) = raft.internal_event_rx.try_recv() {
        let name = format!("{:?}", ev);
        let name = name.chars().take(60).collect::<String>();
        raft.handle_internal_event(ev).await.expect("handle_internal_event");
        rec.observe(&name);
        names.push(name);
    }
    names
}

/// become the ready leader of term T through the production election path; returns T
async fn become_ready_leader(
    raft: &mut Raft<MockTypeConfig>,
    rec: &mut Recorder,
) -> u64 {
    raft.handle_internal_event(InternalEvent::BecomeCandidate).await.unwrap();
    rec.observe("BecomeCandidate");
    assert_eq!(raft.role.as_i32(), Candidate as i32);
    tokio::time::sleep(std::time::Duration::from_millis(10)).await;
    let (itx, etx) = (raft.internal_event_tx.clone(), raft.event_tx.clone());
    raft.role.tick(&itx, &etx, &raft.ctx).await.unwrap(); // term += 1, vote self, (mock) election won
    let evs = pump_all(raft, rec).await; // BecomeLeader (writes the noop entry)
    println!("[F31] events processed: {evs:?}");
    // production: the raft-io thread reports the flush of the noop entry -> single-voter commit -> NoopCommitted
    let durable_index = crate::RaftLog::last_entry_id(raft.ctx.raft_log().as_ref());
    raft.handle_internal_event(InternalEvent::LogFlushed { durable_index }).await.unwrap();
    let evs = pump_all(raft, rec).await; // NotifyNewCommitIndex, NoopCommitted{term}
    println!("[F31] events processed: {evs:?}");
    assert_eq!(raft.role.as_i32(), Leader as i32);
    let term = raft.role.current_term();
    assert_eq!(
        rec.history.last().copied().flatten(),
        Some(LeaderInfo {
            leader_id: 1,
            term
        }),
        "listener was told (self, T) once the noop committed"
    );
    term
}

fn assert_one_leader_per_term(rec: &Recorder) {
    let per_term = rec.leaders_per_term();
    println!("[F31] notification history: {:?}", rec.history);
    println!("[F31] leaders announced per term: {:?}", per_term);
    for (term, leaders) in &per_term {
        assert!(
            leaders.len() <= 1,
            "TWO LEADERS ANNOUNCED FOR TERM {term}: {leaders:?}  (history: {:?})",
            rec.history
        );
    }
}

/// AppendEntries{term: T+1, leader_id: 2} arrives at the leader of term T.
#[tokio::test]
async fn f31_append_entries_higher_term_publishes_new_leader_with_old_term() {
    let (mut raft, _g, mut rec) = build();
    let t = become_ready_leader(&mut raft, &mut rec).await;

    let (resp_tx, mut resp_rx) = MaybeCloneOneshot::new();
    let itx = raft.internal_event_tx.clone();
    raft.role
        .handle_inbound_event(
            InboundEvent::AppendEntries(
                AppendEntriesRequest {
                    term: t + 1,
                    leader_id: OTHER,
                    prev_log_index: 0,
                    prev_log_term: 0,
                    entries: vec![],
                    leader_commit_index: 0,
                },
                vec![resp_tx],
            ),
            &raft.ctx,
            itx,
        )
        .await
        .unwrap();
    println!(
        "[F31] after LeaderState handled AppendEntries{{term:{}}}: role={} current_term={}",
        t + 1,
        raft.role.as_i32(),
        raft.role.current_term()
    );
    assert_eq!(raft.role.current_term(), t, "leader did not adopt the higher term");

    // what Raft::run does next: process_internal_events (BecomeFollower(Some(2)), ReprocessEvent) ...
    let evs = pump_all(&mut raft, &mut rec).await;
    println!("[F31] events processed: {evs:?}");
    assert!(evs[0].starts_with("BecomeFollower(Some(2))"));
    assert_eq!(raft.role.as_i32(), Follower as i32);
    // ... then process_inbound_events (the replayed AppendEntries, now handled by FollowerState) ...
    raft.process_inbound_events().await.unwrap();
    let _ = resp_rx.recv().await;
    // ... and, one loop iteration later, the LeaderDiscovered(2, T+1) the follower queued
    let evs = pump_all(&mut raft, &mut rec).await;
    println!("[F31] events processed: {evs:?}");
    println!("[F31] final: current_term={}", raft.role.current_term());

    assert_one_leader_per_term(&rec);
}

/// ClusterConfUpdate{term: T+1, id: 2} arrives at the leader of term T.
#[tokio::test]
async fn f31_cluster_conf_update_higher_term_publishes_new_leader_with_old_term() {
    let (mut raft, _g, mut rec) = build();
    let t = become_ready_leader(&mut raft, &mut rec).await;

    let (resp_tx, _resp_rx) = MaybeCloneOneshot::new();
    let itx = raft.internal_event_tx.clone();
    raft.role
        .handle_inbound_event(
            InboundEvent::ClusterConfUpdate(
                ClusterConfChangeRequest {
                    id: OTHER,
                    term: t + 1,
                    version: 2,
                    change: None,
                },
                resp_tx,
            ),
            &raft.ctx,
            itx,
        )
        .await
        .unwrap();
    assert_eq!(raft.role.current_term(), t, "leader did not adopt the higher term");

    // only the BecomeFollower event (the replayed ClusterConfUpdate needs a membership mock and does not notify)
    let ev = raft.internal_event_rx.try_recv().unwrap();
    assert!(matches!(ev, InternalEvent::BecomeFollower(Some(OTHER))), "{ev:?}");
    raft.handle_internal_event(ev).await.unwrap();
    rec.observe("BecomeFollower(Some(2))");
    println!("[F31] follower current_term={}", raft.role.current_term());

    assert_one_leader_per_term(&rec);
}
