//! F08 repro: the per-peer entry list built by the leader is [legacy window capped at `max`] ++ new_entries,
//! which is NOT consecutive when the peer lags by more than `max`; the follower stores it with a hole and
//! acknowledges the highest index.

use std::collections::HashMap;
use std::sync::Arc;

use bytes::Bytes;
use d_engine_proto::common::{Entry, EntryPayload};
use d_engine_proto::server::replication::append_entries_response::Result as AerResult;

use crate::test_utils::mock_entries;
use crate::{
    BufferedRaftLog, FlushPolicy, MockCommitHandler, MockElectionCore, MockMembership,
    MockPurgeExecutor, MockReplicationCore, MockSnapshotPolicy, MockStateMachine,
    MockStateMachineHandler, MockStorageEngine, MockTransport, PersistenceConfig,
    PersistenceStrategy, RaftLog, ReplicationCore, ReplicationData, ReplicationHandler,
    StateSnapshot, TypeConfig,
};

#[derive(Debug, Clone, Copy, Default, Eq, PartialEq, Ord, PartialOrd)]
pub struct F08TypeConfig;
impl TypeConfig for F08TypeConfig {
    type R = BufferedRaftLog<Self>;
    type SE = MockStorageEngine;
    type E = MockElectionCore<Self>;
    type TR = MockTransport<Self>;
    type SM = MockStateMachine;
    type M = MockMembership<Self>;
    type REP = MockReplicationCore<Self>;
    type C = MockCommitHandler;
    type SMH = MockStateMachineHandler<Self>;
    type SNP = MockSnapshotPolicy;
    type PE = MockPurgeExecutor;
}

fn real_log(id: &str) -> Arc<BufferedRaftLog<F08TypeConfig>> {
    let storage = Arc::new(MockStorageEngine::with_id(id.to_string()));
    let (log, rx) = BufferedRaftLog::<F08TypeConfig>::new(
        1,
        PersistenceConfig {
            strategy: PersistenceStrategy::MemFirst,
            flush_policy: FlushPolicy::Batch {
                idle_flush_interval_ms: 50,
            },
            max_buffered_entries: 1000,
        },
        storage,
    );
    let log = log.start(rx, None);
    std::thread::sleep(std::time::Duration::from_millis(10));
    log
}

fn indexes(v: &[Entry]) -> Vec<u64> {
    v.iter().map(|e| e.index).collect()
}

fn first_gap(prev: u64, v: &[Entry]) -> Option<(u64, u64)> {
    let mut expect = prev + 1;
    for e in v {
        if e.index != expect {
            return Some((expect, e.index));
        }
        expect += 1;
    }
    None
}

/// Runs exactly the body of `ReplicationHandler::prepare_batch_requests` (generate_new_entries ->
/// prepare_peer_entries -> build_append_request) against a real leader log.
async fn leader_builds_request(
    leader_log: &Arc<BufferedRaftLog<F08TypeConfig>>,
    peer_next: u64,
    cap: u64,
) -> d_engine_proto::server::replication::AppendEntriesRequest {
    let leader = ReplicationHandler::<F08TypeConfig>::new(1);
    let leader_last_index_before = leader_log.last_entry_id();
    let new_entries = leader
        .generate_new_entries(
            vec![EntryPayload::command(Bytes::from_static(b"new"))],
            1,
            leader_log,
        )
        .await
        .unwrap();
    assert_eq!(indexes(&new_entries), vec![251]);
    let data = ReplicationData {
        leader_last_index_before,
        current_term: 1,
        commit_index: 250,
        peer_next_indices: HashMap::from([(2u32, peer_next)]),
    };
    let mut per_peer = leader.prepare_peer_entries(&new_entries, &data, cap, leader_log);
    let (_, req) = leader.build_append_request(leader_log, 2, &mut per_peer, &data);
    req
}

/// PROPERTY (expected to FAIL): entries of an AppendEntries are consecutive, starting at prev_log_index+1.
#[tokio::test]
async fn f08_property_request_entries_are_consecutive() {
    let leader_log = real_log("f08_leader_a");
    leader_log.append_entries(mock_entries(1, 250, 1)).await.unwrap();

    let req = leader_builds_request(&leader_log, 1, 100).await;
    let idx = indexes(&req.entries);
    println!(
        "F08: request prev={}/{} #entries={} first={} ...[98..]={:?}",
        req.prev_log_index,
        req.prev_log_term,
        idx.len(),
        idx[0],
        &idx[98..]
    );
    assert_eq!(
        first_gap(req.prev_log_index, &req.entries),
        None,
        "AppendEntries must carry consecutive indexes (expected_index, found_index)"
    );
}

/// Follower side, prev=0/0 (empty follower, peer next_index=1): the gapped list is stored as is.
/// Asserts the BUGGY outcome (expected to PASS) and prints it.
#[tokio::test]
async fn f08_buggy_outcome_follower_log_has_hole_prev0() {
    let leader_log = real_log("f08_leader_b");
    leader_log.append_entries(mock_entries(1, 250, 1)).await.unwrap();
    let req = leader_builds_request(&leader_log, 1, 100).await;
    assert_eq!(first_gap(req.prev_log_index, &req.entries), Some((101, 251)));

    let follower_log = real_log("f08_follower_b");
    let follower = ReplicationHandler::<F08TypeConfig>::new(2);
    let snap = StateSnapshot {
        role: 0,
        current_term: 1,
        voted_for: None,
        commit_index: 0,
    };
    let resp = follower.handle_append_entries(req, &snap, &follower_log).await.unwrap();
    println!(
        "F08(prev0): follower resp={:?} commit_update={:?} last_entry_id={} entry(100)={} entry(101)={} entry(250)={} entry(251)={}",
        resp.response,
        resp.commit_index_update,
        follower_log.last_entry_id(),
        follower_log.entry(100).unwrap().is_some(),
        follower_log.entry(101).unwrap().is_some(),
        follower_log.entry(250).unwrap().is_some(),
        follower_log.entry(251).unwrap().is_some(),
    );
    assert_eq!(follower_log.last_entry_id(), 251);
    assert!(follower_log.entry(101).unwrap().is_none());
    assert!(follower_log.entry(250).unwrap().is_none());
    assert!(follower_log.entry(251).unwrap().is_some());
    // follower tells the leader it matches up to 251 and moves its commit index to 250 (over the hole)
    assert_eq!(resp.commit_index_update, Some(250));
    let Some(AerResult::Success(s)) = resp.response.result.clone() else {
        panic!("expected success")
    };
    assert_eq!(s.last_match.unwrap().index, 251);
    // real leader-side handling of that response: match_index=251, next_index=252 -> 101..=250 are never sent
    let upd = ReplicationHandler::<F08TypeConfig>::new(1)
        .handle_success_response(2, 1, s, 1)
        .unwrap();
    println!("F08(prev0): leader PeerUpdate = {:?}", upd);
    assert_eq!(upd.match_index, Some(251));
    assert_eq!(upd.next_index, 252);
}

/// Follower side with a matching non-zero prev: follower holds 1..=50, peer next_index=51.
/// PROPERTY (expected to FAIL): after a successful AppendEntries, the follower log is gap-free up to last_entry_id.
#[tokio::test]
async fn f08_property_follower_log_gap_free_matching_prev() {
    let leader_log = real_log("f08_leader_c");
    leader_log.append_entries(mock_entries(1, 250, 1)).await.unwrap();
    let req = leader_builds_request(&leader_log, 51, 100).await;
    println!(
        "F08(prev50): request prev={}/{} first={} last={} #={} gap={:?}",
        req.prev_log_index,
        req.prev_log_term,
        req.entries.first().unwrap().index,
        req.entries.last().unwrap().index,
        req.entries.len(),
        first_gap(req.prev_log_index, &req.entries)
    );

    let follower_log = real_log("f08_follower_c");
    follower_log.append_entries(mock_entries(1, 50, 1)).await.unwrap();
    let follower = ReplicationHandler::<F08TypeConfig>::new(2);
    let snap = StateSnapshot {
        role: 0,
        current_term: 1,
        voted_for: None,
        commit_index: 50,
    };
    let resp = follower.handle_append_entries(req, &snap, &follower_log).await.unwrap();
    let last = follower_log.last_entry_id();
    let missing: Vec<u64> =
        (1..=last).filter(|i| follower_log.entry(*i).unwrap().is_none()).collect();
    println!(
        "F08(prev50): follower resp={:?} commit_update={:?} last_entry_id={} missing={}..={} ({} entries)",
        resp.response,
        resp.commit_index_update,
        last,
        missing.first().copied().unwrap_or(0),
        missing.last().copied().unwrap_or(0),
        missing.len()
    );
    assert!(
        missing.is_empty(),
        "follower log has a hole below last_entry_id={last}: {} entries missing",
        missing.len()
    );
}
