//! Triage F15c: FileStateMachine::replay_wal clears the WAL after replaying it into memory without
//! persisting the replayed state (no checkpoint). A second hard crash after at least one further
//! apply loses the replayed entries while the reported applied index moves past them.

use bytes::Bytes;
use d_engine_core::{ApplyEntry, Command, StateMachine};

use crate::storage::adaptors::file::FileStateMachine;

fn insert(index: u64, key: &str, value: &str) -> ApplyEntry {
    ApplyEntry {
        index,
        term: 1,
        command: Command::Insert {
            key: Bytes::from(key.to_string()),
            value: Bytes::from(value.to_string()),
            ttl_secs: None,
        },
    }
}

#[tokio::test]
async fn test_two_hard_crashes_keep_every_applied_entry() {
    let temp_dir = tempfile::tempdir().unwrap();
    let data_dir = temp_dir.path().join("file_sm");

    // run 1: entries 1..=3 applied (WAL only, no checkpoint), then kill -9
    let sm = FileStateMachine::new(data_dir.clone()).await.unwrap();
    sm.start().await.unwrap();
    sm.apply_chunk(&[insert(1, "a", "1"), insert(2, "b", "2"), insert(3, "c", "3")]).await.unwrap();
    assert_eq!(sm.last_applied().index, 3);
    std::mem::forget(sm);

    // run 2: WAL replayed (and cleared); one more entry applied; kill -9 again
    let sm2 = FileStateMachine::new(data_dir.clone()).await.unwrap();
    sm2.start().await.unwrap();
    assert_eq!(sm2.last_applied().index, 3, "run 2 recovered entries 1..=3 from the WAL");
    assert_eq!(sm2.get(b"a").unwrap(), Some(Bytes::from("1")));
    sm2.apply_chunk(&[insert(4, "d", "4")]).await.unwrap();
    assert_eq!(sm2.last_applied().index, 4);
    std::mem::forget(sm2);

    // run 3
    let sm3 = FileStateMachine::new(data_dir).await.unwrap();
    sm3.start().await.unwrap();
    let reported = sm3.last_applied().index;
    let have_a = sm3.get(b"a").unwrap();
    let have_d = sm3.get(b"d").unwrap();
    // whatever index is reported, the data must contain every entry up to it
    if reported >= 1 {
        assert_eq!(
            have_a,
            Some(Bytes::from("1")),
            "run 3 reports last_applied={reported} (d={have_d:?}) but entry 1 (a=1) is gone: it was applied zero times"
        );
    }
}
