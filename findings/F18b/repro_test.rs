//! F18b repro: FileLogStore::purge rewrites the live log file in place (ftruncate(0) + re-append + fsync).
//! Any interruption after the truncate loses entries > cutoff that had already been reported durable.

use std::ops::RangeInclusive;
use std::sync::Arc;
use std::sync::atomic::{AtomicBool, Ordering};

use bytes::Bytes;
use d_engine_core::LogStore;
use d_engine_core::StorageEngine;
use d_engine_proto::common::Entry;
use d_engine_proto::common::EntryPayload;
use d_engine_proto::common::LogId;

use super::*;

fn entries(range: RangeInclusive<u64>, payload_len: usize) -> Vec<Entry> {
    range
        .map(|i| Entry {
            index: i,
            term: 1,
            payload: Some(EntryPayload::command(Bytes::from(vec![i as u8; payload_len]))),
        })
        .collect()
}

async fn present(store: &FileLogStore, r: RangeInclusive<u64>) -> Vec<u64> {
    let mut v = vec![];
    for i in r {
        if store.entry(i).await.unwrap().is_some() {
            v.push(i);
        }
    }
    v
}

// ---- (A) deterministic: the real purge is interrupted right after its set_len(0) -------------
// RLIMIT_FSIZE=0 lets ftruncate(fd,0) succeed and makes the first write(2) of the rewrite fail (EFBIG),
// i.e. the real `purge` stops between "truncate" and "rewrite" - the on-disk state a crash at that
// point leaves behind. The engine object is then leaked (no Drop/flush) and the directory reopened.
#[cfg(target_os = "linux")]
mod rlimit {
    #[repr(C)]
    pub struct RLimit {
        pub cur: u64,
        pub max: u64,
    }
    unsafe extern "C" {
        pub fn getrlimit(resource: i32, rlim: *mut RLimit) -> i32;
        pub fn setrlimit(resource: i32, rlim: *const RLimit) -> i32;
        pub fn signal(signum: i32, handler: usize) -> usize;
    }
    pub const RLIMIT_FSIZE: i32 = 1;
    pub const SIGXFSZ: i32 = 25;
    pub const SIG_IGN: usize = 1;
}

#[cfg(target_os = "linux")]
#[tokio::test]
async fn f18b_purge_interrupted_after_truncate_loses_durable_entries() {
    let dir = tempfile::tempdir().unwrap();
    let engine = Arc::new(FileStorageEngine::new(dir.path().to_path_buf()).unwrap());
    let store = engine.log_store();

    store.persist_entries(entries(1..=10, 1024)).await.unwrap();
    store.flush().unwrap(); // fsync: 1..=10 are now reported durable
    let log_file = dir.path().join("logs").join("log.data");
    let len_before = std::fs::metadata(&log_file).unwrap().len();

    // sanity: a clean reopen sees 1..=10
    {
        let copy = tempfile::tempdir().unwrap();
        std::fs::create_dir_all(copy.path().join("logs")).unwrap();
        std::fs::copy(&log_file, copy.path().join("logs").join("log.data")).unwrap();
        let e = FileStorageEngine::new(copy.path().to_path_buf()).unwrap();
        assert_eq!(e.log_store().last_index(), 10);
    }

    // interrupt the REAL purge right after set_len(0)
    let mut old = rlimit::RLimit { cur: 0, max: 0 };
    unsafe {
        rlimit::signal(rlimit::SIGXFSZ, rlimit::SIG_IGN);
        assert_eq!(rlimit::getrlimit(rlimit::RLIMIT_FSIZE, &mut old), 0);
        let new = rlimit::RLimit { cur: 0, max: old.max };
        assert_eq!(rlimit::setrlimit(rlimit::RLIMIT_FSIZE, &new), 0);
    }
    let purge_result = store.purge(LogId { term: 1, index: 6 }).await;
    unsafe {
        assert_eq!(rlimit::setrlimit(rlimit::RLIMIT_FSIZE, &old), 0);
    }
    let len_after = std::fs::metadata(&log_file).unwrap().len();
    println!(
        "F18b(A): purge(cutoff=6) interrupted after truncate -> result={:?}; log.data len {} -> {}",
        purge_result.as_ref().map_err(|e| e.to_string()),
        len_before,
        len_after
    );
    assert!(purge_result.is_err(), "rewrite must have been interrupted");

    // crash: no graceful drop
    std::mem::forget(store);
    std::mem::forget(engine);

    let reopened = FileStorageEngine::new(dir.path().to_path_buf()).unwrap();
    let rs = reopened.log_store();
    let have = present(&rs, 1..=10).await;
    println!(
        "F18b(A): after restart last_index()={} entries present={:?}",
        rs.last_index(),
        have
    );
    // PROPERTY: entries 7..=10 were durable before purge(6) and are above the cutoff -> must survive
    assert_eq!(
        have,
        vec![7, 8, 9, 10],
        "durable entries above the purge cutoff lost by an interrupted purge"
    );
}

// ---- (B) observation of the real purge's intermediate on-disk state ---------------------------
// A watcher thread copies log.data the moment its length drops below the pre-purge length while the
// real purge is running (= the image a process kill at that instant would leave), then we recover from it.
#[tokio::test]
async fn f18b_crash_image_taken_during_real_purge_misses_retained_entries() {
    const PAYLOAD: usize = 8 * 1024 * 1024;
    let dir = tempfile::tempdir().unwrap();
    let engine = Arc::new(FileStorageEngine::new(dir.path().to_path_buf()).unwrap());
    let store = engine.log_store();
    store.persist_entries(entries(1..=10, PAYLOAD)).await.unwrap();
    store.flush().unwrap();

    let log_file = dir.path().join("logs").join("log.data");
    let full_len = std::fs::metadata(&log_file).unwrap().len();
    let image_dir = tempfile::tempdir().unwrap();
    std::fs::create_dir_all(image_dir.path().join("logs")).unwrap();
    let image_file = image_dir.path().join("logs").join("log.data");

    let stop = Arc::new(AtomicBool::new(false));
    let watcher = {
        let (log_file, image_file, stop) = (log_file.clone(), image_file.clone(), stop.clone());
        std::thread::spawn(move || -> Option<u64> {
            while !stop.load(Ordering::Relaxed) {
                let len = std::fs::metadata(&log_file).unwrap().len();
                if len < full_len {
                    std::fs::copy(&log_file, &image_file).unwrap();
                    return Some(len);
                }
            }
            None
        })
    };
    std::thread::sleep(std::time::Duration::from_millis(50));
    store.purge(LogId { term: 1, index: 6 }).await.unwrap();
    let final_len = std::fs::metadata(&log_file).unwrap().len();
    stop.store(true, Ordering::Relaxed);
    let seen = watcher.join().unwrap();
    println!(
        "F18b(B): full_len={full_len} final_len_after_purge={final_len} watcher saw intermediate len={seen:?}, image len={}",
        std::fs::metadata(&image_file).map(|m| m.len()).unwrap_or(0)
    );
    let Some(seen_len) = seen else {
        panic!("watcher did not catch the purge (inconclusive run)");
    };
    if seen_len == final_len {
        println!("F18b(B): watcher only saw the final state (inconclusive run)");
        return;
    }
    let crashed = FileStorageEngine::new(image_dir.path().to_path_buf()).unwrap();
    let cs = crashed.log_store();
    let have = present(&cs, 1..=10).await;
    println!(
        "F18b(B): recovery from mid-purge image: last_index()={} present={:?}",
        cs.last_index(),
        have
    );
    assert_eq!(
        have,
        vec![7, 8, 9, 10],
        "mid-purge crash image does not contain all durable entries above the cutoff"
    );
}
