//! F12a repro: lease renewal in `LeaderState::handle_append_result`
//!  (1) anchors the deadline at `last_heartbeat_send_ts` = send time of the MOST RECENT round, not of the round being ACKed;
//!  (2) `quorum_confirmed` is computed from the cumulative `match_index` map (no round / sequence id anywhere), so a single
//!      follower's ACK re-confirms "quorum" as long as the other voters' OLD match_index values are >= commit_index.
//!
//! Real LeaderState + real ReplicationHandler + real BufferedRaftLog (test-local TypeConfig); the transport is a mock whose
//! replication streams swallow every request (so we can count what was sent) and never deliver an ACK by themselves;
//! ACKs are injected with the real `handle_append_result` (what raft.rs does for InternalEvent::AppendResult).

use std::sync::{Arc, Mutex};
use std::time::Duration;

use d_engine_proto::common::LogId;
use d_engine_proto::common::NodeRole::Follower;
use d_engine_proto::common::NodeStatus;
use d_engine_proto::server::cluster::NodeMeta;
use d_engine_proto::server::replication::AppendEntriesRequest;
use d_engine_proto::server::replication::AppendEntriesResponse;
use d_engine_proto::server::replication::SuccessResult;
use d_engine_proto::server::replication::append_entries_response;
use futures::StreamExt;
use tokio::sync::mpsc;

use crate::client::ClientReadRequest;
use crate::convert::safe_kv_bytes;
use crate::maybe_clone_oneshot::{MaybeCloneOneshot, RaftOneshot};
use crate::raft_role::leader_state::LeaderState;
use crate::raft_role::read_lease::now_ms;
use crate::raft_role::role_state::RaftRoleState;
use crate::test_utils::mock_entries;
use crate::{
    BufferedRaftLog, ClientCmd, FlushPolicy, MockCommitHandler, MockElectionCore, MockMembership,
    MockPurgeExecutor, MockSnapshotPolicy, MockStateMachine, MockStateMachineHandler,
    MockStorageEngine, MockTransport, PersistenceConfig, PersistenceStrategy, RaftContext,
    RaftCoreHandlers, RaftLog, RaftNodeConfig, RaftStorageHandles, ReadConsistencyPolicy,
    ReplicationHandler, ReplicationStream, TypeConfig,
};

#[derive(Debug, Clone, Copy, Default, Eq, PartialEq, Ord, PartialOrd)]
pub struct F12TypeConfig;
impl TypeConfig for F12TypeConfig {
    type R = BufferedRaftLog<Self>;
    type SE = MockStorageEngine;
    type E = MockElectionCore<Self>;
    type TR = MockTransport<Self>;
    type SM = MockStateMachine;
    type M = MockMembership<Self>;
    type REP = ReplicationHandler<Self>; // REAL
    type C = MockCommitHandler;
    type SMH = MockStateMachineHandler<Self>;
    type SNP = MockSnapshotPolicy;
    type PE = MockPurgeExecutor;
}

type Sent = Arc<Mutex<Vec<(u32, mpsc::Receiver<AppendEntriesRequest>)>>>;

struct Fixture {
    state: LeaderState<F12TypeConfig>,
    ctx: RaftContext<F12TypeConfig>,
    tx: mpsc::UnboundedSender<crate::event::InternalEvent>,
    _rx: mpsc::UnboundedReceiver<crate::event::InternalEvent>,
    sent: Sent,
    lease_ms: u64,
}

async fn setup(name: &str, n_voters: u32, log_last: u64) -> Fixture {
    let node_config = RaftNodeConfig::default();
    let lease_ms = node_config.raft.read_consistency.lease_duration_ms;
    let node_config = Arc::new(node_config);

    // real raft log: entries 1..=log_last, term 1
    let storage = Arc::new(MockStorageEngine::with_id(name.to_string()));
    let (log, rx) = BufferedRaftLog::<F12TypeConfig>::new(
        1,
        PersistenceConfig {
            strategy: PersistenceStrategy::MemFirst,
            flush_policy: FlushPolicy::Batch {
                idle_flush_interval_ms: 50,
            },
            max_buffered_entries: 1000,
        },
        storage,
    );
    let raft_log = log.start(rx, None);
    raft_log.append_entries(mock_entries(1, log_last, 1)).await.unwrap();

    // transport: every replication stream swallows requests, never acks on its own
    let sent: Sent = Arc::new(Mutex::new(Vec::new()));
    let sent2 = sent.clone();
    let mut transport = MockTransport::<F12TypeConfig>::new();
    transport.expect_open_replication_stream().returning(move |peer, _, _| {
        let (tx, rx) = mpsc::channel(128);
        sent2.lock().unwrap().push((peer, rx));
        Ok(ReplicationStream {
            sender: tx,
            receiver: futures::stream::pending().boxed(),
        })
    });

    // (fresh mock: the default `mock_state_machine()` registers its own last_applied expectation first)
    let mut sm = MockStateMachine::new();
    sm.expect_last_applied().return_const(LogId { index: 10, term: 1 });
    sm.expect_snapshot_metadata().returning(|| None);
    let mut smh = MockStateMachineHandler::<F12TypeConfig>::new();
    smh.expect_read_from_state_machine().returning(|_| Some(vec![]));

    let peers: Vec<NodeMeta> = (2u32..=n_voters)
        .map(|id| NodeMeta {
            id,
            address: String::new(),
            status: NodeStatus::Active as i32,
            role: Follower.into(),
        })
        .collect();
    let mk_membership = |peers: Vec<NodeMeta>| {
        let mut m = MockMembership::<F12TypeConfig>::new();
        let pv = peers.clone();
        m.expect_voters().returning(move || pv.clone());
        m.expect_replication_peers().returning(move || peers.clone());
        m
    };

    let ctx = RaftContext::<F12TypeConfig> {
        node_id: 1,
        storage: RaftStorageHandles {
            raft_log,
            state_machine: Arc::new(sm),
        },
        transport: Arc::new(transport),
        membership: Arc::new(mk_membership(peers.clone())),
        handlers: RaftCoreHandlers {
            election_handler: MockElectionCore::<F12TypeConfig>::new(),
            replication_handler: ReplicationHandler::<F12TypeConfig>::new(1),
            state_machine_handler: Arc::new(smh),
            purge_executor: Arc::new(MockPurgeExecutor::new()),
        },
        node_config: node_config.clone(),
    };

    let mut state = LeaderState::<F12TypeConfig>::new(1, node_config);
    state.update_current_term(1);
    state.init_cluster_metadata(&Arc::new(mk_membership(peers.clone()))).await.unwrap();
    assert_eq!(state.cluster_metadata.total_voters as u32, n_voters);
    // what raft.rs does when a node becomes leader
    state
        .init_peers_next_index_and_match_index(log_last, peers.iter().map(|p| p.id).collect())
        .unwrap();
    state.noop_log_id = Some(10);
    state.update_commit_index(10).unwrap();

    let (tx, rx) = mpsc::unbounded_channel();
    Fixture {
        state,
        ctx,
        tx,
        _rx: rx,
        sent,
        lease_ms,
    }
}

fn ack(peer: u32, term: u64, idx: u64) -> AppendEntriesResponse {
    AppendEntriesResponse {
        node_id: peer,
        term,
        result: Some(append_entries_response::Result::Success(SuccessResult {
            last_match: Some(LogId { term, index: idx }),
        })),
    }
}

/// smallest t such that the lease is NOT valid at t == the stored deadline
fn lease_deadline(f: &Fixture) -> u64 {
    let term = f.state.current_term();
    let (mut lo, mut hi) = (0u64, 1u64 << 40);
    if !f.state.shared_state.lease.is_valid_for_leader(term, 0) {
        return 0;
    }
    while lo + 1 < hi {
        let mid = (lo + hi) / 2;
        if f.state.shared_state.lease.is_valid_for_leader(term, mid) {
            lo = mid;
        } else {
            hi = mid;
        }
    }
    hi
}

fn count_sent(f: &Fixture) -> Vec<(u32, usize)> {
    let mut g = f.sent.lock().unwrap();
    let mut v = vec![];
    for (peer, rx) in g.iter_mut() {
        let mut n = 0;
        while rx.try_recv().is_ok() {
            n += 1;
        }
        v.push((*peer, n));
    }
    v.sort();
    v
}

/// a real heartbeat round: empty buffers -> execute_and_process_raft_rpc(vec![], None, None)
async fn heartbeat_round(f: &mut Fixture) -> u64 {
    f.state.unified_write_and_linear_read(&f.ctx, &f.tx).await.unwrap();
    f.state.last_heartbeat_send_ts
}

async fn run_claimed_history() -> (u64, u64, u64, u64, bool, u64) {
    let mut f = setup("f12a_hist", 3, 10).await;
    let lease = f.lease_ms;

    let ts1 = heartbeat_round(&mut f).await; // round 1: delivered, ACK delayed
    tokio::time::sleep(Duration::from_millis(100)).await;
    let _ts2 = heartbeat_round(&mut f).await; // round 2: lost
    tokio::time::sleep(Duration::from_millis(100)).await;
    let ts3 = heartbeat_round(&mut f).await; // round 3: lost
    tokio::time::sleep(Duration::from_millis(70)).await;
    println!("F12a: requests handed to the transport per peer: {:?}", count_sent(&f));
    assert_eq!(lease_deadline(&f), 0, "no ACK so far -> no lease");

    // the delayed ACK of ROUND 1 (from follower 2) arrives now and completes a quorum (2 of 3)
    let ack_ts = now_ms();
    f.state
        .handle_append_result(2, Ok(ack(2, 1, 10)), &f.ctx, &f.tx)
        .await
        .unwrap();
    let deadline = lease_deadline(&f);
    let valid_now = f.state.is_lease_valid();
    println!(
        "F12a: lease={lease}ms ts1(round1 send)={ts1} ts3(latest send)={ts3} ack processed at={ack_ts} -> lease deadline={deadline} \
         (= ts3+lease: {}; ts1+lease would be {}), is_lease_valid() now={valid_now}",
        ts3 + lease,
        ts1 + lease
    );
    (ts1, ts3, lease, deadline, valid_now, ack_ts)
}

/// PROPERTY (expected to FAIL): the only follower contact that is acknowledged happened in round 1, so the
/// lease may last at most until ts1 + lease_duration.
#[tokio::test]
async fn f12a_property_lease_deadline_bounded_by_acked_round_send_time() {
    let (ts1, _ts3, lease, deadline, valid_now, ack_ts) = run_claimed_history().await;
    assert!(
        deadline <= ts1 + lease,
        "lease deadline {deadline} exceeds send time of the acknowledged round + lease = {}",
        ts1 + lease
    );
    assert!(!(valid_now && ack_ts >= ts1 + lease));
}

/// Same history asserting the BUGGY outcome (expected to PASS): deadline == latest send + lease.
#[tokio::test]
async fn f12a_buggy_outcome_deadline_anchored_at_latest_send() {
    let (ts1, ts3, lease, deadline, valid_now, ack_ts) = run_claimed_history().await;
    assert_eq!(deadline, ts3 + lease);
    assert!(ts3 >= ts1 + 200);
    assert!(ack_ts >= ts1 + lease, "ACK processed after the correct lease would already be over");
    assert!(valid_now, "yet the leader considers its lease valid");
}

/// (2) 5 voters, leader can reach only follower 2 (minority side {1,2} | {3,4,5}).
/// PROPERTY (expected to FAIL): once the lease expired, ACKs from a single follower (2 of 5 nodes) must neither
/// renew the lease nor release queued linearizable reads.
#[tokio::test]
async fn f12a_property_minority_ack_must_not_renew_lease_or_serve_reads() {
    let mut f = setup("f12a_minority", 5, 10).await;

    // healthy phase: one round, all four followers ACK index 10
    heartbeat_round(&mut f).await;
    for p in 2..=5u32 {
        f.state.handle_append_result(p, Ok(ack(p, 1, 10)), &f.ctx, &f.tx).await.unwrap();
    }
    assert!(f.state.is_lease_valid());

    // partition {1,2} | {3,4,5}; time passes beyond the lease (and an election timeout on the other side)
    tokio::time::sleep(Duration::from_millis(f.lease_ms + 300)).await;
    assert!(!f.state.is_lease_valid(), "lease expired");

    // a linearizable read arrives through the real client path -> queued, heartbeat fired
    let (resp_tx, mut resp_rx) = MaybeCloneOneshot::new();
    f.state.push_client_cmd(
        ClientCmd::Read(
            ClientReadRequest {
                client_id: 1,
                consistency_policy: Some(ReadConsistencyPolicy::LinearizableRead),
                keys: vec![safe_kv_bytes(1)],
            },
            resp_tx,
        ),
        &f.ctx,
    );
    f.state.flush_cmd_buffers(&f.ctx, &f.tx).await.unwrap();
    {
        use crate::StateMachine;
        println!(
            "F12a(minority): read queued at {:?}; sm.last_applied={}",
            f.state.pending_reads.keys().collect::<Vec<_>>(),
            f.ctx.state_machine().last_applied().index
        );
    }
    assert_eq!(f.state.pending_reads.len(), 1, "read queued (lease expired)");
    assert!(resp_rx.try_recv().is_err());

    // only follower 2 answers
    f.state.handle_append_result(2, Ok(ack(2, 1, 10)), &f.ctx, &f.tx).await.unwrap();

    let lease_valid = f.state.is_lease_valid();
    let answer = resp_rx.try_recv().ok().map(|r| r.is_ok());
    println!(
        "F12a(minority): after ONE ack (node 2 of voters 1..=5): is_lease_valid()={lease_valid} pending_reads.len()={} read answer={answer:?}",
        f.state.pending_reads.len()
    );
    assert!(!lease_valid, "lease renewed although only 2 of 5 voters are in contact with the leader");
    assert_ne!(answer, Some(true), "linearizable read served with only 2 of 5 voters confirming");
}

/// Side observation: `match_index` only contains peers that ACKed with match > 0, and the commit quorum is the median of
/// (present match_index values + leader) -> a fresh leader of a 5-voter cluster commits with ONE follower ACK.
#[tokio::test]
async fn f12a_x_side_observation_fresh_leader_commits_with_2_of_5() {
    let mut f = setup("f12a_commit", 5, 11).await; // leader log 1..=11, commit_index=10
    assert_eq!(f.state.commit_index(), 10);
    heartbeat_round(&mut f).await;
    f.state.handle_append_result(2, Ok(ack(2, 1, 11)), &f.ctx, &f.tx).await.unwrap();
    println!(
        "F12a(side): 5 voters, fresh leader, ONE follower acked 11 -> commit_index={} match_index keys present={:?}",
        f.state.commit_index(),
        {
            let mut k: Vec<u32> = (2..=5u32).filter(|p| f.state.match_index(*p).is_some()).collect();
            k.sort();
            k
        }
    );
    assert_eq!(
        f.state.commit_index(),
        10,
        "index 11 is stored on 2 of 5 voters only and must not be committed"
    );
}

/// Side observation 2: with an EMPTY `match_index` map (fresh leader, nobody ACKed yet) the "majority" is the median of
/// [leader.last_entry_id] alone -> the LogFlushed handler commits the leader's own tail with ZERO follower ACKs (3 voters).
#[tokio::test]
async fn f12a_x_side_observation_fresh_leader_commits_on_local_flush_with_zero_acks() {
    let mut f = setup("f12a_commit0", 3, 11).await; // leader log 1..=11 (term 1), commit_index=10
    assert_eq!(f.state.commit_index(), 10);
    assert!((2..=3u32).all(|p| f.state.match_index(p).is_none()));
    f.state.handle_log_flushed(11, &f.ctx, &f.tx).await;
    println!(
        "F12a(side2): 3 voters, fresh leader, NO follower ack, LogFlushed(11) -> commit_index={}",
        f.state.commit_index()
    );
    assert_eq!(f.state.commit_index(), 10, "index 11 exists on the leader only and must not be committed");
}
