//! F26 repro: a single BatchPromote log entry changes the voter set by more than one node.
//!
//! Drives the real `calculate_safe_batch_size` and the real
//! `LeaderState::handle_promote_ready_learners` (-> `safe_batch_promote` ->
//! `execute_request_immediately` -> `ReplicationCore::prepare_batch_requests`, which is mocked
//! only to capture the payloads that would be appended to the Raft log).

use std::collections::BTreeSet;
use std::sync::Arc;
use std::time::Duration;

use parking_lot::Mutex;
use tokio::sync::{mpsc, watch};
use tokio::time::Instant;

use crate::MockMembership;
use crate::MockRaftLog;
use crate::MockReplicationCore;
use crate::RaftContext;
use crate::event::InternalEvent;
use crate::raft_role::leader_state::{LeaderState, PendingPromotion, calculate_safe_batch_size};
use crate::raft_role::role_state::RaftRoleState;
use crate::test_utils::mock::MockTypeConfig;
use crate::test_utils::mock::mock_raft_context;
use crate::test_utils::node_config;
use d_engine_proto::common::EntryPayload;
use d_engine_proto::common::membership_change::Change;
use d_engine_proto::common::{NodeRole::Follower, NodeStatus};
use d_engine_proto::server::cluster::NodeMeta;

struct Fx {
    leader: LeaderState<MockTypeConfig>,
    ctx: RaftContext<MockTypeConfig>,
    tx: mpsc::UnboundedSender<InternalEvent>,
    _rx: mpsc::UnboundedReceiver<InternalEvent>,
    captured: Arc<Mutex<Vec<EntryPayload>>>,
}

/// Leader A=1, voters B=2, C=3 (membership.voters() excludes self, exactly as the real
/// RaftMembership does); the applied membership does not change during the test because no
/// entry commits (the real membership is only mutated by CommitHandler::apply_config_change).
fn fixture(name: &str) -> Fx {
    let (_gtx, grx) = watch::channel(());
    let mut ctx = mock_raft_context(&format!("/tmp/{name}"), grx, None);

    let mut membership = MockMembership::new();
    membership.expect_is_single_node_cluster().returning(|| false);
    membership.expect_can_rejoin().returning(|_, _| Ok(()));
    membership.expect_get_node_status().returning(|_| Some(NodeStatus::Active));
    membership.expect_voters().returning(|| {
        vec![2u32, 3]
            .into_iter()
            .map(|id| NodeMeta {
                id,
                address: "".to_string(),
                status: NodeStatus::Active as i32,
                role: Follower.into(),
            })
            .collect()
    });
    ctx.membership = Arc::new(membership);

    let mut raft_log = MockRaftLog::new();
    raft_log.expect_last_entry_id().returning(|| 10);
    raft_log.expect_calculate_majority_matched_index().returning(|_, _, _| Some(5));
    ctx.storage.raft_log = Arc::new(raft_log);

    let captured = Arc::new(Mutex::new(Vec::<EntryPayload>::new()));
    let cap = captured.clone();
    let mut rh = MockReplicationCore::<MockTypeConfig>::new();
    rh.expect_prepare_batch_requests().times(..).returning(move |payloads, _, _, _, _| {
        cap.lock().extend(payloads.clone());
        Ok(crate::PrepareResult::default())
    });
    ctx.handlers.replication_handler = rh;

    let (tx, rx) = mpsc::unbounded_channel();
    let mut cfg = node_config(&format!("/tmp/{name}"));
    cfg.raft.batching.max_batch_size = 1;
    cfg.raft.membership.verify_leadership_persistent_timeout = Duration::from_millis(50);
    ctx.node_config = Arc::new(cfg.clone());
    let leader = LeaderState::new(1, Arc::new(cfg));
    Fx {
        leader,
        ctx,
        tx,
        _rx: rx,
        captured,
    }
}

fn batch_promote_ids(p: &EntryPayload) -> Vec<u32> {
    match &p.payload {
        Some(d_engine_proto::common::entry_payload::Payload::Config(c)) => match &c.change {
            Some(Change::BatchPromote(bp)) => bp.node_ids.clone(),
            other => panic!("not a BatchPromote: {other:?}"),
        },
        other => panic!("not a config payload: {other:?}"),
    }
}

fn majority(n: usize) -> usize {
    n / 2 + 1
}

/// Property: one membership-change entry may change at most ONE voter (otherwise majorities of
/// C_old and C_new need not intersect).  EXPECTED TO FAIL on current code.
#[tokio::test]
async fn f26_single_entry_must_not_change_more_than_one_voter() {
    // pure function
    let n = calculate_safe_batch_size(3, 2);
    println!("F26: calculate_safe_batch_size(current=3, available=2) = {n}");

    // real leader path: 3 voters {1,2,3}, learners 4,5 caught up
    let mut fx = fixture("f26_a");
    fx.leader.pending_promotions =
        vec![PendingPromotion::new(4, Instant::now()), PendingPromotion::new(5, Instant::now())]
            .into_iter()
            .collect();
    let _ = fx.leader.handle_promote_ready_learners(&fx.ctx, &fx.tx).await;

    let payloads = fx.captured.lock().clone();
    println!("F26: {} config entr(y/ies) handed to the log", payloads.len());
    assert_eq!(payloads.len(), 1);
    let ids = batch_promote_ids(&payloads[0]);
    println!("F26: the ONE entry promotes learners {ids:?} to voters: 3 voters -> {} voters", 3 + ids.len());

    // quorum arithmetic on the resulting configurations
    let c_old: BTreeSet<u32> = [1, 2, 3].into();
    let c_new: BTreeSet<u32> = c_old.iter().copied().chain(ids.iter().copied()).collect();
    let q_old: BTreeSet<u32> = [2, 3].into(); // |q_old| = 2 = majority(3)
    let q_new: BTreeSet<u32> = [1, 4, 5].into(); // |q_new| = 3 = majority(5)
    assert!(q_old.is_subset(&c_old) && q_old.len() >= majority(c_old.len()));
    if q_new.is_subset(&c_new) && q_new.len() >= majority(c_new.len()) {
        println!(
            "F26: quorum {q_old:?} of C_old={c_old:?} and quorum {q_new:?} of C_new={c_new:?} are disjoint: {}",
            q_old.is_disjoint(&q_new)
        );
    }

    assert!(
        ids.len() <= 1,
        "a single config entry promotes {} voters at once ({ids:?}); C_old/C_new majorities can be disjoint",
        ids.len()
    );
}

/// Buggy outcome asserted. EXPECTED TO PASS on current code.
#[tokio::test]
async fn f26_single_entry_promotes_two_voters_buggy() {
    assert_eq!(calculate_safe_batch_size(3, 2), 2);
    assert_eq!(calculate_safe_batch_size(3, 4), 4); // 3 -> 7 voters in one entry
    assert_eq!(calculate_safe_batch_size(1, 2), 2); // 1 -> 3

    let mut fx = fixture("f26_b");
    fx.leader.pending_promotions =
        vec![PendingPromotion::new(4, Instant::now()), PendingPromotion::new(5, Instant::now())]
            .into_iter()
            .collect();
    let _ = fx.leader.handle_promote_ready_learners(&fx.ctx, &fx.tx).await;
    let payloads = fx.captured.lock().clone();
    assert_eq!(payloads.len(), 1);
    let mut ids = batch_promote_ids(&payloads[0]);
    ids.sort();
    assert_eq!(ids, vec![4, 5]);

    let c_new: BTreeSet<u32> = [1, 2, 3, 4, 5].into();
    let q_old: BTreeSet<u32> = [2, 3].into();
    let q_new: BTreeSet<u32> = [1, 4, 5].into();
    assert!(q_old.len() >= majority(3));
    assert!(q_new.is_subset(&c_new) && q_new.len() >= majority(5));
    assert!(q_old.is_disjoint(&q_new));
}

/// Nothing prevents a second voter-set change while the first is still uncommitted:
/// two more learners (6,7) catch up before the first BatchPromote commits -> the leader hands a
/// second BatchPromote to the log, still computed against the *applied* config (3 voters).
/// EXPECTED TO PASS on current code (documents the missing guard).
#[tokio::test]
async fn f26_second_config_change_proposed_while_first_uncommitted() {
    let mut fx = fixture("f26_c");
    fx.leader.pending_promotions =
        vec![PendingPromotion::new(4, Instant::now()), PendingPromotion::new(5, Instant::now())]
            .into_iter()
            .collect();
    let _ = fx.leader.handle_promote_ready_learners(&fx.ctx, &fx.tx).await;
    assert_eq!(fx.captured.lock().len(), 1);
    let commit_before = fx.leader.commit_index();

    // no commit, no apply happened. Two more learners become ready.
    fx.leader.pending_promotions =
        vec![PendingPromotion::new(6, Instant::now()), PendingPromotion::new(7, Instant::now())]
            .into_iter()
            .collect();
    let _ = fx.leader.handle_promote_ready_learners(&fx.ctx, &fx.tx).await;
    assert_eq!(fx.leader.commit_index(), commit_before, "nothing committed in between");

    let payloads = fx.captured.lock().clone();
    let all: Vec<Vec<u32>> = payloads.iter().map(batch_promote_ids).collect();
    println!("F26: config entries proposed back-to-back without commit: {all:?}");
    assert_eq!(all.len(), 2, "second membership change accepted while first is uncommitted");
    assert_eq!(all[1].len(), 2);
}


// ===== second file: d-engine-server/src/membership/f26_membership_repro_test.rs =====

//! F26 (server side): the real RaftMembership applies ONE BatchPromote entry as a 3 -> 5 voter jump.
use d_engine_core::Membership;
use d_engine_proto::common::BatchPromote;
use d_engine_proto::common::MembershipChange;
use d_engine_proto::common::NodeStatus;
use d_engine_proto::common::membership_change::Change;

use super::raft_membership_test::create_test_membership;

#[tokio::test]
async fn f26_real_membership_one_entry_adds_two_voters() {
    // node 1 (self) + voters 2,3 + promotable learners 4,5
    let m = create_test_membership();
    let before: Vec<u32> = {
        let mut v: Vec<u32> = m.voters().await.iter().map(|n| n.id).collect();
        v.sort();
        v
    };
    println!("F26 membership: voters (excluding self=1) before = {before:?}");
    assert_eq!(before, vec![2, 3]);

    // what CommitHandler::apply_config_change does when the single BatchPromote entry commits
    m.apply_config_change(MembershipChange {
        change: Some(Change::BatchPromote(BatchPromote {
            node_ids: vec![4, 5],
            new_status: NodeStatus::Active as i32,
        })),
    })
    .await
    .unwrap();

    let mut after: Vec<u32> = m.voters().await.iter().map(|n| n.id).collect();
    after.sort();
    println!("F26 membership: voters (excluding self=1) after ONE entry = {after:?}");
    // Property (single-server change): at most one voter differs. EXPECTED TO FAIL.
    assert!(
        after.len() - before.len() <= 1,
        "one config entry changed the voter set from {{1,2,3}} to {{1,2,3,4,5}}: \
         majority {{2,3}} of old and majority {{1,4,5}} of new are disjoint"
    );
}
