//! Triage F23e: FileStateMachine::apply_snapshot_from_file parses `[record]* [lease_len][lease]` with a loop that only stops
//! at the end of the buffer, so the trailing lease section is consumed as a key record and `lease.reload` is never reached.

use std::sync::Arc;

use bytes::Bytes;
use d_engine_core::{ApplyEntry, Command, Lease, StateMachine};
use d_engine_proto::common::LogId;
use d_engine_proto::server::storage::SnapshotMetadata;

use crate::storage::FileStateMachine;
use crate::storage::TtlLease;

async fn sm_with_lease(path: std::path::PathBuf) -> (FileStateMachine, Arc<TtlLease>) {
    let mut sm = FileStateMachine::new(path).await.unwrap();
    let lease = Arc::new(TtlLease::new(d_engine_core::config::LeaseConfig::default()));
    sm.set_lease(lease.clone());
    sm.load_lease_data().await.unwrap();
    (sm, lease)
}

#[tokio::test]
async fn test_file_snapshot_install_restores_ttl_registrations() {
    let dir = tempfile::tempdir().unwrap();
    let (leader, leader_lease) = sm_with_lease(dir.path().join("leader")).await;
    leader
        .apply_chunk(&[ApplyEntry {
            index: 1,
            term: 1,
            command: Command::Insert {
                key: Bytes::from("k"),
                value: Bytes::from("v"),
                ttl_secs: Some(3600),
            },
        }])
        .await
        .unwrap();
    assert_eq!(leader_lease.len(), 1, "the leader holds one TTL registration");

    let snap_dir = dir.path().join("snap");
    leader.generate_snapshot_data(snap_dir.clone(), LogId { index: 1, term: 1 }).await.unwrap();

    let (follower, follower_lease) = sm_with_lease(dir.path().join("follower")).await;
    let metadata = SnapshotMetadata {
        last_included: Some(LogId { index: 1, term: 1 }),
        checksum: Bytes::from(vec![0; 32]),
    };
    follower.apply_snapshot_from_file(&metadata, snap_dir).await.unwrap();

    assert_eq!(follower.get(b"k").unwrap(), Some(Bytes::from("v")), "the data arrived");
    let keys: Vec<_> = (0..1).map(|_| follower.len()).collect();
    assert_eq!(
        follower_lease.len(),
        1,
        "the TTL of k must arrive with the snapshot (follower data keys: {keys:?}): otherwise k expires on the leader and lives for ever on the follower"
    );
}
