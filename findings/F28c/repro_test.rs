//! F28c repro: `NodeBuilder::build` derives the start-up role (Learner vs Follower) only from the
//! static config (`RaftNodeConfig::is_learner()` == "my entry in `initial_cluster` has role Learner").
//! A node that joined as learner, applied its own (committed) promotion and then restarts with the
//! same config comes back as a non-voting `LearnerState`, while the rest of the cluster counts it
//! as a voter.  Nothing promotes it again: no new config entry is produced, and the start-up
//! JoinRequest is rejected by the leader ("already exists").
//!
//! Everything below is real production code: NodeBuilder, RaftMembership, LearnerState,
//! LeaderState::handle_join_cluster, FileStorageEngine, FileStateMachine.

use std::path::Path;
use std::sync::Arc;

use d_engine_core::InboundEvent;
use d_engine_core::InternalEvent;
use d_engine_core::MaybeCloneOneshot;
use d_engine_core::Membership;
use d_engine_core::RaftNodeConfig;
use d_engine_core::RaftOneshot;
use d_engine_core::RaftRole;
use d_engine_core::leader_state::LeaderState;
use d_engine_core::role_state::RaftRoleState;
use d_engine_proto::common::AddNode;
use d_engine_proto::common::MembershipChange;
use d_engine_proto::common::NodeRole;
use d_engine_proto::common::NodeStatus;
use d_engine_proto::common::PromoteLearner;
use d_engine_proto::common::membership_change::Change;
use d_engine_proto::server::cluster::JoinRequest;
use d_engine_proto::server::cluster::NodeMeta;
use d_engine_proto::server::election::VoteRequest;
use tempfile::tempdir;
use tokio::sync::mpsc;
use tokio::sync::watch;

use crate::FileStateMachine;
use crate::FileStorageEngine;
use crate::Node;
use crate::NodeBuilder;
use crate::node::RaftTypeConfig;

type T = RaftTypeConfig<FileStorageEngine, FileStateMachine>;

fn meta(
    id: u32,
    role: NodeRole,
    status: NodeStatus,
) -> NodeMeta {
    NodeMeta {
        id,
        address: format!("127.0.0.1:{}", 19500 + id),
        role: role as i32,
        status: status as i32,
    }
}

fn config(
    node_id: u32,
    dir: &Path,
    cluster: Vec<NodeMeta>,
) -> RaftNodeConfig {
    let mut c = RaftNodeConfig::new().expect("default config");
    c.cluster.node_id = node_id;
    c.cluster.listen_address = format!("127.0.0.1:{}", 19500 + node_id).parse().unwrap();
    c.cluster.initial_cluster = cluster;
    c.cluster.db_root_dir = dir.join("db");
    c.cluster.log_dir = dir.join("logs");
    c.raft.snapshot.snapshots_dir = dir.join("snapshots");
    c.validate().expect("valid config")
}

/// "Start the node": exactly what the server does up to (not including) the gRPC server.
async fn build_node(
    cfg: RaftNodeConfig,
    dir: &Path,
) -> (Arc<Node<T>>, watch::Sender<()>) {
    let (shutdown_tx, shutdown_rx) = watch::channel(());
    let sm = FileStateMachine::new(dir.join("sm")).await.expect("file sm");
    let se = FileStorageEngine::new(dir.join("se")).expect("file se");
    let builder = NodeBuilder::<FileStorageEngine, FileStateMachine>::from_node_config(cfg, shutdown_rx)
        .state_machine(Arc::new(sm))
        .storage_engine(Arc::new(se))
        .build()
        .await
        .expect("build");
    (builder.node.expect("node"), shutdown_tx)
}

fn change(c: Change) -> MembershipChange {
    MembershipChange { change: Some(c) }
}

/// Drain everything currently queued on an internal-event receiver.
fn drain(rx: &mut mpsc::UnboundedReceiver<InternalEvent>) -> Vec<String> {
    let mut v = vec![];
    while let Ok(e) = rx.try_recv() {
        v.push(format!("{e:?}"));
    }
    v
}

fn learner_mut(role: &mut RaftRole<T>) -> &mut d_engine_core::learner_state::LearnerState<T> {
    match role {
        RaftRole::Learner(l) => l.as_mut(),
        _ => panic!("restarted node is not in LearnerState"),
    }
}

async fn role_view(
    node: &Node<T>,
    id: u32,
) -> (i32, Option<(i32, i32)>) {
    let raft = node.raft_core.lock().await;
    let m = node.membership.retrieve_node_meta(id).await.map(|m| (m.role, m.status));
    (raft.role.as_i32(), m)
}

#[tokio::test]
async fn f28c_promoted_learner_restarts_as_learner_and_is_never_repromoted() {
    let d4 = tempdir().unwrap();
    let d1 = tempdir().unwrap();

    // ---- node 4's config: how a node joins as learner (cf. examples/single-node-expansion/config/n3.toml)
    let cluster_for_4 = vec![
        meta(1, NodeRole::Leader, NodeStatus::Active),
        meta(2, NodeRole::Follower, NodeStatus::Active),
        meta(3, NodeRole::Follower, NodeStatus::Active),
        meta(4, NodeRole::Learner, NodeStatus::Promotable),
    ];
    let cfg4 = config(4, d4.path(), cluster_for_4);
    assert!(cfg4.is_learner(), "is_learner() == own initial_cluster entry has role Learner");

    // ---- the leader (node 1): initial cluster 1,2,3; node 4 is added + promoted by committed entries
    let cfg1 = config(
        1,
        d1.path(),
        vec![
            meta(1, NodeRole::Follower, NodeStatus::Active),
            meta(2, NodeRole::Follower, NodeStatus::Active),
            meta(3, NodeRole::Follower, NodeStatus::Active),
        ],
    );
    let (node1, _s1) = build_node(cfg1.clone(), d1.path()).await;
    // The API DefaultCommitHandler::apply_config_change uses for committed config entries:
    node1
        .membership
        .apply_config_change(change(Change::AddNode(AddNode {
            node_id: 4,
            address: "127.0.0.1:19504".into(),
            status: NodeStatus::Promotable as i32,
        })))
        .await
        .unwrap();
    node1
        .membership
        .apply_config_change(change(Change::Promote(PromoteLearner {
            node_id: 4,
            status: NodeStatus::Active as i32,
        })))
        .await
        .unwrap();
    let voters_seen_by_1: Vec<u32> = node1.membership.voters().await.iter().map(|n| n.id).collect();
    println!("F28c: leader(node1) voters (peers) = {voters_seen_by_1:?}");
    assert!(voters_seen_by_1.contains(&4), "cluster counts node 4 as a voter");

    // ---- node 4, first life: starts as learner, applies its own committed promotion
    {
        let (node4, _s4) = build_node(cfg4.clone(), d4.path()).await;
        let (role, m) = role_view(&node4, 4).await;
        println!("F28c: node4 first start: role={role} membership(4)={m:?}");
        assert_eq!(role, NodeRole::Learner as i32);

        node4
            .membership
            .apply_config_change(change(Change::Promote(PromoteLearner {
                node_id: 4,
                status: NodeStatus::Active as i32,
            })))
            .await
            .unwrap();
        // Raft loop reaction to InternalEvent::MembershipApplied (raft.rs:724):
        let (tx, mut rx) = mpsc::unbounded_channel();
        {
            let mut guard = node4.raft_core.lock().await;
            let raft = &mut *guard;
            match &mut raft.role {
                RaftRole::Learner(l) => l.handle_membership_applied(&raft.ctx, &tx).await.unwrap(),
                _ => panic!("expected learner"),
            }
        }
        let evs = drain(&mut rx);
        println!("F28c: node4 first life, after applying Promote(4): events={evs:?}");
        assert!(
            evs.iter().any(|e| e.starts_with("BecomeFollower")),
            "live promotion works: learner turns into follower (voter)"
        );
        let (_, m) = role_view(&node4, 4).await;
        assert_eq!(m, Some((NodeRole::Follower as i32, NodeStatus::Active as i32)));
        // graceful stop
        drop(_s4);
        drop(node4);
    }
    tokio::time::sleep(std::time::Duration::from_millis(200)).await;

    // ---- node 4 restarts with the same config and the same data directories
    let (node4, _s4) = build_node(cfg4.clone(), d4.path()).await;
    let (role, m) = role_view(&node4, 4).await;
    println!("F28c: node4 after restart: role={role} (4=Learner,1=Follower) membership(4)={m:?}");

    // (a) role after restart vs committed status
    let committed_is_voter = voters_seen_by_1.contains(&4);
    let restarted_is_learner = role == NodeRole::Learner as i32;
    println!("F28c: committed status voter={committed_is_voter}; restarted role learner={restarted_is_learner}");

    // (b) vote capability: a candidate asks the restarted node for its vote
    let (vtx, mut vrx) = <MaybeCloneOneshot as RaftOneshot<_>>::new();
    let (tx, mut rx) = mpsc::unbounded_channel();
    {
        let mut guard = node4.raft_core.lock().await;
        let raft = &mut *guard;
        learner_mut(&mut raft.role)
            .handle_inbound_event(
                InboundEvent::ReceiveVoteRequest(
                    VoteRequest {
                        term: 7,
                        candidate_id: 2,
                        last_log_index: 1_000,
                        last_log_term: 7,
                    },
                    vtx,
                ),
                &raft.ctx,
                tx.clone(),
            )
            .await
            .unwrap();
    }
    let vote = vrx.recv().await.unwrap().unwrap();
    println!("F28c: restarted node4 answers VoteRequest(term 7, up-to-date candidate): vote_granted={}", vote.vote_granted);

    // (c) no automatic recovery 1: MembershipApplied on the restarted node does not re-promote
    {
        let mut guard = node4.raft_core.lock().await;
        let raft = &mut *guard;
        learner_mut(&mut raft.role).handle_membership_applied(&raft.ctx, &tx).await.unwrap();
    }
    let evs = drain(&mut rx);
    println!("F28c: restarted node4 handle_membership_applied -> events={evs:?}");

    // (d) no automatic recovery 2: the start-up JoinRequest (Node::run -> run_as_learner ->
    //     Raft::join_cluster -> LearnerState::join_cluster) is rejected by the leader.
    let (jtx, mut jrx) = <MaybeCloneOneshot as RaftOneshot<_>>::new();
    let (ltx, _lrx) = mpsc::unbounded_channel();
    let join_result = {
        let guard = node1.raft_core.lock().await;
        let mut leader = LeaderState::<T>::new(1, Arc::new(cfg1.clone()));
        leader
            .handle_join_cluster(
                JoinRequest {
                    node_id: 4,
                    node_role: NodeRole::Learner as i32,
                    address: "127.0.0.1:19504".into(),
                    status: NodeStatus::Promotable as i32,
                },
                jtx,
                &guard.ctx,
                &ltx,
            )
            .await
    };
    let join_reply = jrx.recv().await.unwrap();
    println!("F28c: leader handle_join_cluster(node 4) -> result={join_result:?} reply={join_reply:?}");

    // ---- what C28 demands: restarted node's view of itself == committed status (voter)
    assert!(join_result.is_err() && join_reply.is_err(), "re-join is rejected");
    assert!(evs.is_empty(), "no BecomeFollower after restart");
    assert!(!vote.vote_granted, "restarted node refuses to vote");
    assert_eq!(
        role,
        NodeRole::Follower as i32,
        "C28: node 4 was promoted by a committed entry it had applied; after restart it must be a voter"
    );
}

/// Separates F28c from F28 (membership not persisted): even if the membership handed to the
/// builder already says "node 4 is a voter" (as a persisted/restored membership would), the
/// start-up role is still taken from the static config -> LearnerState.
/// Asserts the buggy outcome; PASSES on current code.
#[tokio::test]
async fn f28c_role_ignores_membership_even_if_it_were_restored() {
    let d4 = tempdir().unwrap();
    let cfg4 = config(
        4,
        d4.path(),
        vec![
            meta(1, NodeRole::Leader, NodeStatus::Active),
            meta(2, NodeRole::Follower, NodeStatus::Active),
            meta(3, NodeRole::Follower, NodeStatus::Active),
            meta(4, NodeRole::Learner, NodeStatus::Promotable),
        ],
    );
    // "restored" membership = initial config + committed Promote(4)
    let restored = vec![
        meta(1, NodeRole::Leader, NodeStatus::Active),
        meta(2, NodeRole::Follower, NodeStatus::Active),
        meta(3, NodeRole::Follower, NodeStatus::Active),
        meta(4, NodeRole::Follower, NodeStatus::Active),
    ];
    let (membership, _zombie_rx) = crate::membership::RaftMembership::<T>::new(4, restored, cfg4.clone());

    let (_shutdown_tx, shutdown_rx) = watch::channel(());
    let sm = FileStateMachine::new(d4.path().join("sm")).await.expect("file sm");
    let se = FileStorageEngine::new(d4.path().join("se")).expect("file se");
    let mut builder = NodeBuilder::<FileStorageEngine, FileStateMachine>::from_node_config(cfg4, shutdown_rx)
        .state_machine(Arc::new(sm))
        .storage_engine(Arc::new(se));
    builder.membership = Some(membership);
    let node = builder.build().await.expect("build").node.expect("node");

    let (role, m) = role_view(&node, 4).await;
    println!("F28c/restored-membership: role={role} (4=Learner,1=Follower) membership(4)={m:?}");
    assert_eq!(m, Some((NodeRole::Follower as i32, NodeStatus::Active as i32)));
    assert_eq!(role, NodeRole::Learner as i32, "role comes from config.is_learner(), not from membership");

    // With such a membership a MembershipApplied event WOULD flip the role, but the event is only
    // emitted when a new config entry is applied (default_commit_handler.rs:257); none is pending.
    let (tx, mut rx) = mpsc::unbounded_channel();
    {
        let mut guard = node.raft_core.lock().await;
        let raft = &mut *guard;
        learner_mut(&mut raft.role).handle_membership_applied(&raft.ctx, &tx).await.unwrap();
    }
    println!("F28c/restored-membership: if some later config entry is applied -> events={:?}", drain(&mut rx));
}
