//! F23d repro: TTL registrations are forgotten after a crash-restart.
//!
//! Property C23: "A key written with a TTL stays readable until its TTL elapses and is removed
//! after expiry cleanup ... TTL state survives restart and snapshot install".
//!
//! Every test opens the state machine exactly the way the production entry points do
//! (api/standalone.rs:66-76, api/embedded.rs:246-249 + node/builder.rs:283):
//!     SM::new(dir)  ->  sm.set_lease(Arc<TtlLease>)  ->  Arc::new(sm)  ->  sm.start().await
//! and runs the same call the background worker runs (`lease_background_cleanup`, builder.rs:693).

use std::path::Path;
use std::sync::Arc;
use std::time::Duration;

use bytes::Bytes;
use d_engine_core::ApplyEntry;
use d_engine_core::Command;
use d_engine_core::StateMachine;
use tempfile::TempDir;
use tokio::time::sleep;

use crate::storage::FileStateMachine;
use crate::storage::TtlLease;

fn lease_cfg() -> d_engine_core::config::LeaseConfig {
    d_engine_core::config::LeaseConfig {
        cleanup_interval_ms: 1000,
        max_cleanup_duration_ms: 1,
    }
}

fn insert(
    index: u64,
    key: &[u8],
    value: &[u8],
    ttl: Option<u64>,
) -> ApplyEntry {
    ApplyEntry {
        index,
        term: 1,
        command: Command::Insert {
            key: Bytes::copy_from_slice(key),
            value: Bytes::copy_from_slice(value),
            ttl_secs: ttl,
        },
    }
}

/// Same order as StandaloneEngine::run / EmbeddedEngine::start + NodeBuilder::build.
async fn open_file_sm_like_node_builder(dir: &Path) -> Arc<FileStateMachine> {
    let mut sm = FileStateMachine::new(dir.to_path_buf()).await.unwrap();
    sm.set_lease(Arc::new(TtlLease::new(lease_cfg())));
    let sm = Arc::new(sm);
    sm.start().await.unwrap();
    sm
}

fn copy_dir(
    from: &Path,
    to: &Path,
) {
    std::fs::create_dir_all(to).unwrap();
    for e in std::fs::read_dir(from).unwrap() {
        let e = e.unwrap();
        let dst = to.join(e.file_name());
        if e.file_type().unwrap().is_dir() {
            copy_dir(&e.path(), &dst);
        } else {
            std::fs::copy(e.path(), dst).unwrap();
        }
    }
}

/// Control: graceful stop() keeps the TTL (so the harness itself is sound).
#[tokio::test]
async fn f23d_control_file_sm_graceful_restart_keeps_ttl() {
    let tmp = TempDir::new().unwrap();
    let dir = tmp.path().join("sm");
    {
        let sm = open_file_sm_like_node_builder(&dir).await;
        sm.apply_chunk(&[insert(1, b"k", b"v", Some(2))]).await.unwrap();
        sm.stop().unwrap();
    }
    let sm = open_file_sm_like_node_builder(&dir).await;
    assert_eq!(sm.get(b"k").unwrap(), Some(Bytes::from("v")));
    sleep(Duration::from_millis(3000)).await;
    sm.lease_background_cleanup().await.unwrap();
    assert_eq!(sm.get(b"k").unwrap(), None, "control: graceful restart must keep TTL");
}

/// History A (the claim): Insert{k,ttl=2s}; kill; reopen (new -> set_lease -> start); wait; cleanup.
/// WAL replay runs inside `new()` while `lease == None`, so the TTL re-registration branch
/// (file_state_machine.rs:641-657) is dead.
#[tokio::test]
async fn f23d_file_sm_ttl_forgotten_after_crash_wal_replay() {
    let tmp = TempDir::new().unwrap();
    let dir = tmp.path().join("sm");

    let sm = open_file_sm_like_node_builder(&dir).await;
    sm.apply_chunk(&[insert(1, b"k", b"v", Some(2))]).await.unwrap();
    assert_eq!(sm.get(b"k").unwrap(), Some(Bytes::from("v")));
    println!(
        "[F23d/file/A] files before crash: {:?}",
        std::fs::read_dir(&dir).unwrap().map(|e| e.unwrap().file_name()).collect::<Vec<_>>()
    );
    // CRASH: no stop(), no Drop.
    std::mem::forget(sm);

    let sm2 = open_file_sm_like_node_builder(&dir).await;
    println!(
        "[F23d/file/A] after restart: get(k)={:?} last_applied={:?}",
        sm2.get(b"k").unwrap(),
        sm2.last_applied()
    );
    assert_eq!(sm2.get(b"k").unwrap(), Some(Bytes::from("v")), "TTL has not elapsed yet");

    sleep(Duration::from_millis(3000)).await;
    let expired = sm2.lease_background_cleanup().await.unwrap();
    println!(
        "[F23d/file/A] 3s after restart: cleanup removed {:?}; get(k)={:?}",
        expired,
        sm2.get(b"k").unwrap()
    );
    // a few more rounds: "forever"
    for _ in 0..3 {
        sleep(Duration::from_millis(500)).await;
        sm2.lease_background_cleanup().await.unwrap();
    }
    assert_eq!(
        sm2.get(b"k").unwrap(),
        None,
        "C23 violated: key with ttl=2s is still readable >4s after it was written (TTL lost in crash-restart)"
    );
}

/// History B: same, but the TTL write is covered by a *checkpoint* (apply_chunk takes one every
/// 1000 entries / 10 s: file_state_machine.rs:851-878).  checkpoint() persists state.data +
/// metadata.bin(last_applied) and clears the WAL, but never writes ttl_state.bin.  After the crash
/// the persisted last_applied (=1000) already covers the TTL insert, so Raft will NOT re-apply the
/// entry either: nothing can ever re-register the TTL.
#[tokio::test]
async fn f23d_file_sm_ttl_forgotten_after_crash_post_checkpoint() {
    let tmp = TempDir::new().unwrap();
    let dir = tmp.path().join("sm");

    let sm = open_file_sm_like_node_builder(&dir).await;
    let mut chunk = vec![insert(1, b"k", b"v", Some(2))];
    for i in 2..=1000u64 {
        chunk.push(insert(i, format!("p{i}").as_bytes(), b"x", None));
    }
    sm.apply_chunk(&chunk).await.unwrap(); // 1000 entries -> should_checkpoint() -> checkpoint()
    println!(
        "[F23d/file/B] files before crash: {:?}; wal.len={}",
        std::fs::read_dir(&dir).unwrap().map(|e| e.unwrap().file_name()).collect::<Vec<_>>(),
        std::fs::metadata(dir.join("wal.log")).unwrap().len()
    );
    assert!(!dir.join("ttl_state.bin").exists());
    std::mem::forget(sm); // CRASH

    let sm2 = open_file_sm_like_node_builder(&dir).await;
    println!(
        "[F23d/file/B] after restart: get(k)={:?} last_applied={:?} (>=1 => Raft will not re-apply entry 1)",
        sm2.get(b"k").unwrap(),
        sm2.last_applied()
    );
    assert_eq!(sm2.last_applied().index, 1000);
    sleep(Duration::from_millis(3000)).await;
    let expired = sm2.lease_background_cleanup().await.unwrap();
    println!(
        "[F23d/file/B] 3s after restart: cleanup removed {:?}; get(k)={:?}",
        expired,
        sm2.get(b"k").unwrap()
    );
    assert_eq!(
        sm2.get(b"k").unwrap(),
        None,
        "C23 violated: key with ttl=2s survives forever after checkpoint + crash"
    );
}

#[cfg(feature = "rocksdb")]
mod rocks {
    use super::*;
    use crate::storage::RocksDBStateMachine;

    /// Same order as StandaloneEngine::run (standalone.rs:67-76) + NodeBuilder::build (builder.rs:283).
    async fn open_rocks_sm_like_node_builder(dir: &Path) -> Arc<RocksDBStateMachine> {
        let mut sm = RocksDBStateMachine::new(dir).unwrap();
        sm.set_lease(Arc::new(TtlLease::new(lease_cfg())));
        let sm = Arc::new(sm);
        sm.start().await.unwrap();
        sm
    }

    /// Control: graceful stop keeps TTL.
    #[tokio::test]
    async fn f23d_control_rocksdb_graceful_restart_keeps_ttl() {
        let tmp = TempDir::new().unwrap();
        let dir = tmp.path().join("sm");
        {
            let sm = open_rocks_sm_like_node_builder(&dir).await;
            sm.apply_chunk(&[insert(1, b"k", b"v", Some(2))]).await.unwrap();
            sm.stop().unwrap();
            sm.close_storage();
        }
        let sm = open_rocks_sm_like_node_builder(&dir).await;
        assert_eq!(sm.get(b"k").unwrap(), Some(Bytes::from("v")));
        sleep(Duration::from_millis(3000)).await;
        sm.lease_background_cleanup().await.unwrap();
        assert_eq!(sm.get(b"k").unwrap(), None, "control: graceful restart must keep TTL");
    }

    /// Crash = copy the live DB directory (what a power-cut leaves behind: SST + RocksDB WAL),
    /// because the in-process LOCK prevents re-opening the same directory after mem::forget.
    #[tokio::test]
    async fn f23d_rocksdb_ttl_forgotten_after_crash() {
        let tmp = TempDir::new().unwrap();
        let dir = tmp.path().join("sm");
        let crashed = tmp.path().join("sm_crashed");

        let sm = open_rocks_sm_like_node_builder(&dir).await;
        sm.apply_chunk(&[insert(1, b"k", b"v", Some(2))]).await.unwrap();
        assert_eq!(sm.get(b"k").unwrap(), Some(Bytes::from("v")));
        // CRASH image: byte copy of the directory while the process is alive, no stop()/close.
        copy_dir(&dir, &crashed);
        let _ = std::fs::remove_file(crashed.join("LOCK"));
        std::mem::forget(sm);

        let sm2 = open_rocks_sm_like_node_builder(&crashed).await;
        println!(
            "[F23d/rocksdb] after restart: get(k)={:?} last_applied={:?}",
            sm2.get(b"k").unwrap(),
            sm2.last_applied()
        );
        assert_eq!(
            sm2.get(b"k").unwrap(),
            Some(Bytes::from("v")),
            "the write itself is durable (RocksDB WAL)"
        );
        sleep(Duration::from_millis(3000)).await;
        let expired = sm2.lease_background_cleanup().await.unwrap();
        println!(
            "[F23d/rocksdb] 3s after restart: cleanup removed {:?}; get(k)={:?}",
            expired,
            sm2.get(b"k").unwrap()
        );
        assert_eq!(
            sm2.get(b"k").unwrap(),
            None,
            "C23 violated: key with ttl=2s still readable after crash-restart (TTL only persisted on stop/close)"
        );
    }

    /// Same, but last_applied has been persisted past the TTL entry by a snapshot
    /// (generate_snapshot_data flushes the meta CF; create_snapshot is what every role runs),
    /// so Raft would not re-apply the entry after restart.
    #[tokio::test]
    async fn f23d_rocksdb_ttl_forgotten_after_crash_post_snapshot() {
        let tmp = TempDir::new().unwrap();
        let dir = tmp.path().join("sm");
        let crashed = tmp.path().join("sm_crashed");

        let sm = open_rocks_sm_like_node_builder(&dir).await;
        sm.apply_chunk(&[insert(1, b"k", b"v", Some(2)), insert(2, b"k2", b"v2", None)])
            .await
            .unwrap();
        // what Drop/close would do is NOT run; only what a running node does on its own:
        sm.generate_snapshot_data(
            tmp.path().join("snapdir"),
            d_engine_proto::common::LogId { index: 2, term: 1 },
        )
        .await
        .unwrap();
        copy_dir(&dir, &crashed);
        let _ = std::fs::remove_file(crashed.join("LOCK"));
        std::mem::forget(sm);

        let sm2 = open_rocks_sm_like_node_builder(&crashed).await;
        println!(
            "[F23d/rocksdb/snap] after restart: get(k)={:?} last_applied={:?} snapshot_metadata={:?}",
            sm2.get(b"k").unwrap(),
            sm2.last_applied(),
            sm2.snapshot_metadata()
        );
        sleep(Duration::from_millis(3000)).await;
        let expired = sm2.lease_background_cleanup().await.unwrap();
        println!(
            "[F23d/rocksdb/snap] 3s after restart: cleanup removed {:?}; get(k)={:?}",
            expired,
            sm2.get(b"k").unwrap()
        );
        assert_eq!(sm2.get(b"k").unwrap(), None, "C23 violated (post-snapshot crash)");
    }
}
