//! F02 repro: votes and terms must survive crashes (Raft: currentTerm / votedFor are "updated on stable
//! storage before responding to RPCs").
//!
//! Claim: the only production caller of `RaftLog::save_hard_state` is `impl Drop for Raft`; the role handlers
//! mutate term/vote only in memory.
//!
//! Part A uses the REAL FollowerState + REAL ElectionHandler + REAL BufferedRaftLog over the in-memory
//!        `MockStorageEngine` (a real key/value meta store that survives "process restarts" with the same id).
//! Part B uses the REAL Raft event handlers with a counting MockRaftLog.
//! Part C (F02b) LearnerState::new ignores the persisted hard state.

use std::collections::HashSet;
use std::sync::Arc;
use std::sync::atomic::{AtomicU64, AtomicUsize, Ordering};

use d_engine_proto::common::NodeRole::{Candidate, Follower, Leader};
use d_engine_proto::server::election::VoteRequest;
use d_engine_proto::server::election::VoteResponse;
use d_engine_proto::server::election::VotedFor;
use tokio::sync::mpsc;
use tokio::sync::watch;

use crate::BufferedRaftLog;
use crate::ElectionConfig;
use crate::ElectionHandler;
use crate::FlushPolicy;
use crate::HardState;
use crate::InboundEvent;
use crate::InternalEvent;
use crate::MaybeCloneOneshot;
use crate::MockCommitHandler;
use crate::MockMembership;
use crate::MockPurgeExecutor;
use crate::MockRaftLog;
use crate::MockReplicationCore;
use crate::MockSnapshotPolicy;
use crate::MockStateMachine;
use crate::MockStateMachineHandler;
use crate::MockStorageEngine;
use crate::MockTransport;
use crate::PersistenceConfig;
use crate::PersistenceStrategy;
use crate::Raft;
use crate::RaftConfig;
use crate::RaftContext;
use crate::RaftCoreHandlers;
use crate::RaftLog;
use crate::RaftNodeConfig;
use crate::RaftOneshot;
use crate::RaftRole;
use crate::RaftStorageHandles;
use crate::SignalParams;
use crate::TypeConfig;
use crate::VoteResult;
use crate::follower_state::FollowerState;
use crate::learner_state::LearnerState;
use crate::raft_role::role_state::RaftRoleState;
use crate::test_utils::mock::mock_raft_builder::mock_state_machine;

// ---------------------------------------------------------------------------------------------
// Part A: real raft log over a storage that survives the "crash"
// ---------------------------------------------------------------------------------------------

/// Real election handler + real BufferedRaftLog; everything else mocked.
#[derive(Debug, Clone, Copy, Default, Eq, PartialEq, Ord, PartialOrd)]
pub struct RealLogTC;

impl TypeConfig for RealLogTC {
    type R = BufferedRaftLog<Self>;
    type SE = MockStorageEngine;
    type E = ElectionHandler<Self>;
    type TR = MockTransport<Self>;
    type SM = MockStateMachine;
    type M = MockMembership<Self>;
    type REP = MockReplicationCore<Self>;
    type C = MockCommitHandler;
    type SMH = MockStateMachineHandler<Self>;
    type SNP = MockSnapshotPolicy;
    type PE = MockPurgeExecutor;
}

/// "Boot" the storage layer of node 1 on the storage identified by `storage_id`.
fn boot_raft_log(storage_id: &str) -> Arc<BufferedRaftLog<RealLogTC>> {
    let storage = Arc::new(MockStorageEngine::with_id(storage_id.to_string()));
    let (raft_log, receiver) = BufferedRaftLog::<RealLogTC>::new(
        1,
        PersistenceConfig {
            strategy: PersistenceStrategy::MemFirst,
            flush_policy: FlushPolicy::Batch {
                idle_flush_interval_ms: 1,
            },
            max_buffered_entries: 1000,
        },
        storage,
    );
    let raft_log = raft_log.start(receiver, None);
    std::thread::sleep(std::time::Duration::from_millis(10));
    raft_log
}

fn ctx_with(raft_log: Arc<BufferedRaftLog<RealLogTC>>) -> RaftContext<RealLogTC> {
    let node_config = Arc::new(RaftNodeConfig::new().unwrap().validate().unwrap());
    RaftContext {
        node_id: 1,
        storage: RaftStorageHandles {
            raft_log,
            state_machine: Arc::new(mock_state_machine()),
        },
        transport: Arc::new(MockTransport::new()),
        membership: Arc::new(MockMembership::new()),
        handlers: RaftCoreHandlers {
            election_handler: ElectionHandler::new(1),
            replication_handler: MockReplicationCore::new(),
            state_machine_handler: Arc::new(MockStateMachineHandler::new()),
            purge_executor: Arc::new(MockPurgeExecutor::new()),
        },
        node_config,
    }
}

/// What NodeBuilder::build does for a voter: FollowerState::new(id, cfg, raft_log.load_hard_state(), ..)
fn boot_follower(ctx: &RaftContext<RealLogTC>) -> FollowerState<RealLogTC> {
    FollowerState::new(
        1,
        ctx.node_config.clone(),
        ctx.raft_log().load_hard_state().expect("load_hard_state"),
        Some(0),
    )
}

async fn ask_vote(
    follower: &mut FollowerState<RealLogTC>,
    ctx: &RaftContext<RealLogTC>,
    term: u64,
    candidate_id: u32,
) -> VoteResponse {
    let (resp_tx, mut resp_rx) = MaybeCloneOneshot::new();
    let (itx, _irx) = mpsc::unbounded_channel();
    follower
        .handle_inbound_event(
            InboundEvent::ReceiveVoteRequest(
                VoteRequest {
                    term,
                    candidate_id,
                    last_log_index: 0,
                    last_log_term: 0,
                },
                resp_tx,
            ),
            ctx,
            itx,
        )
        .await
        .expect("handle vote request");
    resp_rx.recv().await.unwrap().unwrap()
}

/// After the vote reply has left the node, the vote (and the new term) must already be on stable storage.
#[tokio::test]
async fn f02_vote_is_on_stable_storage_when_reply_is_sent() {
    let sid = format!("f02-a-{}", uuid::Uuid::new_v4());
    let raft_log = boot_raft_log(&sid);
    let ctx = ctx_with(raft_log.clone());
    let mut follower = boot_follower(&ctx);
    assert_eq!(follower.current_term(), 1);

    let resp = ask_vote(&mut follower, &ctx, 5, 2).await;
    println!("[F02] reply to VoteRequest{{term:5,candidate:2}}: {:?}", resp);
    assert!(resp.vote_granted, "fresh follower grants the vote");
    println!(
        "[F02] in memory: term={} voted_for={:?}",
        follower.current_term(),
        follower.voted_for().unwrap()
    );
    assert_eq!(follower.current_term(), 5);

    let on_disk = raft_log.load_hard_state().unwrap();
    println!("[F02] on storage after the reply was sent: {:?}", on_disk);
    let on_disk = on_disk.expect(
        "LOST ON CRASH: vote reply already sent but hard state (term=5, voted_for=2) was never saved",
    );
    assert_eq!(on_disk.current_term, 5);
    assert_eq!(on_disk.voted_for.map(|v| (v.voted_for_id, v.voted_for_term)), Some((2, 5)));
}

/// Same history, then crash (nothing is dropped gracefully / Raft::drop never runs) and restart on the
/// same storage: the node must not vote for a different candidate in term 5 again.
#[tokio::test]
async fn f02_no_second_vote_in_same_term_after_crash() {
    let sid = format!("f02-b-{}", uuid::Uuid::new_v4());
    {
        let raft_log = boot_raft_log(&sid);
        let ctx = ctx_with(raft_log.clone());
        let mut follower = boot_follower(&ctx);
        let resp = ask_vote(&mut follower, &ctx, 5, 2).await;
        assert!(resp.vote_granted);
        println!("[F02] before crash: granted term-5 vote to candidate 2 ({:?})", resp);
        // flush everything the log layer is willing to flush, then CRASH
        raft_log.flush().await.ok();
        std::mem::forget(follower);
        std::mem::forget(ctx);
    }

    // restart on the same storage
    let raft_log = boot_raft_log(&sid);
    let ctx = ctx_with(raft_log.clone());
    println!("[F02] after restart load_hard_state() = {:?}", raft_log.load_hard_state().unwrap());
    let mut follower = boot_follower(&ctx);
    println!(
        "[F02] after restart: term={} voted_for={:?}",
        follower.current_term(),
        follower.voted_for().unwrap()
    );

    let resp = ask_vote(&mut follower, &ctx, 5, 3).await;
    println!("[F02] after restart reply to VoteRequest{{term:5,candidate:3}}: {:?}", resp);
    assert!(
        !resp.vote_granted,
        "DOUBLE VOTE ACROSS CRASH: node 1 voted for candidate 2 in term 5, crashed, and voted for candidate 3 in term 5"
    );
}

// ---------------------------------------------------------------------------------------------
// Part B: count save_hard_state calls over a whole election cycle driven through the real Raft
// ---------------------------------------------------------------------------------------------

#[derive(Debug, Clone, Copy, Default, Eq, PartialEq, Ord, PartialOrd)]
pub struct RealElectionTC;

impl TypeConfig for RealElectionTC {
    type R = MockRaftLog;
    type SE = MockStorageEngine;
    type E = ElectionHandler<Self>;
    type TR = MockTransport<Self>;
    type SM = MockStateMachine;
    type M = MockMembership<Self>;
    type REP = MockReplicationCore<Self>;
    type C = MockCommitHandler;
    type SMH = MockStateMachineHandler<Self>;
    type SNP = MockSnapshotPolicy;
    type PE = MockPurgeExecutor;
}

#[tokio::test]
async fn f02_save_hard_state_is_only_called_from_raft_drop() {
    let saves = Arc::new(AtomicUsize::new(0));
    let last_saved: Arc<std::sync::Mutex<Option<HardState>>> = Arc::new(std::sync::Mutex::new(None));

    let log_index = Arc::new(AtomicU64::new(0));
    let (a, b, c) = (log_index.clone(), log_index.clone(), log_index.clone());
    let mut raft_log = MockRaftLog::new();
    raft_log.expect_last_entry_id().returning(move || a.load(Ordering::Relaxed));
    raft_log.expect_durable_index().returning(move || b.load(Ordering::Relaxed));
    raft_log.expect_last_log_id().returning(|| None);
    raft_log.expect_flush().returning(|| Ok(()));
    raft_log.expect_load_hard_state().returning(|| Ok(None));
    {
        let (saves, last_saved) = (saves.clone(), last_saved.clone());
        raft_log.expect_save_hard_state().returning(move |hs| {
            saves.fetch_add(1, Ordering::SeqCst);
            *last_saved.lock().unwrap() = Some(*hs);
            Ok(())
        });
    }
    raft_log.expect_calculate_majority_matched_index().returning(|_, _, _| None);
    raft_log.expect_close().returning(|| ());

    let mut membership = MockMembership::<RealElectionTC>::new();
    membership.expect_voters().returning(|| {
        vec![d_engine_proto::server::cluster::NodeMeta {
            id: 2,
            address: "127.0.0.1:9002".into(),
            role: Follower as i32,
            status: d_engine_proto::common::NodeStatus::Active as i32,
        }]
    });
    membership.expect_replication_peers().returning(Vec::new);
    membership.expect_members().returning(Vec::new);
    membership.expect_get_peers_id_with_condition().returning(|_| vec![2]);
    membership.expect_is_single_node_cluster().returning(|| false);
    membership.expect_initial_cluster_size().returning(|| 3);

    let mut transport = MockTransport::<RealElectionTC>::new();
    transport.expect_send_vote_requests().returning(|req, _, _| {
        Ok(VoteResult {
            peer_ids: HashSet::from([2, 3]),
            responses: vec![Ok(VoteResponse {
                term: req.term,
                vote_granted: true,
                last_log_index: 0,
                last_log_term: 0,
            })],
        })
    });

    let mut replication = MockReplicationCore::<RealElectionTC>::new();
    replication.expect_prepare_batch_requests().returning(move |payloads, _, _, _, _| {
        c.fetch_add(payloads.len() as u64, Ordering::Relaxed);
        Ok(crate::PrepareResult::default())
    });
    let mut smh = MockStateMachineHandler::<RealElectionTC>::new();
    smh.expect_update_pending().returning(|_| {});
    smh.expect_should_snapshot().returning(|_| false);
    smh.expect_get_latest_snapshot_metadata().returning(|| None);

    let node_config = RaftNodeConfig::new().unwrap().validate().unwrap();
    let node_config = Arc::new(RaftNodeConfig {
        raft: RaftConfig {
            election: ElectionConfig {
                election_timeout_min: 1,
                election_timeout_max: 2,
                ..node_config.raft.election
            },
            ..node_config.raft
        },
        ..node_config
    });

    let (_shutdown_tx, shutdown_rx) = watch::channel(());
    let (internal_event_tx, internal_event_rx) = mpsc::unbounded_channel();
    let (event_tx, event_rx) = mpsc::channel(10);
    let (cmd_tx, cmd_rx) = mpsc::channel(1024);
    let role = RaftRole::Follower(Box::new(FollowerState::new(1, node_config.clone(), None, Some(0))));
    let mut raft = Raft::<RealElectionTC>::new(
        1,
        role,
        RaftStorageHandles {
            raft_log: Arc::new(raft_log),
            state_machine: Arc::new(mock_state_machine()),
        },
        transport,
        RaftCoreHandlers {
            election_handler: ElectionHandler::new(1),
            replication_handler: replication,
            state_machine_handler: Arc::new(smh),
            purge_executor: Arc::new(MockPurgeExecutor::new()),
        },
        Arc::new(membership),
        SignalParams {
            internal_event_tx,
            internal_event_rx,
            event_tx,
            event_rx,
            cmd_tx,
            cmd_rx,
            shutdown_signal: shutdown_rx,
        },
        node_config,
    );

    // 1. Follower grants a vote in term 5 (term 1 -> 5, voted_for = 2)
    let (resp_tx, mut resp_rx) = MaybeCloneOneshot::new();
    let itx = raft.internal_event_tx.clone();
    raft.role
        .handle_inbound_event(
            InboundEvent::ReceiveVoteRequest(
                VoteRequest {
                    term: 5,
                    candidate_id: 2,
                    last_log_index: 0,
                    last_log_term: 0,
                },
                resp_tx,
            ),
            &raft.ctx,
            itx,
        )
        .await
        .unwrap();
    assert!(resp_rx.recv().await.unwrap().unwrap().vote_granted);
    println!(
        "[F02] granted vote: term={} voted_for={:?}; save_hard_state calls so far = {}",
        raft.role.current_term(),
        raft.role.voted_for().unwrap(),
        saves.load(Ordering::SeqCst)
    );

    // 2. election timeout: become candidate, real tick increments the term and votes for itself, wins
    raft.handle_internal_event(InternalEvent::BecomeCandidate).await.unwrap();
    assert_eq!(raft.role.as_i32(), Candidate as i32);
    tokio::time::sleep(std::time::Duration::from_millis(10)).await;
    let (itx, etx) = (raft.internal_event_tx.clone(), raft.event_tx.clone());
    raft.role.tick(&itx, &etx, &raft.ctx).await.unwrap();
    println!(
        "[F02] candidate: term={} voted_for={:?}; save_hard_state calls so far = {}",
        raft.role.current_term(),
        raft.role.voted_for().unwrap(),
        saves.load(Ordering::SeqCst)
    );
    let ev = raft.internal_event_rx.try_recv().unwrap();
    assert!(matches!(ev, InternalEvent::BecomeLeader), "{ev:?}");
    raft.handle_internal_event(ev).await.unwrap();
    assert_eq!(raft.role.as_i32(), Leader as i32);
    println!(
        "[F02] leader: term={} voted_for={:?}; save_hard_state calls so far = {}",
        raft.role.current_term(),
        raft.role.voted_for().unwrap(),
        saves.load(Ordering::SeqCst)
    );

    // 3. leader sees a higher-term vote request: term 6 -> 9, steps down, replays, grants
    let (resp_tx, mut resp_rx) = MaybeCloneOneshot::new();
    let itx = raft.internal_event_tx.clone();
    raft.role
        .handle_inbound_event(
            InboundEvent::ReceiveVoteRequest(
                VoteRequest {
                    term: 9,
                    candidate_id: 3,
                    last_log_index: 100,
                    last_log_term: 8,
                },
                resp_tx,
            ),
            &raft.ctx,
            itx,
        )
        .await
        .unwrap();
    while let Ok(ev) = raft.internal_event_rx.try_recv() {
        raft.handle_internal_event(ev).await.unwrap();
    }
    raft.process_inbound_events().await.unwrap();
    let resp = resp_rx.recv().await.unwrap().unwrap();
    assert!(resp.vote_granted);
    let mem_term = raft.role.current_term();
    let mem_vote: Option<VotedFor> = raft.role.voted_for().unwrap();
    let calls_before_drop = saves.load(Ordering::SeqCst);
    println!(
        "[F02] follower again: term={mem_term} voted_for={mem_vote:?}; save_hard_state calls so far = {calls_before_drop}"
    );

    drop(raft);
    let calls_after_drop = saves.load(Ordering::SeqCst);
    println!(
        "[F02] after graceful drop(raft): save_hard_state calls = {calls_after_drop}, saved = {:?}",
        last_saved.lock().unwrap()
    );

    // 3 term changes + 3 votes were acknowledged to peers; each must have been persisted first.
    assert!(
        calls_before_drop >= 3,
        "hard state was persisted {calls_before_drop} times while the node went through terms 1->5->6->9 and \
         answered 2 vote requests + 1 self vote (only Raft::drop saved it: {calls_after_drop} call)"
    );
}

// ---------------------------------------------------------------------------------------------
// Part C (F02b): a Learner restarts with term 1 whatever the storage says
// ---------------------------------------------------------------------------------------------

/// d-engine-server/src/node/builder.rs:479-491
///     let my_role = if node_config_arc.is_learner() {
///         RaftRole::Learner(Box::new(LearnerState::new(node_id, node_config_arc.clone())))
///     } else {
///         RaftRole::Follower(Box::new(FollowerState::new(node_id, node_config_arc.clone(),
///             raft_log.load_hard_state().expect("Failed to load hard state"), last_applied_index)))
///     };
#[tokio::test]
async fn f02b_learner_restart_forgets_persisted_term() {
    let sid = format!("f02-c-{}", uuid::Uuid::new_v4());
    {
        let raft_log = boot_raft_log(&sid);
        // what a graceful shutdown (Raft::drop) of the previous incarnation stored
        raft_log
            .save_hard_state(&HardState {
                current_term: 9,
                voted_for: Some(VotedFor {
                    voted_for_id: 3,
                    voted_for_term: 9,
                    committed: true,
                }),
            })
            .unwrap();
    }

    // restart
    let raft_log = boot_raft_log(&sid);
    let stored = raft_log.load_hard_state().unwrap().expect("storage holds the hard state");
    println!("[F02b] storage after restart: {:?}", stored);
    assert_eq!(stored.current_term, 9);

    let node_config = Arc::new(RaftNodeConfig::new().unwrap().validate().unwrap());
    // the voter branch of the builder
    let follower =
        FollowerState::<RealLogTC>::new(1, node_config.clone(), raft_log.load_hard_state().unwrap(), Some(0));
    println!("[F02b] FollowerState::new(.., load_hard_state()) -> term {}", follower.current_term());
    assert_eq!(follower.current_term(), 9);

    // the learner branch of the builder: there is no parameter to hand the hard state in
    let learner = LearnerState::<RealLogTC>::new(1, node_config.clone());
    println!("[F02b] LearnerState::new(node_id, cfg) -> term {}", learner.current_term());
    assert_eq!(
        learner.current_term(),
        9,
        "TERM WENT BACKWARDS: storage holds current_term=9 but the restarted learner runs with term {}",
        learner.current_term()
    );
}
