//! F16 repro: DefaultStateMachineHandler::create_snapshot labels the snapshot with
//! last_included.index = last_applied - retained_log_entries, but generate_snapshot_data dumps
//! the CURRENT state (everything up to last_applied).
//!
//! Real DefaultStateMachineHandler + real FileStateMachine on both sides; the snapshot travels
//! through the real load_snapshot_data() -> apply_snapshot_stream_from_leader() path.

use std::sync::Arc;

use bytes::Bytes;
use d_engine_core::DefaultStateMachineHandler;
use d_engine_core::LogSizePolicy;
use d_engine_core::SnapshotConfig;
use d_engine_core::StateMachine;
use d_engine_core::StateMachineHandler;
use d_engine_proto::client::WriteCommand;
use d_engine_proto::common::Entry;
use d_engine_proto::common::EntryPayload;
use d_engine_proto::server::storage::SnapshotAck;
use futures::StreamExt;
use prost::Message;
use tempfile::TempDir;
use tokio::sync::mpsc;

use super::FileStateMachine;
use super::FileStorageEngine;
use crate::node::RaftTypeConfig;

type TC = RaftTypeConfig<FileStorageEngine, FileStateMachine>;

fn entry(
    index: u64,
    cmd: WriteCommand,
) -> Entry {
    Entry {
        index,
        term: 1,
        payload: Some(EntryPayload::command(Bytes::from(cmd.encode_to_vec()))),
    }
}

/// Committed log 1..=5:
///   1: Insert(a,"1")            2: Insert(b,"1")
///   3: CAS(k, None -> "w") ok   4: CAS(k, "x" -> "y") FAIL (k=="w")   5: CAS(k, "w" -> "x") ok
/// State after 1..=3: k=="w".  State after 1..=5 (applied once): k=="x".
fn log() -> Vec<Entry> {
    vec![
        entry(1, WriteCommand::insert("a", "1")),
        entry(2, WriteCommand::insert("b", "1")),
        entry(3, WriteCommand::compare_and_swap("k", None::<Bytes>, "w")),
        entry(4, WriteCommand::compare_and_swap("k", Some("x"), "y")),
        entry(5, WriteCommand::compare_and_swap("k", Some("w"), "x")),
    ]
}

fn snapshot_config(
    dir: &std::path::Path,
    retained: u64,
) -> SnapshotConfig {
    let mut c = SnapshotConfig::default();
    c.snapshots_dir = dir.to_path_buf();
    c.retained_log_entries = retained; // validation forces >= 1; default is 1
    c.chunk_size = 1024;
    std::fs::create_dir_all(dir).unwrap();
    c
}

fn handler(
    id: u32,
    sm: Arc<FileStateMachine>,
    cfg: SnapshotConfig,
) -> DefaultStateMachineHandler<TC> {
    DefaultStateMachineHandler::<TC>::new(
        id,
        sm.last_applied().index,
        sm,
        cfg,
        LogSizePolicy::new(1000, std::time::Duration::from_secs(60)),
        None,
        Arc::new(std::sync::atomic::AtomicUsize::new(0)),
    )
}

struct Observed {
    boundary: u64,
    leader_k: Option<Bytes>,
    follower_k_after_install: Option<Bytes>,
    follower_last_applied_after_install: u64,
    follower_results_4_5: Vec<bool>,
    leader_results_4_5: Vec<bool>,
    follower_k_final: Option<Bytes>,
}

async fn run_history(retained: u64) -> Observed {
    let tmp = TempDir::new().unwrap();

    // ---------- leader: apply 1..=5 once, then snapshot ----------
    let lsm = Arc::new(FileStateMachine::new(tmp.path().join("leader_sm")).await.unwrap());
    let lcfg = snapshot_config(&tmp.path().join("leader_snaps"), retained);
    let lh = handler(1, lsm.clone(), lcfg);
    let lres: Vec<bool> =
        lh.apply_chunk(log()).await.unwrap().iter().map(|r| r.succeeded).collect();
    assert_eq!(lres, vec![true, true, true, false, true]);
    let leader_k = lsm.get(b"k").unwrap();
    assert_eq!(leader_k, Some(Bytes::from("x")));
    assert_eq!(lsm.last_applied().index, 5);

    let (meta, path) = lh.create_snapshot().await.unwrap();
    let boundary = meta.last_included.unwrap().index;
    println!("F16 leader snapshot: last_included={:?} file={path:?}", meta.last_included);

    // ---------- follower: fresh SM, install snapshot through the real stream path ----------
    let fsm = Arc::new(FileStateMachine::new(tmp.path().join("follower_sm")).await.unwrap());
    let fcfg = snapshot_config(&tmp.path().join("follower_snaps"), retained);
    let fh = handler(2, fsm.clone(), fcfg.clone());

    let mut stream = lh.load_snapshot_data(meta.clone()).await.unwrap();
    let (chunk_tx, chunk_rx) = mpsc::channel(1024);
    while let Some(chunk) = stream.next().await {
        chunk_tx.send(chunk.unwrap()).await.unwrap();
    }
    drop(chunk_tx);
    let (ack_tx, mut ack_rx) = mpsc::channel::<SnapshotAck>(1024);
    tokio::spawn(async move { while ack_rx.recv().await.is_some() {} });
    fh.apply_snapshot_stream_from_leader(1, chunk_rx, ack_tx, &fcfg).await.unwrap();

    let follower_k_after_install = fsm.get(b"k").unwrap();
    let follower_last_applied_after_install = fsm.last_applied().index;
    println!(
        "F16 follower after install: last_applied={follower_last_applied_after_install} k={follower_k_after_install:?}"
    );

    // ---------- follower: leader now replicates the entries after the boundary ----------
    let tail: Vec<Entry> = log().into_iter().filter(|e| e.index > boundary).collect();
    let tail_idx: Vec<u64> = tail.iter().map(|e| e.index).collect();
    let fres: Vec<bool> = if tail.is_empty() {
        vec![]
    } else {
        fh.apply_chunk(tail).await.unwrap().iter().map(|r| r.succeeded).collect()
    };
    let follower_k_final = fsm.get(b"k").unwrap();
    println!(
        "F16 follower applied entries {tail_idx:?} after the boundary: results={fres:?} k={follower_k_final:?}; leader k={leader_k:?}"
    );

    Observed {
        boundary,
        leader_k,
        follower_k_after_install,
        follower_last_applied_after_install,
        follower_results_4_5: fres,
        leader_results_4_5: lres[(boundary as usize)..].to_vec(),
        follower_k_final,
    }
}

/// Asserts what the property DEMANDS -> FAILS on the current code.
#[tokio::test]
async fn f16_snapshot_boundary_matches_content() {
    let o = run_history(2).await;
    assert_eq!(o.boundary, 3);
    assert_eq!(o.follower_last_applied_after_install, 3);
    // content of a snapshot labelled "last_included = 3" must be the state after entries 1..=3
    assert_eq!(
        o.follower_k_after_install,
        Some(Bytes::from("w")),
        "PROPERTY VIOLATED: snapshot says last_included=3 but already contains effects of 4..=5"
    );
    assert_eq!(o.follower_results_4_5, o.leader_results_4_5);
    assert_eq!(o.follower_k_final, o.leader_k, "follower must converge to leader state");
}

/// Asserts the BUGGY outcome -> PASSES on the current code.
#[tokio::test]
async fn f16_snapshot_boundary_buggy_outcome() {
    let o = run_history(2).await;
    assert_eq!(o.boundary, 3, "metadata: last_included = 5 - retained(2)");
    assert_eq!(o.follower_last_applied_after_install, 3);
    assert_eq!(
        o.follower_k_after_install,
        Some(Bytes::from("x")),
        "content is the state after entry 5, not 3"
    );
    assert_eq!(o.leader_results_4_5, vec![false, true]);
    assert_eq!(o.follower_results_4_5, vec![true, false], "CAS outcomes flipped on follower");
    assert_eq!(o.leader_k, Some(Bytes::from("x")));
    assert_eq!(o.follower_k_final, Some(Bytes::from("y")), "replicas diverged");
}

/// Same with the DEFAULT config (retained_log_entries = 1): boundary 4, content 5.
#[tokio::test]
async fn f16_snapshot_boundary_default_config_buggy_outcome() {
    let o = run_history(1).await;
    assert_eq!(o.boundary, 4);
    assert_eq!(o.follower_k_after_install, Some(Bytes::from("x")), "content already has entry 5");
    // entry 5 = CAS(k,"w"->"x") succeeded on the leader, is re-executed on k=="x" and fails
    assert_eq!(o.leader_results_4_5, vec![true]);
    assert_eq!(o.follower_results_4_5, vec![false]);
}
