//! F11 repro: a linearizable read queued in `pending_reads` is served by `handle_apply_completed`
//! without any lease / quorum confirmation that happened AFTER the read arrived.
//!
//! History (3 voters, leader=1):
//!  - leader has commit_index = 5 (quorum for index 5 was reached some time ago), noop committed,
//!    but the state machine has only applied up to 4 (ApplyCompleted(5) is still in flight from the SM worker);
//!  - the read lease is NOT valid (last quorum ACK is older than lease_duration: leader is partitioned);
//!  - a LinearizableRead arrives through the real client path (push_client_cmd + flush_cmd_buffers);
//!  - NO AppendResult is ever delivered afterwards (no peer acknowledges the leader);
//!  - the in-flight ApplyCompleted(5) arrives -> real `handle_apply_completed`.

use std::sync::Arc;

use d_engine_proto::common::LogId;
use d_engine_proto::common::NodeRole::Follower;
use d_engine_proto::common::NodeStatus;
use d_engine_proto::server::cluster::NodeMeta;
use tokio::sync::{mpsc, watch};

use crate::ClientCmd;
use crate::MockMembership;
use crate::MockReplicationCore;
use crate::RaftNodeConfig;
use crate::ReadConsistencyPolicy;
use crate::client::ClientReadRequest;
use crate::convert::safe_kv_bytes;
use crate::maybe_clone_oneshot::{MaybeCloneOneshot, RaftOneshot};
use crate::raft_role::leader_state::LeaderState;
use crate::raft_role::read_lease::now_ms;
use crate::raft_role::role_state::RaftRoleState;
use crate::test_utils::MockBuilder;
use crate::test_utils::mock::MockTypeConfig;
use crate::test_utils::mock::mock_raft_builder::mock_raft_log;

async fn run_history() -> (bool, bool, bool, usize, Option<bool>) {
    let (_graceful_tx, graceful_rx) = watch::channel(());
    let mut node_config = RaftNodeConfig::default();
    node_config.raft.batching.max_batch_size = 1;
    node_config.raft.general_raft_timeout_duration_in_ms = 5_000;

    // The leader "sends" its round, but nothing will ever be acknowledged.
    let mut replication = MockReplicationCore::new();
    replication
        .expect_prepare_batch_requests()
        .returning(|_, _, _, _, _| Ok(crate::PrepareResult::default()));

    // SM has applied only up to 4 when the read arrives.
    // (fresh mock: the default `mock_state_machine()` registers its own last_applied expectation first)
    let mut sm = crate::MockStateMachine::new();
    sm.expect_last_applied().return_const(LogId { index: 4, term: 1 });
    sm.expect_snapshot_metadata().returning(|| None);
    sm.expect_len().returning(|| 0);
    sm.expect_is_running().returning(|| true);

    let ctx = MockBuilder::new(graceful_rx)
        .with_db_path("/tmp/f11_repro_test")
        .with_replication_handler(replication)
        .with_raft_log(mock_raft_log())
        .with_state_machine(sm)
        .with_node_config(node_config)
        .build_context();

    let mut state = LeaderState::<MockTypeConfig>::new(1, ctx.node_config.clone());
    let peers: Vec<NodeMeta> = (2u32..=3)
        .map(|id| NodeMeta {
            id,
            address: String::new(),
            status: NodeStatus::Active as i32,
            role: Follower.into(),
        })
        .collect();
    let mut membership = MockMembership::new();
    let pv = peers.clone();
    membership.expect_voters().returning(move || pv.clone());
    membership.expect_replication_peers().returning(move || peers.clone());
    state.init_cluster_metadata(&Arc::new(membership)).await.unwrap();
    assert!(!state.cluster_metadata.single_voter);

    // Leader is established: noop committed, commit_index = 5.
    state.noop_log_id = Some(5);
    state.update_commit_index(5).unwrap();
    // It once had a lease (quorum ACK in the past) which has expired by now.
    state.shared_state.lease.renew(state.current_term(), now_ms() + 1);
    tokio::time::sleep(std::time::Duration::from_millis(5)).await;
    let lease_valid_at_arrival = state.is_lease_valid();

    let (internal_event_tx, _internal_event_rx) = mpsc::unbounded_channel();

    // --- the read arrives through the real client path ---
    let (resp_tx, mut resp_rx) = MaybeCloneOneshot::new();
    state.push_client_cmd(
        ClientCmd::Read(
            ClientReadRequest {
                client_id: 1,
                consistency_policy: Some(ReadConsistencyPolicy::LinearizableRead),
                keys: vec![safe_kv_bytes(1)],
            },
            resp_tx,
        ),
        &ctx,
    );
    state.flush_cmd_buffers(&ctx, &internal_event_tx).await.unwrap();

    use crate::StateMachine;
    println!(
        "F11: at read arrival: commit_index={} read_index={} sm.last_applied={}",
        state.commit_index(),
        state.calculate_read_index(),
        ctx.state_machine().last_applied().index
    );
    let queued_at = state.pending_reads.keys().copied().collect::<Vec<_>>();
    let answered_before_apply = resp_rx.try_recv().is_ok();
    println!(
        "F11: after read arrival: lease_valid={lease_valid_at_arrival} pending_reads keys={queued_at:?} answered={answered_before_apply}"
    );
    assert_eq!(queued_at, vec![5], "read must be queued at read_index=commit_index=5");

    // --- NO handle_append_result is called: no peer acknowledged this leader after the read arrived ---

    // --- the ApplyCompleted(5) that was in flight (commit of 5 predates the read) arrives ---
    let lease_valid_at_apply = state.is_lease_valid();
    state.handle_apply_completed(5, vec![], &ctx, &internal_event_tx).await.unwrap();

    let remaining = state.pending_reads.len();
    let answer = resp_rx.try_recv().ok().map(|r| r.is_ok());
    println!(
        "F11: after handle_apply_completed(5): lease_valid={lease_valid_at_apply} pending_reads.len()={remaining} client answer (Some(true)=served OK)={answer:?}"
    );
    (
        lease_valid_at_arrival,
        lease_valid_at_apply,
        answered_before_apply,
        remaining,
        answer,
    )
}

/// PROPERTY (expected to FAIL): without a valid lease and without a quorum confirmation obtained after the
/// read arrived, the leader must not answer a linearizable read.
#[tokio::test]
async fn f11_property_unconfirmed_linearizable_read_must_not_be_served() {
    let (lease_at_arrival, lease_at_apply, _, _, answer) = run_history().await;
    assert!(!lease_at_arrival && !lease_at_apply, "precondition: no valid lease");
    assert_ne!(
        answer,
        Some(true),
        "linearizable read was served from the local state machine with no valid lease and no quorum ACK after its arrival"
    );
}

/// Same history, asserting the BUGGY outcome (expected to PASS).
#[tokio::test]
async fn f11_buggy_outcome_read_served_by_apply_completed_without_confirmation() {
    let (lease_at_arrival, lease_at_apply, answered_before, remaining, answer) = run_history().await;
    assert!(!lease_at_arrival);
    assert!(!lease_at_apply);
    assert!(!answered_before);
    assert_eq!(remaining, 0);
    assert_eq!(answer, Some(true));
}
