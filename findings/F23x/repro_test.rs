//! F23x repro: RocksDBStateMachine::apply_chunk does not clear a key's previous TTL registration
//! when the key is overwritten by `Insert{ttl=None}` or by a successful CompareAndSwap.
//! The lease cleanup later deletes the NEW, permanent value.

use std::time::Duration;

use bytes::Bytes;
use d_engine_core::{ApplyEntry, Command, StateMachine};
use tempfile::TempDir;
use tokio::time::sleep;

use crate::storage::RocksDBStateMachine;
use crate::storage::RocksDBStorageEngine;
use crate::storage::RocksDBUnifiedEngine;

async fn sm_with_lease(path: std::path::PathBuf) -> (RocksDBStorageEngine, RocksDBStateMachine) {
    let (storage, mut sm) = RocksDBUnifiedEngine::open(&path).unwrap();
    let lease = std::sync::Arc::new(crate::storage::TtlLease::new(
        d_engine_core::config::LeaseConfig {
            cleanup_interval_ms: 1000,
            max_cleanup_duration_ms: 50,
        },
    ));
    sm.set_lease(lease);
    sm.load_lease_data().await.unwrap();
    (storage, sm)
}

fn insert(
    index: u64,
    key: &[u8],
    value: &[u8],
    ttl: Option<u64>,
) -> ApplyEntry {
    ApplyEntry {
        index,
        term: 1,
        command: Command::Insert {
            key: Bytes::copy_from_slice(key),
            value: Bytes::copy_from_slice(value),
            ttl_secs: ttl,
        },
    }
}

/// Insert{k,v1,ttl=1s}; Insert{k,v2,ttl=None}; wait; cleanup; get(k) must still be v2.
/// EXPECTED TO FAIL on current code.
#[tokio::test]
async fn f23x_rocksdb_insert_without_ttl_must_clear_previous_ttl() {
    let dir = TempDir::new().unwrap();
    let (_storage, sm) = sm_with_lease(dir.path().join("rocksdb")).await;

    sm.apply_chunk(&[insert(1, b"k", b"v1", Some(1))]).await.unwrap();
    sm.apply_chunk(&[insert(2, b"k", b"v2", None)]).await.unwrap();
    assert_eq!(sm.get(b"k").unwrap(), Some(Bytes::from("v2")));

    sleep(Duration::from_millis(1300)).await;
    let cleaned = sm.lease_background_cleanup().await.unwrap();
    let got = sm.get(b"k").unwrap();
    println!("F23x rocksdb insert: cleanup deleted {cleaned:?}; get(k) = {got:?}");

    assert_eq!(
        got,
        Some(Bytes::from("v2")),
        "v2 was written WITHOUT ttl but was deleted by the TTL of the overwritten v1"
    );
}

/// Insert{k,v1,ttl=1s}; CAS{k, v1 -> v2} (success); wait; cleanup; get(k) must still be v2.
/// EXPECTED TO FAIL on current code.
#[tokio::test]
async fn f23x_rocksdb_cas_must_clear_previous_ttl() {
    let dir = TempDir::new().unwrap();
    let (_storage, sm) = sm_with_lease(dir.path().join("rocksdb")).await;

    sm.apply_chunk(&[insert(1, b"k", b"v1", Some(1))]).await.unwrap();
    let res = sm
        .apply_chunk(&[ApplyEntry {
            index: 2,
            term: 1,
            command: Command::CompareAndSwap {
                key: Bytes::from_static(b"k"),
                expected: Some(Bytes::from_static(b"v1")),
                value: Bytes::from_static(b"v2"),
            },
        }])
        .await
        .unwrap();
    println!("F23x rocksdb cas: apply result = {res:?}");
    assert_eq!(sm.get(b"k").unwrap(), Some(Bytes::from("v2")));

    sleep(Duration::from_millis(1300)).await;
    let cleaned = sm.lease_background_cleanup().await.unwrap();
    let got = sm.get(b"k").unwrap();
    println!("F23x rocksdb cas: cleanup deleted {cleaned:?}; get(k) = {got:?}");

    assert_eq!(got, Some(Bytes::from("v2")), "CAS-written value deleted by stale TTL of v1");
}
