//! F17d repro (C17: "Snapshot transfers are all-or-nothing ... a completed snapshot file appears atomically").
//!
//! Part 1 (creation side): `create_snapshot` publishes the new snapshot metadata inside
//!   `generate_snapshot_data` and only afterwards `compress_directory` does
//!   `File::create(final_path)` and streams the archive into the FINAL name (no temp + rename).
//!   The spawned snapshot task is killed (task abort == process death at an await point) while the
//!   archive is being written.
//! Part 2: the leader then serves exactly that truncated file (`load_snapshot_data`) and a follower
//!   with pre-existing state receives it through `apply_snapshot_stream_from_leader`.
//! Part 3: deterministic sweep over truncation points of a complete archive.

use std::path::Path;
use std::sync::Arc;
use std::sync::atomic::AtomicUsize;
use std::time::Duration;

use bytes::Bytes;
use bytes::BytesMut;
use d_engine_core::DefaultStateMachineHandler;
use d_engine_core::LogSizePolicy;
use d_engine_core::SnapshotConfig;
use d_engine_core::StateMachine;
use d_engine_core::StateMachineHandler;
use d_engine_proto::client::WriteCommand;
use d_engine_proto::common::Entry;
use d_engine_proto::common::EntryPayload;
use d_engine_proto::server::storage::SnapshotMetadata;
use futures::StreamExt;
use prost::Message;
use tempfile::TempDir;
use tokio::sync::mpsc;

use crate::node::RaftTypeConfig;
use crate::storage::FileStateMachine;
use crate::storage::FileStorageEngine;

type TC = RaftTypeConfig<FileStorageEngine, FileStateMachine>;
type Handler = DefaultStateMachineHandler<TC>;

fn cfg(dir: &Path) -> SnapshotConfig {
    std::fs::create_dir_all(dir).unwrap();
    let mut c = d_engine_core::snapshot_config(dir.to_path_buf());
    c.chunk_size = 64 * 1024;
    c.retained_log_entries = 1;
    c.cleanup_retain_count = 2;
    c
}

fn handler(
    node_id: u32,
    sm: Arc<FileStateMachine>,
    snaps: &Path,
) -> Arc<Handler> {
    let last = sm.last_applied().index;
    Arc::new(Handler::new(
        node_id,
        last,
        sm,
        cfg(snaps),
        LogSizePolicy::new(1_000_000, Duration::from_secs(0)),
        None,
        Arc::new(AtomicUsize::new(0)),
    ))
}

fn insert_entry(
    index: u64,
    key: Vec<u8>,
    value: Vec<u8>,
) -> Entry {
    let mut buf = BytesMut::new();
    WriteCommand::insert(Bytes::from(key), Bytes::from(value)).encode(&mut buf).unwrap();
    Entry {
        index,
        term: 1,
        payload: Some(EntryPayload::command(buf.freeze())),
    }
}

/// incompressible-ish payload so the archive is large
fn noise(
    seed: u64,
    len: usize,
) -> Vec<u8> {
    let mut x = seed.wrapping_mul(0x9E3779B97F4A7C15) | 1;
    (0..len)
        .map(|_| {
            x ^= x << 13;
            x ^= x >> 7;
            x ^= x << 17;
            (x >> 24) as u8
        })
        .collect()
}

async fn fill(
    h: &Arc<Handler>,
    from: u64,
    count: u64,
    prefix: &str,
    vlen: usize,
) {
    let mut i = from;
    while i < from + count {
        let end = (i + 200).min(from + count);
        let chunk: Vec<Entry> = (i..end)
            .map(|j| insert_entry(j, format!("{prefix}{j:08}").into_bytes(), noise(j, vlen)))
            .collect();
        h.apply_chunk(chunk).await.unwrap();
        i = end;
    }
}

/// Production sender (`load_snapshot_data`) -> production receiver (`apply_snapshot_stream_from_leader`).
async fn install(
    sender: &Arc<Handler>,
    meta: &SnapshotMetadata,
    receiver: &Arc<Handler>,
    receiver_cfg: &SnapshotConfig,
) -> Result<(), String> {
    let mut stream = sender
        .load_snapshot_data(meta.clone())
        .await
        .map_err(|e| format!("SENDER load_snapshot_data failed: {e:?}"))?;
    let (tx, rx) = mpsc::channel(8);
    let (ack_tx, mut ack_rx) = mpsc::channel(8);
    let drain = tokio::spawn(async move { while ack_rx.recv().await.is_some() {} });
    let feed = tokio::spawn(async move {
        let mut n = 0u32;
        while let Some(c) = stream.next().await {
            match c {
                Ok(c) => {
                    n += 1;
                    if tx.send(c).await.is_err() {
                        break;
                    }
                }
                Err(e) => {
                    println!("sender stream error: {e:?}");
                    break;
                }
            }
        }
        n
    });
    let r = receiver
        .apply_snapshot_stream_from_leader(1, rx, ack_tx, receiver_cfg)
        .await
        .map_err(|e| format!("RECEIVER rejected: {e:?}"));
    let sent = feed.await.unwrap_or(0);
    let _ = drain.await;
    println!("        (leader streamed {sent} chunks)");
    r
}

struct Follower {
    sm: Arc<FileStateMachine>,
    h: Arc<Handler>,
    cfg: SnapshotConfig,
    snaps: std::path::PathBuf,
}

/// follower with pre-existing state old00000001..old00000005, last_applied = 5
async fn follower_with_state(dir: &Path) -> Follower {
    let sm = Arc::new(FileStateMachine::new(dir.join("sm")).await.unwrap());
    let snaps = dir.join("snaps");
    let h = handler(2, sm.clone(), &snaps);
    fill(&h, 1, 5, "old", 16).await;
    Follower {
        cfg: cfg(&snaps),
        sm,
        h,
        snaps,
    }
}

fn follower_fingerprint(f: &Follower) -> String {
    let mut old = f.sm.scan_prefix(b"old").unwrap().entries;
    old.sort();
    format!(
        "len={} old_keys={} new_keys={} last_applied={} snapshot_metadata={:?}",
        f.sm.len(),
        old.len(),
        f.sm.scan_prefix(b"new").unwrap().entries.len(),
        f.sm.last_applied().index,
        f.sm.snapshot_metadata().map(|m| m.last_included.unwrap().index),
    )
}

fn ls(dir: &Path) -> Vec<(String, u64)> {
    let mut v: Vec<_> = std::fs::read_dir(dir)
        .map(|rd| {
            rd.map(|e| {
                let e = e.unwrap();
                (e.file_name().to_string_lossy().to_string(), e.metadata().unwrap().len())
            })
            .collect()
        })
        .unwrap_or_default();
    v.sort();
    v
}

#[tokio::test]
async fn f17d_part1_2_killed_snapshot_creation_leaves_truncated_final_file_and_leader_serves_it() {
    let tmp = TempDir::new().unwrap();
    let lsm = Arc::new(FileStateMachine::new(tmp.path().join("leader_sm")).await.unwrap());
    let lsnaps = tmp.path().join("leader_snaps");
    let leader = handler(1, lsm.clone(), &lsnaps);
    fill(&leader, 1, 3000, "new", 8 * 1024).await; // ~24 MB of state
    assert!(lsm.snapshot_metadata().is_none());

    // ---- Part 1: kill create_snapshot while compress_directory is writing the FINAL file ----
    let task = {
        let leader = leader.clone();
        tokio::spawn(async move { leader.create_snapshot().await })
    };
    let final_file = loop {
        if let Some((name, len)) =
            ls(&lsnaps).into_iter().find(|(n, l)| n.ends_with(".tar.gz") && *l >= 1024 * 1024)
        {
            break (name, len);
        }
        assert!(!task.is_finished(), "snapshot finished before we could kill it; enlarge state");
        tokio::time::sleep(Duration::from_micros(200)).await;
    };
    task.abort();
    let join = task.await;
    assert!(join.is_err() && join.unwrap_err().is_cancelled(), "task must have been killed mid-way");
    tokio::time::sleep(Duration::from_millis(200)).await;

    let files = ls(&lsnaps);
    let published = lsm.snapshot_metadata();
    println!("[F17d/1] final-named file when the kill was issued: {final_file:?}");
    println!("[F17d/1] leader snapshots dir after kill: {files:?}");
    println!("[F17d/1] leader sm.snapshot_metadata() after kill: {published:?}");
    println!(
        "[F17d/1] handler.get_latest_snapshot_metadata(): {:?}",
        leader.get_latest_snapshot_metadata().map(|m| m.last_included)
    );
    let (fname, flen) = files.iter().find(|(n, _)| n.ends_with(".tar.gz")).cloned().unwrap();
    let meta = published.expect("metadata was published before the archive existed");
    let li = meta.last_included.unwrap();
    assert_eq!(fname, format!("snapshot-{}-{}.tar.gz", li.index, li.term));

    // ---- Part 2: leader serves it; follower with existing state receives it ----
    let f = follower_with_state(&tmp.path().join("follower")).await;
    let before = follower_fingerprint(&f);
    let res = install(&leader, &meta, &f.h, &f.cfg).await;
    let after = follower_fingerprint(&f);
    println!("[F17d/2] follower before: {before}");
    println!("[F17d/2] install result : {res:?}");
    println!("[F17d/2] follower after : {after}");
    println!("[F17d/2] follower snapshots dir: {:?}", ls(&f.snaps));

    // Reference: size of a complete archive of the very same state (separate dir, same SM).
    let ref_h = handler(9, lsm.clone(), &tmp.path().join("ref_snaps"));
    let (_m, ref_path) = ref_h.create_snapshot().await.unwrap();
    let full_len = std::fs::metadata(&ref_path).unwrap().len();
    println!("[F17d/1] file under FINAL name has {flen} bytes; a complete archive of the same state has {full_len} bytes");
    assert!(flen < full_len, "file under the FINAL name is truncated: {flen} < {full_len}");

    // Property-demanded behaviour for the receiver: all-or-nothing.
    match res {
        Err(_) => assert_eq!(before, after, "rejected transfer must leave follower state untouched"),
        Ok(()) => assert_eq!(
            f.sm.scan_prefix(b"new").unwrap().entries.len(),
            3000,
            "accepted transfer must contain the complete state"
        ),
    }
}

#[tokio::test]
async fn f17d_part3_truncation_sweep_receiver_all_or_nothing() {
    let tmp = TempDir::new().unwrap();
    let lsm = Arc::new(FileStateMachine::new(tmp.path().join("leader_sm")).await.unwrap());
    let lsnaps = tmp.path().join("leader_snaps");
    let leader = handler(1, lsm.clone(), &lsnaps);
    fill(&leader, 1, 300, "new", 2048).await; // ~600 KB
    let (meta, path) = leader.create_snapshot().await.unwrap();
    let full = std::fs::read(&path).unwrap();
    let n = full.len();
    println!("[F17d/3] complete archive: {} bytes at {:?}, metadata {:?}", n, path, meta.last_included);

    let cuts = [0usize, 5, 10, 64, 4096, n / 4, n / 2, n - 4096, n - 100, n - 9, n - 8, n - 1, n];
    let mut bad = Vec::new();
    for (i, cut) in cuts.iter().copied().enumerate() {
        std::fs::write(&path, &full[..cut]).unwrap(); // what a kill during compress_directory leaves
        let f = follower_with_state(&tmp.path().join(format!("follower{i}"))).await;
        let before = follower_fingerprint(&f);
        let res = install(&leader, &meta, &f.h, &f.cfg).await;
        let after = follower_fingerprint(&f);
        let new_keys = f.sm.scan_prefix(b"new").unwrap().entries.len();
        let verdict = match &res {
            Err(_) if before == after => "rejected, follower untouched",
            Err(_) => "REJECTED BUT FOLLOWER STATE CHANGED",
            Ok(()) if new_keys == 300 => "accepted, complete state",
            Ok(()) => "ACCEPTED WITH PARTIAL STATE",
        };
        println!(
            "[F17d/3] cut={cut:>7}/{n}: {verdict}\n        result={:?}\n        before: {before}\n        after : {after}\n        follower snapshots dir: {:?}",
            res.as_ref().map_err(|e| e.chars().take(160).collect::<String>()),
            ls(&f.snaps)
        );
        if verdict.chars().next().unwrap().is_uppercase() {
            bad.push(format!("cut={cut}: {verdict}"));
        }
    }
    std::fs::write(&path, &full).unwrap();
    assert!(bad.is_empty(), "receiver not all-or-nothing: {bad:?}");
}
