#!/bin/sh
# Build the extractor and warm the dependency target dir (offline).  Cold: ~3 min.
set -e
cd "$(dirname "$0")"
export CARGO_NET_OFFLINE=true
(cd engine/extractor && cargo build --release --offline)
python3 engine/raftlint/extract.py full
echo "setup ok"
