#!/bin/sh
# Build the extractor and warm the dependency target dirs (offline, from files on disk only).
# Cold: ~3 min for the default feature set + ~3 min for the reduced one used by the thorough tier.
set -e
cd "$(dirname "$0")"
export CARGO_NET_OFFLINE=true
(cd engine/extractor && cargo build --release --offline)
python3 engine/raftlint/extract.py full
python3 engine/raftlint/extract.py min || echo "warning: reduced feature set could not be warmed (thorough tier will retry)"
echo "setup ok"
