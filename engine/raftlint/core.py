"""raftlint core: fact loading, CFG, dominance over an edge-split graph, guard conditions,
value provenance slices, call graph with class-hierarchy expansion, transitive effects.

Everything here is computed from the MIR facts the extractor dumped from the type-checked
program; no d-engine code is executed."""
import glob
import json
import os
import pickle
import re
from collections import defaultdict, deque

NOISE_MACRO_PREFIXES = ("tracing::", "log::", "metrics::", "tracing_core::", "tracing_attributes::")
NOISE_MACROS_EXACT = ("core::macros::debug_assert", "core::macros::debug_assert_eq",
                      "core::macros::debug_assert_ne")


def is_noise_exp(exp):
    if not exp:
        return False
    for e in exp:
        if e.startswith(NOISE_MACRO_PREFIXES) or e in NOISE_MACROS_EXACT:
            return True
    return False


def strip_generics(s):
    """`a::B::<T>::c` -> `a::B::c`, `a::B<T>` -> `a::B` (angle brackets removed, depth-aware)."""
    out = []
    depth = 0
    i = 0
    while i < len(s):
        c = s[i]
        if c == '<':
            depth += 1
        elif c == '>':
            depth -= 1
        elif depth == 0:
            out.append(c)
        i += 1
    r = "".join(out)
    while "::::" in r:
        r = r.replace("::::", "::")
    return r.rstrip(":")


def split_qualified(fid):
    """`<A<T> as B<T>>::rest` -> (A, B, rest) with generics stripped; plain paths -> (None, None, path)"""
    if fid.startswith("<"):
        depth = 0
        for i, ch in enumerate(fid):
            if ch == "<":
                depth += 1
            elif ch == ">":
                depth -= 1
                if depth == 0:
                    inner = fid[1:i]
                    rest = fid[i + 1:].lstrip(":")
                    d2 = 0
                    for j in range(len(inner)):
                        c2 = inner[j]
                        if c2 == "<":
                            d2 += 1
                        elif c2 == ">":
                            d2 -= 1
                        elif d2 == 0 and inner.startswith(" as ", j):
                            return strip_generics(inner[:j]), strip_generics(inner[j + 4:]), strip_generics(rest)
                    return strip_generics(inner), None, strip_generics(rest)
    return None, None, strip_generics(fid)


_NV_CACHE = {}


def name_variants(k):
    """generic-stripped spellings of a callee path: for `<A as B>::m` -> [`A::m`, `B::m`, raw-stripped]"""
    r = _NV_CACHE.get(k)
    if r is None:
        a, b, rest = split_qualified(k)
        if a is None:
            r = [rest]
        else:
            r = ["%s::%s" % (a, rest)]
            if b:
                r.append("%s::%s" % (b, rest))
            r.append(strip_generics(k))
        _NV_CACHE[k] = r
    return r


class Body(object):
    def __init__(self, j, crate):
        self.j = j
        self.id = j["id"]
        self.crate = crate
        self.kind = j["kind"]
        self.parent = j.get("parent")
        self.file = j["file"]
        self.line = j["line"]
        self.argc = j["argc"]
        self.coroutine = j.get("coroutine", False)
        self.vis = j.get("vis")
        self.impl_of = j.get("impl_of")
        self.self_ty = j.get("self_ty")
        self.upvars = j.get("upvars", [])
        self.locals = j["locals"]
        self.blocks = j["blocks"]
        self._succ = None
        self._pred = None
        self._dom = None
        self._defs = None
        self._edges = None
        self._reach_cache = {}

    def __repr__(self):
        return "<Body %s>" % self.id

    # ------------------------------------------------------------------ basic access
    def term(self, bi):
        return self.blocks[bi]["t"]

    def stmts(self, bi):
        return self.blocks[bi]["st"]

    def local_name(self, l):
        return self.locals[l].get("n")

    def local_ty(self, l):
        return self.locals[l]["ty"]

    def loc(self, bi):
        t = self.term(bi)
        return "%s:%s" % (self.file, t.get("ln", self.line))

    def n(self):
        return len(self.blocks)

    # ------------------------------------------------------------------ CFG
    def succ(self, bi):
        """normal (non-unwind, non-imaginary, non-drop) successors"""
        if self._succ is None:
            self._succ = [self._succ_of(i) for i in range(len(self.blocks))]
        return self._succ[bi]

    def _succ_of(self, bi):
        t = self.blocks[bi]["t"]
        k = t["k"]
        if k in ("goto", "drop", "assert", "falseedge", "falseunwind"):
            return [t["t"]]
        if k == "switch":
            known = self._known_switch_target(bi, t)
            if known is not None:
                return [known]
            r = []
            for _v, tb in t["ts"]:
                if tb not in r:
                    r.append(tb)
            if t["else"] not in r:
                r.append(t["else"])
            return r
        if k == "call":
            return [t["t"]] if t["t"] is not None else []
        if k == "yield":
            return [t["t"]]
        return []

    def _known_switch_target(self, bi, t):
        """`let x = Variant{..}; match x {..}` inside ONE block (the `if let Some(r) = None::<T> { return r }` prologue that
        #[async_trait] emits, a matched literal): the switch tests the discriminant of an aggregate built just above it, only the
        edge of that variant is feasible.  Returns the single feasible target or None."""
        d = t.get("d") or {}
        if "p" not in d or d["p"].get("pj"):
            return None
        dl = d["p"]["l"]
        sts = self.blocks[bi]["st"]
        disc = [st for st in sts if st.get("lhs", {}).get("l") == dl and not st["lhs"].get("pj")]
        if len(disc) != 1 or disc[0].get("rv", {}).get("k") != "discr":
            return None
        pl = disc[0]["rv"].get("pl") or {}
        if pl.get("pj"):
            return None
        src = pl.get("l")
        aggs = [st for st in sts if st.get("lhs", {}).get("l") == src and not st["lhs"].get("pj")]
        if len(aggs) != 1 or aggs[0].get("rv", {}).get("k") != "agg" or sts.index(aggs[0]) > sts.index(disc[0]):
            return None
        # the aggregate must be the only definition of that local in the whole body
        n_defs = 0
        for blk in self.blocks:
            for st in blk["st"]:
                if st.get("lhs", {}).get("l") == src and not st["lhs"].get("pj"):
                    n_defs += 1
            tt = blk["t"]
            if tt.get("k") == "call" and isinstance(tt.get("dest"), dict) and tt["dest"].get("l") == src:
                n_defs += 1
        if n_defs != 1:
            return None
        v = aggs[0]["rv"].get("v")
        val = None
        for (num, name) in disc[0]["rv"].get("vs", []):
            if name == v:
                val = num
        if val is None:
            return None
        for (num, tb) in t["ts"]:
            if str(num) == str(val):
                return tb
        return t["else"]

    def pred(self, bi):
        if self._pred is None:
            p = [[] for _ in self.blocks]
            for i in range(len(self.blocks)):
                for s in self.succ(i):
                    p[s].append(i)
            self._pred = p
        return self._pred[bi]

    def reachable(self):
        seen = {0}
        dq = deque([0])
        while dq:
            b = dq.popleft()
            for s in self.succ(b):
                if s not in seen:
                    seen.add(s)
                    dq.append(s)
        return seen

    def exits(self):
        return [i for i in self.reachable() if self.term(i)["k"] == "return"]

    # ------------------------------------------------------------------ edge-split graph
    # node ids: 0..n-1 blocks; n.. = edge nodes for switch edges (one per (block,target))
    def edges(self):
        """list of edge nodes: dict(id, src, dst, vals (list of str or 'else'))"""
        if self._edges is None:
            n = len(self.blocks)
            es = []
            by = {}
            for bi, b in enumerate(self.blocks):
                t = b["t"]
                if t["k"] != "switch":
                    continue
                for v, tb in t["ts"]:
                    key = (bi, tb)
                    if key not in by:
                        by[key] = {"id": n + len(es), "src": bi, "dst": tb, "vals": []}
                        es.append(by[key])
                    by[key]["vals"].append(v)
                key = (bi, t["else"])
                if key not in by:
                    by[key] = {"id": n + len(es), "src": bi, "dst": t["else"], "vals": []}
                    es.append(by[key])
                by[key]["vals"].append("else")
            self._edges = es
            self._edge_by = by
        return self._edges

    def edge(self, src, dst):
        self.edges()
        return self._edge_by.get((src, dst))

    def gsucc(self, node, removed=frozenset()):
        """successors in the edge-split graph"""
        n = len(self.blocks)
        if node >= n:
            e = self._edges[node - n]
            return [e["dst"]]
        t = self.blocks[node]["t"]
        if t["k"] == "switch":
            self.edges()
            r = []
            for s in self.succ(node):
                eid = self._edge_by[(node, s)]["id"]
                if eid not in removed:
                    r.append(eid)
            return r
        return self.succ(node)

    def reach_from(self, start, removed_edges=frozenset(), avoid_blocks=frozenset(), stop_blocks=frozenset()):
        """set of blocks reachable from block `start` in the edge-split graph with some edge
        nodes removed, never entering avoid_blocks; does not expand past stop_blocks."""
        self.edges()
        seen = set()
        parent = {}
        if start in avoid_blocks:
            return seen, parent
        seen.add(start)
        dq = deque([start])
        while dq:
            x = dq.popleft()
            if x in stop_blocks and x != start:
                continue
            for s in self.gsucc(x, removed_edges):
                if s in seen or s in avoid_blocks:
                    continue
                seen.add(s)
                parent[s] = x
                dq.append(s)
        return seen, parent

    def path_to(self, parent, start, goal):
        p = [goal]
        while p[-1] != start and p[-1] in parent:
            p.append(parent[p[-1]])
        p.reverse()
        n = len(self.blocks)
        return [x for x in p if x < n]

    # ------------------------------------------------------------------ dominators (block graph)
    def dominators(self):
        """idom over the plain block CFG (Cooper-Harvey-Kennedy)."""
        if self._dom is not None:
            return self._dom
        order = []
        seen = set()
        stack = [(0, iter(self.succ(0)))]
        seen.add(0)
        while stack:
            node, it = stack[-1]
            adv = False
            for s in it:
                if s not in seen:
                    seen.add(s)
                    stack.append((s, iter(self.succ(s))))
                    adv = True
                    break
            if not adv:
                order.append(node)
                stack.pop()
        rpo = list(reversed(order))
        num = {b: i for i, b in enumerate(rpo)}
        idom = {0: 0}
        changed = True
        while changed:
            changed = False
            for b in rpo[1:]:
                new = None
                for p in self.pred(b):
                    if p in idom:
                        if new is None:
                            new = p
                        else:
                            a, c = p, new
                            while a != c:
                                while num[a] > num[c]:
                                    a = idom[a]
                                while num[c] > num[a]:
                                    c = idom[c]
                            new = a
                if new is not None and idom.get(b) != new:
                    idom[b] = new
                    changed = True
        self._dom = idom
        return idom

    def dominates(self, a, b):
        idom = self.dominators()
        if b not in idom or a not in idom:
            return False
        x = b
        while True:
            if x == a:
                return True
            if x == 0:
                return a == 0
            x = idom[x]

    # ------------------------------------------------------------------ calls
    def calls(self, include_noise=False):
        """yield (block index, terminator) for call terminators on reachable blocks"""
        for bi, b in enumerate(self.blocks):
            t = b["t"]
            if t["k"] in ("call", "tailcall"):
                if b.get("cleanup"):
                    continue
                if not include_noise and is_noise_exp(t.get("exp")):
                    continue
                yield bi, t

    # ------------------------------------------------------------------ definitions
    def defs(self):
        """local -> list of definitions: ('assign', bi, si, stmt) | ('call', bi, term) | ('yield', bi, term)"""
        if self._defs is None:
            d = defaultdict(list)
            for bi, b in enumerate(self.blocks):
                if b.get("cleanup"):
                    continue
                for si, st in enumerate(b["st"]):
                    if "lhs" in st:
                        d[st["lhs"]["l"]].append(("assign", bi, si, st))
                t = b["t"]
                if t["k"] == "call":
                    d[t["dest"]["l"]].append(("call", bi, t))
                elif t["k"] == "yield":
                    d[t["ra"]["l"]].append(("yield", bi, t))
            self._defs = d
        return self._defs


def callee_key(t):
    """canonical callee name of a call terminator: resolved instance if known, else declared path"""
    f = t["f"]
    if "fn" not in f:
        return None
    return f.get("res") or f["fn"]


def callee_decl(t):
    f = t["f"]
    return f.get("fn")


class Facts(object):
    def __init__(self, facts_dir, crates=("d_engine_core", "d_engine_server", "d_engine_client", "d_engine_proto", "d_engine")):
        self.dir = facts_dir
        self.bodies = {}
        self.crate_info = {}
        self.impls = []
        self.adts = {}
        self.traits = {}
        comp = json.load(open(os.path.join(facts_dir, "COMPLETE.json")))
        self.info = comp.get("info", {})
        for c in crates:
            fn = comp["files"].get(c)
            if not fn:
                continue
            p = os.path.join(facts_dir, fn)
            pk = p + ".pickle"
            if os.path.exists(pk):
                with open(pk, "rb") as fh:
                    j = pickle.load(fh)
            else:
                with open(p) as fh:
                    j = json.load(fh)
                try:
                    with open(pk + ".tmp%d" % os.getpid(), "wb") as fh:
                        pickle.dump(j, fh, protocol=pickle.HIGHEST_PROTOCOL)
                    os.replace(pk + ".tmp%d" % os.getpid(), pk)
                except Exception:
                    pass
            self.crate_info[c] = {"body_owners": j["body_owners"], "bodies_seen": j["bodies_seen"]}
            for b in j["bodies"]:
                self.bodies[b["id"]] = Body(b, c)
            for im in j.get("impls", []):
                im["crate"] = c
                self.impls.append(im)
            for a in j.get("adts", []):
                self.adts[a["path"]] = a
            for t in j.get("traits", []):
                self.traits[t["path"]] = t
        self._index()

    # ------------------------------------------------------------------ indices
    def _index(self):
        # body groups
        self.root_of = {}
        for bid, b in self.bodies.items():
            x = b
            seen = 0
            while x.parent and x.parent in self.bodies and seen < 50:
                x = self.bodies[x.parent]
                seen += 1
            self.root_of[bid] = x.id
        self.group = defaultdict(list)
        for bid, r in self.root_of.items():
            self.group[r].append(bid)
        # trait method -> impl defs
        self.impls_of_method = defaultdict(list)  # trait method path -> [(impl self, def)]
        for im in self.impls:
            for it in im["items"]:
                if "of" in it:
                    self.impls_of_method[it["of"]].append((im["self"], it["def"]))
        self.trait_method_default = {}
        for tp, t in self.traits.items():
            for it in t["items"]:
                self.trait_method_default[it["def"]] = it["default"]
        self._callees = {}
        self._reach = {}

    def completeness(self):
        """(ok, detail): every body owner of every crate was seen by the mir_built override"""
        bad = {c: i for c, i in self.crate_info.items() if i["body_owners"] != i["bodies_seen"]}
        return (not bad), self.crate_info

    # ------------------------------------------------------------------ lookup helpers
    def find(self, pattern, kinds=None):
        """bodies whose id matches the regex (search)"""
        rx = re.compile(pattern)
        return [b for bid, b in self.bodies.items() if rx.search(bid) and (kinds is None or b.kind in kinds)]

    def fn(self, suffix):
        """the unique root function whose generic-stripped id ends with `suffix`"""
        c = [b for bid, b in self.bodies.items() if b.parent is None and b.kind in ("Fn", "AssocFn")
             and (strip_generics(bid) == suffix or strip_generics(bid).endswith("::" + suffix))]
        if len(c) != 1:
            raise AnchorMissing("function `%s`: %d candidates %s" % (suffix, len(c), [x.id for x in c][:6]))
        return c[0]

    def method(self, self_adt, name, trait=None):
        """root function that is method `name` of type whose path ends with self_adt (inherent or trait impl)"""
        c = []
        for bid, b in self.bodies.items():
            if b.parent is not None or b.kind != "AssocFn":
                continue
            if not b.self_ty:
                continue
            st = strip_generics(b.self_ty)
            if not (st == self_adt or st.endswith("::" + self_adt)):
                continue
            if not strip_generics(bid).endswith("::" + name):
                continue
            if trait is not None:
                if not b.impl_of or not strip_generics(b.impl_of).endswith(trait + "::" + name):
                    continue
            c.append(b)
        if len(c) != 1:
            raise AnchorMissing("method `%s::%s`%s: %d candidates %s" % (self_adt, name, " (trait %s)" % trait if trait else "", len(c), [x.id for x in c][:6]))
        return c[0]

    def try_method(self, self_adt, name, trait=None):
        try:
            return self.method(self_adt, name, trait)
        except AnchorMissing:
            return None

    def main_body(self, root):
        """the body holding the real CFG of a source-level function: for `async fn` and
        #[async_trait] methods that is the `{closure#0}` coroutine."""
        if isinstance(root, Body):
            root = root.id
        b = self.bodies[root]
        c = self.bodies.get(root + "::{closure#0}")
        if c is not None and c.coroutine and len(b.blocks) <= 12:
            # #[tracing::instrument] on an async fn wraps the real body in one more async block
            for _ in range(2):
                inner = self.bodies.get(c.id + "::{closure#0}")
                if inner is not None and inner.coroutine and any(
                        "tracing_attributes::instrument" in (blk["t"].get("exp") or []) for blk in c.blocks if blk["t"]["k"] == "call"):
                    c = inner
                else:
                    break
            return c
        return b

    def group_bodies(self, root):
        if isinstance(root, Body):
            root = root.id
        return [self.bodies[x] for x in self.group.get(self.root_of.get(root, root), [])]

    # ------------------------------------------------------------------ call graph
    def resolve_targets(self, t):
        """call terminator -> list of root function ids it may invoke (workspace functions only;
        class-hierarchy expansion for unresolved trait-method calls)"""
        f = t["f"]
        if "fn" not in f:
            return []
        res = f.get("res")
        decl = f["fn"]
        if "tr" not in f:
            k = res or decl
            return [k] if k in self.bodies else []
        concrete_self = bool(f.get("self_adt") or f.get("self_closure")) and not f.get("self_dyn")
        if res and res != decl:
            return [res] if res in self.bodies else []
        out = []
        if decl in self.bodies:
            out.append(decl)  # default method body
        if res == decl and concrete_self:
            return out
        sadt = f.get("self_adt") if concrete_self else None
        for (s, d) in self.impls_of_method.get(decl, []):
            if sadt and strip_generics(s) != sadt:
                continue
            if d in self.bodies and d not in out:
                out.append(d)
        return out

    def callees(self, root):
        """root fn id -> list of (callee_key, targets, body_id, block) over the whole body group"""
        if isinstance(root, Body):
            root = root.id
        root = self.root_of.get(root, root)
        if root in self._callees:
            return self._callees[root]
        r = []
        for b in self.group_bodies(root):
            for bi, t in b.calls():
                k = callee_key(t)
                if k is None:
                    continue
                r.append((k, self.resolve_targets(t), b.id, bi))
        self._callees[root] = r
        return r

    def reach_calls(self, root, depth=6):
        """transitive closure: dict callee_key (also declared path) -> shortest call chain (list of fn ids)"""
        if isinstance(root, Body):
            root = root.id
        root = self.root_of.get(root, root)
        ck = (root, depth)
        if ck in self._reach:
            return self._reach[ck]
        found = {}
        seen = {root: [root]}
        dq = deque([(root, 0)])
        while dq:
            fn, d = dq.popleft()
            chain = seen[fn]
            for (k, targets, _bid, _bi) in self.callees(fn):
                if k not in found:
                    found[k] = chain + [k]
                for tg in targets:
                    if tg not in found:
                        found[tg] = chain + [tg]
                    if tg not in seen and d + 1 < depth:
                        seen[tg] = chain + [tg]
                        dq.append((tg, d + 1))
        self._reach[ck] = found
        return found

    def fn_reaches(self, root, pred, depth=6):
        """first (key, chain) of a transitively reached callee satisfying pred(key)"""
        for k, chain in self.reach_calls(root, depth).items():
            if pred(k):
                return k, chain
        return None

    def call_reaches(self, t, pred, depth=6):
        """does this call terminator reach (directly or transitively) a callee satisfying pred"""
        k = callee_key(t)
        if k is None:
            return None
        if pred(k) or pred(callee_decl(t)):
            return [k]
        for tg in self.resolve_targets(t):
            if pred(tg):
                return [tg]
            r = self.fn_reaches(tg, pred, depth - 1)
            if r:
                return r[1]
        return None

    def callers_of(self, pred):
        """all (root fn id, body id, block, terminator) whose callee (resolved or declared, or any CHA target) satisfies pred"""
        out = []
        for bid, b in self.bodies.items():
            for bi, t in b.calls():
                k = callee_key(t)
                if k is None:
                    continue
                if pred(k) or pred(callee_decl(t)) or any(pred(x) for x in self.resolve_targets(t)):
                    out.append((self.root_of[bid], bid, bi, t))
        return out


class AnchorMissing(Exception):
    pass


# ---------------------------------------------------------------------- value provenance
TRANSPARENT = re.compile(
    r"^(core::clone::Clone::clone|<.* as core::clone::Clone>::clone|core::convert::(Into::into|From::from|AsRef::as_ref|TryFrom::try_from|TryInto::try_into)"
    r"|<.* as core::convert::(Into|From|AsRef|TryFrom|TryInto)<.*>>::\w+"
    r"|core::ops::deref::Deref(Mut)?::deref(_mut)?|<.* as core::ops::deref::Deref(Mut)?>::deref(_mut)?"
    r"|core::ops::try_trait::Try::branch|<.* as core::ops::try_trait::Try>::branch"
    r"|core::ops::try_trait::FromResidual::from_residual|<.* as core::ops::try_trait::FromResidual<.*>>::from_residual"
    r"|core::option::Option::<&T>::(cloned|copied)|core::option::Option::<&mut T>::(cloned|copied)|alloc::slice::<impl \[T\]>::to_vec|core::mem::take|core::mem::replace"
    r"|core::option::Option::<T>::(unwrap|expect|unwrap_or|unwrap_or_default|unwrap_or_else|as_ref|as_mut|cloned|copied|map|ok_or|ok_or_else|take|as_deref|and_then|or|or_else|filter|unwrap_unchecked)"
    r"|core::result::Result::<T, E>::(unwrap|expect|unwrap_or|unwrap_or_default|unwrap_or_else|as_ref|as_mut|map|map_err|ok|and_then)"
    r"|core::cmp::Ord::(min|max)|core::cmp::(min|max)|<.* as core::cmp::Ord>::(min|max)"
    r"|core::num::<impl \w+>::(saturating_\w+|wrapping_\w+|checked_\w+|min|max|pow|abs_diff)"
    r"|core::future::into_future::IntoFuture::into_future|<.* as core::future::into_future::IntoFuture>::into_future"
    r"|core::future::future::Future::poll|<.* as core::future::future::Future>::poll"
    r"|core::future::get_context|core::pin::Pin::<Ptr>::(new_unchecked|new|as_mut|get_mut)|alloc::boxed::Box::<T>::(new|pin)"
    r"|alloc::sync::Arc::<T>::new|core::borrow::Borrow::borrow|alloc::borrow::ToOwned::to_owned"
    r"|core::iter::traits::iterator::Iterator::(map|filter|cloned|copied|collect|enumerate|zip|rev|take|skip|chain|peekable|next|last|max|min|sum|count|filter_map|flat_map)"
    r"|<.* as core::iter::traits::iterator::Iterator>::(map|filter|cloned|copied|collect|enumerate|zip|rev|take|skip|chain|next|last|max|min|sum|count|filter_map)"
    r"|core::iter::traits::collect::IntoIterator::into_iter|<.* as core::iter::traits::collect::IntoIterator>::into_iter"
    r"|core::slice::<impl \[T\]>::(iter|len|first|last|get|to_vec|iter_mut)|alloc::vec::Vec::<T>::(len|iter|first|last|get|as_slice)"
    r"|alloc::vec::Vec::<T, A>::(len|as_slice|first|last)"
    r"|core::sync::atomic::Atomic\w*::<\w+>::load|core::sync::atomic::Atomic\w*::load"
    r"|core::ops::range::RangeInclusive::<Idx>::(start|end|new)|core::ops::range::Range::<Idx>::(start|end)"
    r"|(std::collections|alloc::collections|hashbrown)::.*::(len|iter|get|first|last|keys|values|first_key_value|last_key_value|entry|or_insert|or_insert_with|or_default|get_mut|and_modify)"
    r")$")


def place_fields(pl):
    """[(adt, field, variant)] projections of a place"""
    out = []
    for e in pl.get("pj", []):
        if isinstance(e, dict) and "f" in e:
            out.append((e["adt"], e["f"], e.get("v")))
    return out


def place_upvars(pl):
    return [e["up"] for e in pl.get("pj", []) if isinstance(e, dict) and "up" in e]


class Slice(object):
    """Backward value-provenance slice of an operand inside one body (flow-insensitive per local,
    field-recording).  `sources` is a set of tuples:
      ('const', text) ('param', idx, name) ('upvar', name) ('field', adt, name)
      ('call', callee_key) ('binop', op) ('agg', adt, variant) ('discr', adt) ('yield',)"""

    def __init__(self, facts, body, through_calls=False, max_nodes=4000):
        self.facts = facts
        self.body = body
        self.through_calls = through_calls
        self.sources = set()
        self.call_sites = []  # (bi, terminator)
        self.seen = set()
        self.max_nodes = max_nodes

    def operand(self, op):
        if "p" in op:
            self.place(op["p"])
        elif "fn" in op:
            self.sources.add(("fnref", op.get("res") or op["fn"]))
        elif "c" in op:
            self.sources.add(("const", op.get("v", op["c"])))
        return self

    def place(self, pl):
        for (adt, f, _v) in place_fields(pl):
            self.sources.add(("field", adt, f))
        for u in place_upvars(pl):
            self.sources.add(("upvar", u))
            # edition-2021 disjoint captures are named like `*self.field.sub`: record the field names too
            base = u.lstrip("*&")
            if "." in base:
                parts = base.split(".")
                self.sources.add(("upvar", parts[0]))
                for seg in parts[1:]:
                    self.sources.add(("field", "<captured>", seg))
        for e in pl.get("pj", []):
            if isinstance(e, dict) and "ix" in e:
                self.local(e["ix"])
        self.local(pl["l"])
        return self

    def local(self, l):
        if l in self.seen or len(self.seen) > self.max_nodes:
            return
        self.seen.add(l)
        b = self.body
        if 1 <= l <= b.argc:
            if not (b.kind == "Closure" and l == 1):
                self.sources.add(("param", l, b.local_name(l)))
        for d in b.defs().get(l, []):
            if d[0] == "assign":
                self.rvalue(d[3]["rv"])
            elif d[0] == "call":
                t = d[2]
                k = callee_key(t)
                if k is None:
                    self.sources.add(("call", "<indirect>"))
                    for a in t["args"]:
                        self.operand(a)
                    self.operand(t["f"])
                    continue
                self.sources.add(("call", k))
                self.call_sites.append((d[1], t))
                decl = callee_decl(t)
                if self.through_calls or TRANSPARENT.match(k) or (decl and TRANSPARENT.match(decl)):
                    for a in t["args"]:
                        self.operand(a)
            elif d[0] == "yield":
                self.sources.add(("yield",))

    def rvalue(self, rv):
        k = rv["k"]
        if k in ("use", "cast", "un", "repeat"):
            if k == "un":
                self.sources.add(("unop", rv["op"]))
            self.operand(rv["a"])
        elif k in ("ref", "rawptr", "discr"):
            if k == "discr" and "adt" in rv:
                self.sources.add(("discr", rv["adt"]))
            self.place(rv["pl"])
        elif k == "bin":
            self.sources.add(("binop", rv["op"]))
            self.operand(rv["a"])
            self.operand(rv["b"])
        elif k == "agg":
            if "adt" in rv:
                self.sources.add(("agg", rv["adt"], rv["v"]))
            if "closure" in rv:
                self.sources.add(("closure", rv["closure"]))
            for o in rv["ops"]:
                self.operand(o)

    # convenience predicates
    def has_field(self, adt_suffix, field):
        return any(s[0] == "field" and s[2] == field and (s[1] == "<captured>" or strip_generics(s[1]).endswith(adt_suffix)) for s in self.sources)

    def has_call(self, rx):
        r = re.compile(rx)
        return any(s[0] == "call" and (r.search(s[1]) or any(r.search(n) for n in name_variants(s[1]))) for s in self.sources)

    def has_param(self, name):
        return any(s[0] == "param" and s[2] == name for s in self.sources) or ("upvar", name) in self.sources

    def consts(self):
        return sorted(str(s[1]) for s in self.sources if s[0] == "const")


def slice_operand(facts, body, op, through_calls=False):
    return Slice(facts, body, through_calls).operand(op)


# ---------------------------------------------------------------------- branch conditions
class Cond(object):
    """Symbolic description of one outgoing edge of a switch."""

    def __init__(self, body, edge, kind, **kw):
        self.body = body
        self.edge = edge
        self.kind = kind  # 'cmp' | 'discr' | 'call' | 'bool' | 'int'
        self.truth = None
        self.variants = None
        self.__dict__.update(kw)

    def __repr__(self):
        d = {k: v for k, v in self.__dict__.items() if k not in ("body", "edge")}
        return "Cond(%s)" % d


def _single_def(body, l):
    ds = body.defs().get(l, [])
    if len(ds) == 1:
        return ds[0]
    return None


def resolve_bool(body, op, depth=0):
    """Follow a bool/int operand to its defining comparison / discriminant / call.
    returns (kind, payload, negated)"""
    neg = False
    cur = op
    for _ in range(12):
        if "p" not in cur:
            return ("const", cur, neg)
        pl = cur["p"]
        if pl.get("pj"):
            return ("place", pl, neg)
        d = _single_def(body, pl["l"])
        if d is None:
            return ("place", pl, neg)
        if d[0] == "call":
            return ("call", d[2], neg)
        if d[0] == "yield":
            return ("place", pl, neg)
        rv = d[3]["rv"]
        k = rv["k"]
        if k == "use":
            cur = rv["a"]
            continue
        if k == "un" and rv["op"] == "Not":
            neg = not neg
            cur = rv["a"]
            continue
        if k == "bin" and rv["op"] in ("Lt", "Le", "Gt", "Ge", "Eq", "Ne"):
            return ("cmp", rv, neg)
        if k == "discr":
            return ("discr", rv, neg)
        return ("rv", rv, neg)
    return ("place", cur.get("p"), neg)


def edge_conditions(body):
    """edge id -> Cond"""
    out = {}
    for e in body.edges():
        t = body.term(e["src"])
        kind, payload, neg = resolve_bool(body, t["d"])
        vals = e["vals"]
        if kind == "discr":
            names = dict((v, n) for v, n in payload.get("vs", []))
            listed = set(v for v, _ in t["ts"])
            vs = set()
            for v in vals:
                if v == "else":
                    for dv, n in names.items():
                        if dv not in listed:
                            vs.add(n)
                else:
                    vs.add(names.get(v, v))
            out[e["id"]] = Cond(body, e, "discr", adt=payload.get("adt"), variants=vs, place=payload["pl"])
            continue
        # boolean-like: 0 -> false, else -> true
        truth = None
        if t["dty"] == "bool":
            if vals == ["0"]:
                truth = False
            elif vals == ["else"] or vals == ["1"]:
                truth = True
            if truth is not None and neg:
                truth = not truth
        if kind == "cmp":
            out[e["id"]] = Cond(body, e, "cmp", op=payload["op"], a=payload["a"], b=payload["b"], truth=truth)
        elif kind == "call":
            out[e["id"]] = Cond(body, e, "call", call=payload, callee=callee_key(payload), truth=truth)
        else:
            out[e["id"]] = Cond(body, e, "bool" if t["dty"] == "bool" else "int", payload=payload, truth=truth, vals=vals)
    return out


def _synthetic_cond(body, edge, op, truth):
    """Cond for 'operand op evaluates to `truth`' (used for boolean locals assigned from compound conditions)"""
    kind, payload, neg = resolve_bool(body, op)
    if neg:
        truth = not truth
    if kind == "cmp":
        return Cond(body, edge, "cmp", op=payload["op"], a=payload["a"], b=payload["b"], truth=truth)
    if kind == "call":
        return Cond(body, edge, "call", call=payload, callee=callee_key(payload), truth=truth)
    if kind == "const":
        v = payload.get("v")
        return Cond(body, edge, "const", value=(v == "true"), truth=truth)
    if kind == "place":
        c = Cond(body, edge, "bool", payload=payload, truth=truth, vals=[])
        c._synthetic_operand = op
        return c
    return None


def _derived_satisfies(body, c, pred, conds, base_removed):
    """A branch on a boolean LOCAL that was assigned in several arms (`let ok = a && b; if ok {..}`, `let bad = !x || !y`):
    taking the edge with local == T satisfies pred iff every definition that can produce T either is itself a condition
    satisfying pred (with that truth) or sits in a block that is guarded by (directly matching) pred edges."""
    if c.kind != "bool" or c.truth is None:
        return False
    pl = getattr(c, "payload", None)
    if not isinstance(pl, dict) or "l" not in pl or pl.get("pj"):
        return False
    defs = [d for d in body.defs().get(pl["l"], []) if d[0] in ("assign", "call")]
    if len(defs) < 2:
        return False
    considered = 0
    reach = None
    for d in defs:
        sc = None
        blk = d[1]
        if d[0] == "call":
            sc = Cond(body, c.edge, "call", call=d[2], callee=callee_key(d[2]), truth=c.truth)
        else:
            rv = d[3]["rv"]
            if rv["k"] == "use":
                op = rv["a"]
                if "c" in op and "p" not in op:
                    if (op.get("v") == "true") != c.truth:
                        continue      # this definition cannot lead to the edge
                else:
                    sc = _synthetic_cond(body, c.edge, op, c.truth)
            elif rv["k"] == "un" and rv["op"] == "Not":
                sc = _synthetic_cond(body, c.edge, rv["a"], not c.truth)
            elif rv["k"] == "bin" and rv["op"] in ("Lt", "Le", "Gt", "Ge", "Eq", "Ne"):
                sc = Cond(body, c.edge, "cmp", op=rv["op"], a=rv["a"], b=rv["b"], truth=c.truth)
        considered += 1
        ok = False
        if sc is not None and sc.kind != "const":
            try:
                ok = bool(pred(sc))
            except Exception:
                ok = False
        if not ok:
            if reach is None:
                reach, _p = body.reach_from(0, removed_edges=base_removed)
            ok = blk not in reach
        if not ok:
            return False
    return considered > 0


def guarded_by(body, site_block, pred, conds=None, _depth=0):
    """True iff every path from entry to site_block passes through a switch edge whose Cond
    satisfies pred.  Returns (bool, witness path avoiding all such edges or None, matching edges)."""
    if conds is None:
        conds = edge_conditions(body)
    removed = set(eid for eid, c in conds.items() if pred(c))
    # derived conditions of boolean locals - also when NO branch tests the predicate directly (`let ok = a && (x < y); if ok`:
    # the comparison is assigned, not branched on)
    base = frozenset(removed)
    for eid, c in conds.items():
        if eid not in removed and c.kind == "bool" and _derived_satisfies(body, c, pred, conds, base):
            removed.add(eid)
    # a branch all of whose outgoing edges satisfy the predicate does not guard anything
    by_src = defaultdict(list)
    for e in body.edges():
        by_src[e["src"]].append(e["id"])
    for src, eids in by_src.items():
        if all(x in removed for x in eids):
            removed -= set(eids)
    removed = frozenset(removed)
    seen, parent = body.reach_from(0, removed_edges=removed)
    if site_block in seen:
        return False, body.path_to(parent, 0, site_block), removed
    return True, None, removed


def must_pass(body, start_block, goal_blocks, through_blocks, treat_exit_as_goal=False):
    """MUST-PRECEDE helper: is there a path from start_block to any goal block (or to a return
    if treat_exit_as_goal) that avoids all through_blocks?  returns witness path or None."""
    goals = set(goal_blocks)
    if treat_exit_as_goal:
        goals |= set(body.exits())
    avoid = frozenset(b for b in through_blocks if b != start_block)
    seen, parent = body.reach_from(start_block, avoid_blocks=avoid, stop_blocks=frozenset(goals))
    for g in goals:
        if g in seen and g != start_block:
            return body.path_to(parent, start_block, g)
    return None
