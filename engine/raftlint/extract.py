"""Fact extraction driver: runs the rustc_private extractor over /repo's *current working tree*
(cargo +nightly check with RUSTC_WORKSPACE_WRAPPER) and caches the facts by a hash of the tree.

Nothing here runs d-engine code: `cargo check` type-checks and borrow-checks only."""
import fcntl
import glob
import hashlib
import json
import os
import re
import shutil
import subprocess
import sys
import time

VERIF = os.path.dirname(os.path.dirname(os.path.dirname(os.path.abspath(__file__))))
REPO = os.environ.get("RAFTLINT_REPO", "/repo")
CACHE = os.path.join(VERIF, ".cache")
EXTRACTOR_DIR = os.path.join(VERIF, "engine", "extractor")
EXTRACTOR = os.path.join(EXTRACTOR_DIR, "target", "release", "raftlint-extractor")
MEMBERS = ["d_engine", "d_engine_client", "d_engine_core", "d_engine_proto", "d_engine_server"]
# feature sets: name -> cargo args
FEATURESETS = {
    "full": ["--workspace", "--features", "d-engine/watch"],
    # server without rocksdb/watch: used by the thorough tier to make sure no rule
    # instance exists only under one feature set
    "min": ["-p", "d-engine-server", "--no-default-features"],
}
FEATURE_MEMBERS = {
    "full": MEMBERS,
    "min": ["d_engine_core", "d_engine_proto", "d_engine_server"],
}


def sysroot():
    return subprocess.check_output(["rustc", "+nightly", "--print", "sysroot"], text=True).strip()


def base_env():
    env = dict(os.environ)
    env["CARGO_NET_OFFLINE"] = "true"
    env["LD_LIBRARY_PATH"] = os.path.join(sysroot(), "lib") + ":" + env.get("LD_LIBRARY_PATH", "")
    env["RUSTFLAGS"] = "-Awarnings"
    # incremental compilation would replay cached query results and bypass the mir_built override
    env["CARGO_INCREMENTAL"] = "0"
    # cargo check never links: skip the 8-minute C++ build of librocksdb/snappy
    env["ROCKSDB_LIB_DIR"] = "/nonexistent-raftlint"
    env["SNAPPY_LIB_DIR"] = "/nonexistent-raftlint"
    env.pop("RUSTC_WRAPPER", None)
    return env


def build_extractor():
    env = base_env()
    env.pop("RUSTFLAGS", None)
    r = subprocess.run(["cargo", "build", "--release", "--offline"], cwd=EXTRACTOR_DIR, env=env,
                       stdout=subprocess.PIPE, stderr=subprocess.STDOUT, text=True)
    if r.returncode != 0 or not os.path.exists(EXTRACTOR):
        sys.stderr.write(r.stdout)
        raise SystemExit("raftlint: extractor build failed")


def tree_hash(repo=REPO):
    """SHA-256 over every source file that can influence the build (tracked or not)."""
    h = hashlib.sha256()
    pats = (".rs", ".proto", "Cargo.toml", "Cargo.lock", "rust-toolchain.toml")
    files = []
    if os.path.isdir(os.path.join(repo, ".git")) or os.path.isfile(os.path.join(repo, ".git")):
        out = subprocess.check_output(
            ["git", "-C", repo, "ls-files", "-co", "--exclude-standard", "--",
             "*.rs", "*.proto", "*Cargo.toml", "Cargo.lock", "*build.rs", "rust-toolchain.toml"], text=True)
        files = out.splitlines()
    else:
        for root, dirs, fs in os.walk(repo):
            dirs[:] = [d for d in dirs if d not in ("target", ".git")]
            for f in fs:
                if f.endswith(pats):
                    files.append(os.path.relpath(os.path.join(root, f), repo))
    files = sorted(set(f for f in files
                       if not f.startswith(("examples/", "benches/", "target/"))))
    for f in files:
        p = os.path.join(repo, f)
        if not os.path.isfile(p):
            h.update(("DELETED:" + f).encode())
            continue
        h.update(f.encode())
        with open(p, "rb") as fh:
            h.update(hashlib.sha256(fh.read()).digest())
    with open(EXTRACTOR, "rb") as fh:
        h.update(hashlib.sha256(fh.read()).digest())
    return h.hexdigest()[:24], len(files)


def _complete(d, fs):
    m = os.path.join(d, "COMPLETE.json")
    if not os.path.exists(m):
        return False
    try:
        j = json.load(open(m))
    except Exception:
        return False
    return all(os.path.exists(os.path.join(d, f)) for f in j.get("files", {}).values()) and \
        sorted(j.get("files", {})) == sorted(FEATURE_MEMBERS[fs])


def prune(keep):
    root = os.path.join(CACHE, "facts")
    ds = [os.path.join(root, d) for d in os.listdir(root)] if os.path.isdir(root) else []
    ds = [d for d in ds if os.path.isdir(d) and os.path.abspath(d) != os.path.abspath(keep)]
    ds.sort(key=lambda d: os.path.getmtime(d), reverse=True)
    for d in ds[16:]:
        shutil.rmtree(d, ignore_errors=True)


def ensure_facts(fs="full", repo=REPO, log=sys.stderr):
    """Return (facts_dir, info).  Re-extracts when the working tree changed."""
    if not os.path.exists(EXTRACTOR):
        build_extractor()
    os.makedirs(os.path.join(CACHE, "facts"), exist_ok=True)
    th, nfiles = tree_hash(repo)
    d = os.path.join(CACHE, "facts", "%s-%s" % (fs, th))
    if os.path.abspath(repo) != "/repo" and os.environ.get("RAFTLINT_SCRATCH_TARGET"):
        # parallel self-test shards may extract the SAME patched tree at the same time (a seeded mutant that is attributed to two
        # checks): each shard keeps its own copy of the facts
        d += "-" + hashlib.sha256(os.environ["RAFTLINT_SCRATCH_TARGET"].encode()).hexdigest()[:8]
    info = {"tree_hash": th, "source_files_hashed": nfiles, "featureset": fs,
            "cargo_args": FEATURESETS[fs], "cached": True}
    if _complete(d, fs):
        os.utime(d, None)
        return d, info
    # one extraction at a time per cargo target dir (shards of the self-test runner bring their own target dir)
    lock_name = "extract.lock"
    if os.path.abspath(repo) != "/repo" and os.environ.get("RAFTLINT_SCRATCH_TARGET"):
        lock_name = "extract-%s.lock" % hashlib.sha256(os.environ["RAFTLINT_SCRATCH_TARGET"].encode()).hexdigest()[:10]
    lock = open(os.path.join(CACHE, lock_name), "w")
    fcntl.flock(lock, fcntl.LOCK_EX)
    try:
        if _complete(d, fs):
            return d, info
        info["cached"] = False
        t0 = time.time()
        if os.path.isdir(d):
            shutil.rmtree(d)
        os.makedirs(d)
        target = os.path.join(CACHE, "target-" + fs) if os.path.abspath(repo) == "/repo" else os.path.join(CACHE, "target-scratch-" + fs)
        if os.path.abspath(repo) != "/repo" and os.environ.get("RAFTLINT_SCRATCH_TARGET"):
            # parallel self-test shards: one cargo target dir per scratch copy (removed by the shard when it is done)
            target = os.path.join(os.environ["RAFTLINT_SCRATCH_TARGET"], "target-" + fs)
        os.makedirs(target, exist_ok=True)
        # cargo's freshness cache would skip the wrapper: drop the members' fingerprints
        for fp in glob.glob(os.path.join(target, "debug", ".fingerprint", "d-engine*")):
            shutil.rmtree(fp, ignore_errors=True)
        nonce = "%s-%d" % (th, int(t0))
        env = base_env()
        env.update({"RUSTC_WORKSPACE_WRAPPER": EXTRACTOR, "CARGO_TARGET_DIR": target,
                    "RAFTLINT_OUT": d, "RAFTLINT_NONCE": nonce})
        cmd = ["cargo", "+nightly", "check", "--offline"] + FEATURESETS[fs]
        r = subprocess.run(cmd, cwd=repo, env=env, stdout=subprocess.PIPE, stderr=subprocess.STDOUT, text=True)
        if r.returncode != 0:
            log.write(r.stdout[-6000:])
            shutil.rmtree(d, ignore_errors=True)
            raise RuntimeError("raftlint: /repo does not compile under `%s` (exit %d)" % (" ".join(cmd), r.returncode))
        files = {}
        for m in FEATURE_MEMBERS[fs]:
            c = [f for f in glob.glob(os.path.join(d, m + "-*.json")) if not os.path.basename(f).startswith(m + "_")
                 and os.path.basename(f)[len(m) + 1:].split(".")[0].isdigit()]
            if len(c) != 1:
                shutil.rmtree(d, ignore_errors=True)
                raise RuntimeError("raftlint: expected exactly one fact file for %s, got %d (cargo replayed a cached unit?)" % (m, len(c)))
            with open(c[0]) as fh:
                head = fh.read(400)
            if nonce not in head:
                shutil.rmtree(d, ignore_errors=True)
                raise RuntimeError("raftlint: stale fact file for %s" % m)
            mm = re.search(r'"body_owners":(\d+),"bodies_seen":(\d+)', head)
            if not mm or mm.group(1) != mm.group(2):
                shutil.rmtree(d, ignore_errors=True)
                raise RuntimeError("raftlint: incomplete facts for %s (%s)" % (m, mm.groups() if mm else head[:80]))
            files[m] = os.path.basename(c[0])
        info["extract_wall_s"] = round(time.time() - t0, 1)
        json.dump({"files": files, "nonce": nonce, "info": info}, open(os.path.join(d, "COMPLETE.json"), "w"))
        prune(d)
        return d, info
    finally:
        fcntl.flock(lock, fcntl.LOCK_UN)
        lock.close()


if __name__ == "__main__":
    fs = sys.argv[1] if len(sys.argv) > 1 else "full"
    d, info = ensure_facts(fs)
    print(d, json.dumps(info))
