"""Check driver: loads (or re-extracts) facts for /repo's current tree, runs the rule module
of one property, matches failing instances against known_findings.json, writes evidence."""
import importlib
import json
import os
import sys
import time
import traceback

from . import core, extract

VERIF = extract.VERIF
KNOWN = os.path.join(VERIF, "known_findings.json")


class Ctx(object):
    def __init__(self, prop, tier, facts, info):
        self.prop = prop
        self.tier = tier
        self.F = facts
        self.info = info
        self.instances = []   # dict(rule,key,ok,detail,loc,witness)
        self.notes = []
        self.floors = []      # (rule, found, floor)
        self.assumptions = []
        self.depth = 6 if tier == "quick" else 10

    # -- recording ---------------------------------------------------------------
    def ok(self, rule, key, detail="", loc=None):
        self.instances.append({"rule": rule, "key": key, "ok": True, "detail": detail, "loc": loc})

    def bad(self, rule, key, what, loc=None, witness=None):
        self.instances.append({"rule": rule, "key": key, "ok": False, "detail": what, "loc": loc, "witness": witness})

    def check(self, rule, key, cond, detail_ok="", what_bad="", loc=None, witness=None):
        if cond:
            self.ok(rule, key, detail_ok, loc)
        else:
            self.bad(rule, key, what_bad or detail_ok, loc, witness)
        return cond

    def floor(self, rule, found, floor, what=""):
        """fail closed when an anchor set shrank below what was counted by hand"""
        self.floors.append((rule, found, floor))
        if found < floor:
            self.bad(rule, "anchor-missing:%s" % (what or rule),
                     "rule resolved %d instance(s), floor is %d (%s) - anchor renamed/removed or facts incomplete" % (found, floor, what))

    def note(self, text):
        self.notes.append(text)

    def assume(self, text):
        if text not in self.assumptions:
            self.assumptions.append(text)

    # -- helpers -----------------------------------------------------------------
    def anchor(self, fn, *a, **kw):
        """call a Facts lookup; a missing anchor is a fail-closed violation"""
        try:
            return fn(*a, **kw)
        except core.AnchorMissing as e:
            self.bad("anchor", "anchor-missing:%s" % (a,), str(e))
            return None


_FACTS_CACHE = {}


def _facts(d, crates):
    """one Facts object per (facts dir, crate set) and process: batch runs (`check ALL`) share it"""
    k = (d, tuple(crates))
    if k not in _FACTS_CACHE:
        _FACTS_CACHE[k] = core.Facts(d, crates=crates)
    return _FACTS_CACHE[k]


def load_known():
    if not os.path.exists(KNOWN):
        return []
    return json.load(open(KNOWN)).get("findings", [])


def bpath(body, path, limit=14):
    """human-readable witness path: block ids with the calls they make"""
    out = []
    for bi in path:
        t = body.term(bi)
        if t["k"] == "call":
            k = core.callee_key(t)
            if k and not core.is_noise_exp(t.get("exp")):
                out.append("bb%d:%s@%s" % (bi, core.strip_generics(k).split("::")[-1], t.get("ln")))
        elif t["k"] == "return":
            out.append("bb%d:return" % bi)
        elif t["k"] == "yield":
            out.append("bb%d:await" % bi)
    if len(out) > limit:
        out = out[:limit // 2] + ["..."] + out[-limit // 2:]
    return out


def run_property(prop, tier="quick", replay=None):
    t0 = time.time()
    seed = int(os.environ.get("VERIF_SEED", "0") or 0)
    evdir = os.environ.get("RAFTLINT_EVIDENCE_DIR") or os.path.join(VERIF, "evidence")
    if os.path.abspath(extract.REPO) != "/repo" and not os.environ.get("RAFTLINT_EVIDENCE_DIR"):
        evdir = os.path.join(extract.CACHE, "scratch-evidence")  # never clobber real evidence from a scratch run
    ev_path = os.path.join(evdir, "%s.json" % prop)
    vio_path = os.path.join(evdir, "%s.violation.json" % prop)
    os.makedirs(os.path.dirname(ev_path), exist_ok=True)
    for p in (ev_path, vio_path):
        if os.path.exists(p):
            os.remove(p)
    mod = importlib.import_module("raftlint.rules.%s" % prop.lower())
    level = getattr(mod, "LEVEL", "other")
    fatal = None
    ctx = None
    info = {}
    try:
        d, info = extract.ensure_facts("full")
        crates = getattr(mod, "CRATES", ("d_engine_core", "d_engine_server", "d_engine_client", "d_engine"))
        F = _facts(d, crates)
        okc, detail = F.completeness()
        ctx = Ctx(prop, tier, F, info)
        if not okc:
            ctx.bad("facts", "facts-incomplete", "mir_built override did not see every body owner: %s" % detail)
        mod.run(ctx)
        if tier == "thorough":
            if hasattr(mod, "run_thorough"):
                mod.run_thorough(ctx)
            # second feature set: rule instances must not exist only under one configuration
            d2, info2 = extract.ensure_facts("min")
            info["min_featureset"] = info2
            F2 = core.Facts(d2, crates=tuple(c for c in crates if c in extract.FEATURE_MEMBERS["min"]))
            ctx2 = Ctx(prop, tier, F2, info2)
            ctx2.featureset = "min"
            if getattr(mod, "FEATURESET_MIN", True):
                try:
                    mod.run(ctx2)
                except Exception as e:  # noqa
                    ctx2.bad("min-featureset", "exception", "rule crashed on the min feature set: %r" % (e,))
                for i in ctx2.instances:
                    if not i["ok"] and not str(i["key"]).startswith("anchor-missing") and i["rule"] != "anchor":
                        # only *new* failing keys matter (anchors legitimately vanish with features off)
                        if not any(j["rule"] == i["rule"] and j["key"] == i["key"] for j in ctx.instances):
                            i = dict(i)
                            i["detail"] = "[min feature set] " + str(i["detail"])
                            ctx.instances.append(i)
                ctx.note("min feature set (-p d-engine-server --no-default-features): %d instances evaluated" % len(ctx2.instances))
    except Exception as e:  # fail closed
        fatal = "%s: %s" % (type(e).__name__, e)
        sys.stderr.write(traceback.format_exc())
    selftests = None
    if tier == "thorough" and ctx is not None and os.path.abspath(extract.REPO) == "/repo" and not os.environ.get("RAFTLINT_NO_SELFTEST"):
        # checker self-tests: every break/keep/repair patch and every kept seeded mutant of this property is applied to a
        # scratch copy (outside /repo and /verif), facts are re-extracted (cargo check only) and the verdict delta is compared
        try:
            import subprocess
            import tempfile
            tmpj = tempfile.mktemp(prefix="raftlint-st-", suffix=".json", dir="/var/tmp")
            env = dict(os.environ)
            env["RAFTLINT_NO_SELFTEST"] = "1"
            env.pop("RAFTLINT_EVIDENCE_DIR", None)
            rr = subprocess.run([sys.executable, os.path.join(VERIF, "engine", "selftest.py"), "--json", tmpj, prop], cwd=VERIF, env=env,
                                stdout=subprocess.PIPE, stderr=subprocess.STDOUT, text=True)
            if os.path.exists(tmpj):
                selftests = json.load(open(tmpj)).get("results", [])
                os.remove(tmpj)
            else:
                selftests = [{"result": "NOT-RUN", "detail": rr.stdout[-300:]}]
            for st in selftests:
                if st.get("result") != "PASS":
                    print("SELFTEST-%s: %s (checker self-test, not a property verdict)" % (st.get("result"), st.get("patch", "")))
        except Exception as e:  # self-tests never change the verdict
            selftests = [{"result": "NOT-RUN", "detail": repr(e)}]

    known = [k for k in load_known() if k.get("property") == prop]
    open_known = {(k["rule"], k["key"]): k for k in known if k.get("status", "open") == "open"}
    violations = []
    known_hit = []
    n_ok = 0
    insts = ctx.instances if ctx else []
    for i in insts:
        if i["ok"]:
            n_ok += 1
            continue
        kk = (i["rule"], i["key"])
        if kk in open_known:
            known_hit.append((i, open_known[kk]))
        else:
            violations.append(i)
    if fatal:
        violations.append({"rule": "driver", "key": "fatal", "ok": False, "detail": fatal, "loc": None})
    resolved = [k for kk, k in open_known.items() if not any(kk == (i["rule"], i["key"]) for i, _ in known_hit)]

    for i, k in known_hit:
        print("KNOWN-FINDING: property=%s %s [%s %s] %s" % (prop, k.get("id", ""), i["rule"], i["key"], k.get("what", i["detail"])))
    for k in resolved:
        print("note: listed finding %s (%s %s) was not re-derived on this tree (resolved?)" % (k.get("id", ""), k["rule"], k["key"]))

    samples = []
    for i in insts[:400]:
        s = {"rule": i["rule"], "site": i["key"], "verdict": "holds" if i["ok"] else ("known-finding" if (i["rule"], i["key"]) in open_known else "VIOLATION")}
        if i.get("detail"):
            s["detail"] = str(i["detail"])[:400]
        if i.get("loc"):
            s["loc"] = i["loc"]
        samples.append(s)
    rules = sorted(set(i["rule"] for i in insts))
    cov = {
        "explanation": (getattr(mod, "EXPLANATION", "") or mod.__doc__ or "").strip(),
        "obligations": len(insts),
        "discharged": n_ok,
        "known_findings_rederived": len(known_hit),
        "rules": rules,
        "rule_instance_floors": [{"rule": r, "found": f, "floor": fl} for (r, f, fl) in (ctx.floors if ctx else [])],
        "bodies_analysed": len(ctx.F.bodies) if ctx else 0,
        "crates": ctx.F.crate_info if ctx else {},
        "extraction": info,
        "inlining_bound": ctx.depth if ctx else None,
        "samples": samples,
        "observations": ctx.notes if ctx else [],
        "checker_cmd": "./check %s --tier %s" % (prop, tier),
        "trusted_base": ["rustc nightly MIR construction (mir_built)", "raftlint extractor", "raftlint rule engine",
                         "class-hierarchy expansion of unresolved trait calls over workspace impls"],
        "exhaustive": False,
        "checker_selftests": selftests if selftests is not None else "thorough tier only",
        "checker_selftests_passed": len([s for s in selftests if s.get("result") == "PASS"]) if selftests is not None else None,
        "evaluations": max(1, len(insts)),
        "distinct_nontrivial": max(2, len(set((i["rule"], i["key"]) for i in insts))) if len(insts) >= 2 else len(insts),
        "rule": "one obligation per resolved rule instance (function + site descriptor); distinct = distinct (rule, site) keys",
    }
    ev = {
        "property_id": prop, "tier": tier, "seed": seed, "level": level, "coverage": cov,
        "assumptions": (ctx.assumptions if ctx else []) + list(getattr(mod, "ASSUMPTIONS", [])),
        "wall_s": round(time.time() - t0, 2), "violations": len(violations),
    }
    with open(ev_path + ".tmp", "w") as fh:
        json.dump(ev, fh, indent=1)
    os.replace(ev_path + ".tmp", ev_path)

    print("%s tier=%s: %d obligations, %d hold, %d known finding(s), %d violation(s) [%.1fs]" % (
        prop, tier, len(insts), n_ok, len(known_hit), len(violations), time.time() - t0))
    if violations:
        with open(vio_path, "w") as fh:
            json.dump({"property": prop, "violations": violations}, fh, indent=1, default=str)
        for v in violations:
            print("  violated: rule=%s site=%s loc=%s :: %s" % (v["rule"], v["key"], v.get("loc"), str(v["detail"])[:600]))
            if v.get("witness"):
                print("    witness: %s" % (v["witness"],))
        print("VIOLATION property=%s replay=%s" % (prop, vio_path))
        return 1
    return 0


def main(argv):
    if len(argv) < 2:
        print("usage: check <Cxx> [--tier quick|thorough] [--replay path]")
        return 2
    prop = argv[1]
    tier = os.environ.get("VERIF_TIER", "quick")
    replay = None
    i = 2
    while i < len(argv):
        if argv[i] == "--tier":
            tier = argv[i + 1]
            i += 2
        elif argv[i] == "--replay":
            replay = argv[i + 1]
            i += 2
        else:
            i += 1
    if tier not in ("quick", "thorough"):
        tier = "quick"
    if prop == "ALL" or "," in prop:
        import glob
        props = sorted(os.path.basename(p)[:-3].upper() for p in glob.glob(os.path.join(VERIF, "engine", "raftlint", "rules", "c[0-9][0-9].py"))) \
            if prop == "ALL" else [x for x in prop.split(",") if x]
        rc = 0
        for p in props:
            rc = max(rc, run_property(p, tier, replay))
        return rc
    return run_property(prop, tier, replay)
