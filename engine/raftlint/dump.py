"""debug helper: python3 -m raftlint.dump <regex> [--all] : print the non-noise skeleton of matching bodies"""
import sys

from . import core, extract


def opstr(b, o):
    if "p" in o:
        return plstr(b, o["p"])
    if "fn" in o:
        return "fn:" + core.strip_generics(o.get("res") or o["fn"]).split("::")[-1]
    return "const(%s)" % o.get("v", o.get("c"))


def plstr(b, p):
    n = b.local_name(p["l"]) or "_%d" % p["l"]
    s = n
    for e in p.get("pj", []):
        if e == "*":
            s = "*" + s
        elif isinstance(e, dict):
            if "f" in e:
                s += "." + e["f"]
            elif "up" in e:
                s += ".^" + e["up"]
            elif "dc" in e:
                s += " as " + e["dc"]
            elif "i" in e:
                s += ".%d" % e["i"]
            else:
                s += str(e)
        else:
            s += "[%s]" % e
    return s


def rvstr(b, rv):
    k = rv["k"]
    if k in ("use", "cast", "un", "repeat"):
        return "%s(%s)" % (k if k != "un" else rv["op"], opstr(b, rv["a"]))
    if k in ("ref", "rawptr"):
        return "&" + plstr(b, rv["pl"])
    if k == "discr":
        return "discr(%s)" % plstr(b, rv["pl"])
    if k == "bin":
        return "%s(%s, %s)" % (rv["op"], opstr(b, rv["a"]), opstr(b, rv["b"]))
    if k == "agg":
        if "adt" in rv:
            return "%s::%s{%s}" % (rv["adt"].split("::")[-1], rv["v"], ", ".join("%s:%s" % (f, opstr(b, o)) for f, o in zip(rv["fs"], rv["ops"])))
        if "closure" in rv:
            return "closure %s [%s]" % (rv["closure"].split("::")[-1], ", ".join(opstr(b, o) for o in rv["ops"]))
        return "(%s)" % ", ".join(opstr(b, o) for o in rv["ops"])
    return k


def dump(b, show_all=False):
    print("==", b.id, "blocks=%d" % b.n(), b.file, b.line)
    conds = core.edge_conditions(b)
    reach = b.reachable()
    for bi, blk in enumerate(b.blocks):
        if bi not in reach or blk.get("cleanup"):
            continue
        t = blk["t"]
        noise = core.is_noise_exp(t.get("exp"))
        lines = []
        for st in blk["st"]:
            if "lhs" in st and (show_all or not core.is_noise_exp(st.get("exp"))):
                if show_all or st["rv"]["k"] in ("agg", "bin", "discr") or b.local_name(st["lhs"]["l"]) or st["lhs"].get("pj"):
                    lines.append("    %s = %s" % (plstr(b, st["lhs"]), rvstr(b, st["rv"])))
        if t["k"] == "call":
            if noise and not show_all:
                continue
            k = core.callee_key(t)
            lines.append("    CALL %s(%s) -> %s  [self=%s] ln=%s next=bb%s" % (
                core.strip_generics(k) if k else opstr(b, t["f"]), ", ".join(opstr(b, a) for a in t["args"]), plstr(b, t["dest"]), t["f"].get("self"), t.get("ln"), t["t"]))
        elif t["k"] == "switch":
            if noise and not show_all:
                continue
            for s in b.succ(bi):
                e = b.edge(bi, s)
                c = conds[e["id"]]
                d = {k: v for k, v in c.__dict__.items() if k not in ("body", "edge", "call", "payload", "place")}
                if c.kind == "cmp":
                    d["a"] = opstr(b, c.a)
                    d["b"] = opstr(b, c.b)
                if c.kind == "discr":
                    d["place"] = plstr(b, c.place)
                lines.append("    SWITCH -> bb%d if %s" % (s, d))
        elif t["k"] in ("return", "yield"):
            lines.append("    %s -> %s" % (t["k"].upper(), b.succ(bi)))
        elif show_all:
            lines.append("    %s -> %s" % (t["k"], b.succ(bi)))
        if lines:
            print("  bb%d:" % bi)
            for l in lines:
                print(l)


if __name__ == "__main__":
    d, info = extract.ensure_facts()
    F = core.Facts(d)
    rx = sys.argv[1]
    for b in F.find(rx):
        if "__CALLSITE" in b.id:
            continue
        dump(b, "--all" in sys.argv)
