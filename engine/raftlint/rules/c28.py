"""C28 Membership survives restart (DESIGN 4/C28) - a persistence path exists.
Decides: (a) applying a committed configuration entry (DefaultCommitHandler::apply_config_change ->
Membership::apply_config_change and every RaftMembership method that rewrites the node table through
MembershipGuard::blocking_write) reaches a durable-write sink; (b) NodeBuilder::build constructs the
membership from a value whose provenance includes a read from storage (or some start-up function other
than the per-commit path re-applies configuration entries), not only RaftNodeConfig.cluster.initial_cluster;
(c) the initial role (learner vs voter) is chosen from restored state, not only from the static
configuration; (d) the live half: every committed Config entry reaches Membership::apply_config_change
(Payload::Config arm of process_batch) and the roles are told (MembershipApplied) only after it; (e) the published view
(MembershipSnapshot) is split into members / learners with `role == NodeRole::Learner` by every function that builds it
(start/restart and after every applied change use the same predicate).  Necessary conditions, not the whole behaviour: a sink / a load being reachable does not
show that the right bytes are written or read."""
from .common import *
from .helpers_r3 import *

EXPLANATION = __doc__

STORE_WRITE = r"(MetaStore|LogStore|StorageEngine|StateMachine|RaftLog)::(save_\w+|persist_\w+|put\w*)$"
STORE_READ = (r"((MetaStore|LogStore|StorageEngine|StateMachine|RaftLog)::(load_\w+|get\w*|entry|entries|get_entries_range|range|read\w*|snapshot_metadata|last_applied|first_\w+|last_\w+)"
              r"|std::fs::(read|read_to_string)|std::fs::File::open|tokio::fs::(read|read_to_string)|tokio::fs::File::open|std::fs::OpenOptions::open"
              r"|rocksdb::\w+(::\w+)*::(get_cf|get|get_pinned_cf|iterator_cf|multi_get_cf))$")


def storage_read_evidence(F, s, depth):
    ev = []
    for x in s.sources:
        if x[0] != "call":
            continue
        k = x[1]
        if name_matches(k, STORE_READ):
            ev.append(core.name_variants(k)[0].split("::")[-1])
        elif k in F.bodies and F.bodies[k].crate.startswith("d_engine") and not core.TRANSPARENT.match(k):
            r = reaches(F, k, STORE_READ, depth)
            if r:
                ev.append("%s->%s" % (fkey(k), strip_generics(r[0]).split("::")[-1]))
    return ev


def run(ctx):
    F = ctx.F
    depth = max(ctx.depth, 8)
    # positive controls for the sink vocabulary: known persisting functions must be recognised
    pc = 0
    for (ty, m) in (("FileMetaStore", "save_hard_state"), ("RocksDBMetaStore", "save_hard_state"), ("RocksDBStateMachine", "persist_last_snapshot_metadata")):
        f = F.try_method(ty, m)
        if f and (reaches(F, f.id, DURABLE_SINK, depth)):
            pc += 1
    ctx.floor("C28-a", pc, 3, "positive control: known persisting functions reach a durable sink")

    # ---------------------------------------------------------------- C28-a committed config change reaches a durable sink
    muts = sorted(set(x[0] for x in F.callers_of(lambda k: strip_generics(k).endswith("MembershipGuard::blocking_write"))
                      if self_type_of(F, x[0]).endswith("RaftMembership")))
    ctx.floor("C28-a", len(muts), 8, "RaftMembership methods that rewrite the node table (blocking_write)")
    rm_apply = F.try_method("RaftMembership", "apply_config_change")
    reach = F.reach_calls(rm_apply.id, depth) if rm_apply else {}
    applied = [m for m in muts if rm_apply and (m == rm_apply.id or m in reach)]
    ctx.floor("C28-a", len(applied), 3, "node-table writers reachable from RaftMembership::apply_config_change")
    ch = ctx.anchor(F.method, "DefaultCommitHandler", "apply_config_change")
    if ch:
        mb = F.main_body(ch)
        ac = calls_matching(mb, r"Membership::apply_config_change$")
        ctx.floor("C28-a", len(ac), 1, "Membership::apply_config_change call in DefaultCommitHandler::apply_config_change")
        r = reaches(F, ch.id, DURABLE_SINK, depth) or reaches(F, ch.id, STORE_WRITE, depth)
        ctx.check("C28-a", "%s#durable-sink" % fkey(ch), bool(r),
                  "applying a committed configuration entry reaches a durable write: %s" % (r and [fkey(x) for x in r[1]][-3:]),
                  "applying a committed configuration entry changes the in-memory node table only: no file / database / store write is reachable from "
                  "DefaultCommitHandler::apply_config_change (depth %d).  History: cluster {A,B,C} from initial_cluster; D and E join and are promoted (entries committed and "
                  "applied everywhere: 5 voters).  A and B restart: their membership is rebuilt from initial_cluster = {A,B,C} and the applied config entries are below "
                  "last_applied, so they are never applied again.  A is elected in term T+1 by {A,B} (2 of its 3), C is elected in term T+1 by {C,D,E} (3 of 5): "
                  "two leaders in one term; A also never replicates to D,E.  Table writers on this path: %s" % (depth, [fkey(m) for m in applied]), "%s:%s" % (mb.file, mb.line))
    ctx.note("node-table writers on the apply path of a committed entry: %s" % [fkey(m) for m in applied])

    # ---------------------------------------------------------------- C28-b membership is restored at start-up
    build = ctx.anchor(F.method, "NodeBuilder", "build")
    if build:
        news = [(b, bi, t) for b in F.group_bodies(build) for (bi, t) in calls_matching(b, r"RaftMembership::new$")]
        ctx.floor("C28-b", len(news), 1, "RaftMembership::new in NodeBuilder::build")
        replay = [x for x in F.callers_of(lambda k: strip_generics(k).endswith("Membership::apply_config_change"))
                  if not strip_generics(x[0]).endswith("DefaultCommitHandler::apply_config_change") and F.bodies[x[1]].crate in ("d_engine_core", "d_engine_server")
                  and not self_type_of(F, x[0]).endswith("RaftMembership")]
        for (b, bi, t) in news:
            s = XSlice(F, b).operand(t["args"][1])
            ev = storage_read_evidence(F, s, depth)
            cfg = s.has_field("ClusterConfig", "initial_cluster")
            ctx.check("C28-b", "%s#RaftMembership::new#initial_nodes" % fkey(build), bool(ev) or bool(replay),
                      "initial node table derives from storage (%s) or config entries are re-applied at start-up (%s)" % (ev[:3], [fkey(x[0]) for x in replay][:3]),
                      "at start-up the node table is built only from the static configuration (initial_cluster read: %s; no storage read in its provenance; no start-up function "
                      "re-applies configuration entries): a node that applied AddNode(D)+BatchPromote(D) and restarts sees {A,B,C} again, while last_applied already covers "
                      "those entries so the commit handler never re-applies them" % cfg, loc(b, bi))
        # ------------------------------------------------------------ C28-c initial role from restored state
        roles = [(b, bi, t) for b in F.group_bodies(build) for (bi, t) in calls_matching(b, r"learner_state::LearnerState::new$")]
        ctx.floor("C28-c", len(roles), 1, "LearnerState::new in NodeBuilder::build")
        for (b, bi, t) in roles:
            conds = edge_conditions(b)
            ev = []
            n = 0
            for eid, c in conds.items():
                if is_noise_exp(b.term(c.edge["src"]).get("exp")):
                    continue
                if not guarded_by(b, bi, lambda x: x is c, conds)[0]:
                    continue
                if not (c.kind in ("call", "bool", "cmp") and c.truth is not None):
                    continue
                xs = XSlice(F, b)
                if c.kind == "call":
                    for a in c.call["args"]:
                        xs.operand(a)
                    xs.sources.add(("call", c.callee))
                elif c.kind == "cmp":
                    xs.operand(c.a)
                    xs.operand(c.b)
                else:
                    xs.operand(b.term(c.edge["src"])["d"])
                if not (xs.has_call(r"RaftNodeConfig::is_learner$") or xs.has_field("ClusterConfig", "initial_cluster") or xs.has_call(r"(^|::)Membership::\w+$")):
                    continue
                n += 1
                ev += storage_read_evidence(F, xs, depth)
                ev += [core.name_variants(x[1])[0].split("::")[-1] for x in xs.sources if x[0] == "call" and name_matches(x[1], r"(^|::)Membership::\w+$")]
            ctx.floor("C28-c", n, 1, "role-selecting guard of LearnerState::new in NodeBuilder::build")
            ctx.check("C28-c", "%s#LearnerState::new#role-source" % fkey(build), bool(ev),
                      "initial role depends on restored state: %s" % ev[:3],
                      "whether the node starts as Learner is decided only by the static configuration (RaftNodeConfig::is_learner): learner D that applied its own promotion "
                      "and restarts comes back as LearnerState (never votes, tries to join again) while every other node counts it as a voter", loc(b, bi))

    # ---------------------------------------------------------------- C28-d committed config entries are applied to the node table
    pb = ctx.anchor(F.method, "DefaultCommitHandler", "process_batch")
    if pb:
        mb = F.main_body(pb)
        conds = edge_conditions(mb)
        arms = [c for c in conds.values() if c.kind == "discr" and c.variants == {"Config"} and (c.adt or "").endswith("entry_payload::Payload")]
        ctx.floor("C28-d", len(arms), 1, "Payload::Config arm in DefaultCommitHandler::process_batch")
        app = [bi for (bi, t) in calls_matching(mb, r"DefaultCommitHandler::apply_config_change$")]
        nxt = frozenset(bi for (bi, t) in calls_matching(mb, r"::next$"))
        for n, c in enumerate(arms):
            seen, _p = mb.reach_from(c.edge["dst"], stop_blocks=nxt)
            ctx.check("C28-d", "%s#Payload::Config[%d]#applied" % (fkey(pb), n), any(a in seen for a in app),
                      "a committed Config entry reaches apply_config_change before the next entry is looked at",
                      "the Payload::Config arm of process_batch never calls apply_config_change: a committed AddNode/BatchPromote/BatchRemove is never reflected in this node's "
                      "member table, so its voters()/quorum sizes stay at the old configuration while other nodes moved on", loc(mb, c.edge["dst"]))
    if ch:
        mb = F.main_body(ch)
        ac = [bi for (bi, t) in calls_matching(mb, r"Membership::apply_config_change$")]
        ev = [(bi, st) for (bi, si, st) in agg_sites(mb, "InternalEvent", "MembershipApplied")]
        ctx.floor("C28-d", len(ev), 1, "InternalEvent::MembershipApplied in DefaultCommitHandler::apply_config_change")
        for (bi, st) in ev:
            ok = any(mb.dominates(a, bi) for a in ac) and guarded_by(mb, bi, lambda c: c.kind == "discr" and c.variants == {"Ok"} and cond_calls(F, c, r"Membership::apply_config_change$"))[0]
            ctx.check("C28-d", "%s#MembershipApplied#after-apply" % fkey(ch), ok, "roles are notified only after the table change succeeded",
                      "MembershipApplied is sent without a preceding successful Membership::apply_config_change: a learner evaluates its promotion (and a leader rebuilds its voter "
                      "cache) against the old table", loc(mb, bi))


# ---------------------------------------------------------------------------------------------- C28-e
_run_abcd28 = run


def run(ctx):
    _run_abcd28(ctx)
    published_view_uses_one_learner_predicate(ctx)


def published_view_uses_one_learner_predicate(ctx):
    """C28-e the membership VIEW a node publishes (MembershipSnapshot {members, learners}: watch_membership / the WatchMembership
    RPC) is built at start / restart (RaftMembership::new) and after every applied change (notify_config_applied).  Both builders
    must split the node table with the same predicate, and that predicate is `role == NodeRole::Learner`: every comparison of
    NodeMeta.role with a named NodeRole constant inside a function that constructs a MembershipSnapshot tests Learner with ==
    (a `role != Follower` classifies a node listed as Leader/Candidate in the config file as a learner in the view rebuilt at
    restart - the view then differs from the one published before the restart and from the node's own table)."""
    F = ctx.F
    from .helpers_r3 import XSlice
    builders = {}
    groups = {}
    for (b, bi, si, st) in all_agg_sites(F, "MembershipSnapshot", None, crates=("d_engine_server", "d_engine_core")):
        if re.search(r"(_test|/tests?/|test_utils|mock)", b.file or ""):
            continue
        root_ = F.root_of[b.id]
        # only functions that CLASSIFY nodes (they read NodeMeta.role); copies / conversions of an existing view are not builders
        grp = list(F.group_bodies(F.bodies[root_]))
        for k in sorted(closure_functions(F, root_, 2)):     # the classification may be a private helper (`split_ids_by_role`)
            hb_ = F.bodies.get(k)
            if hb_ is not None and k != root_ and hb_.crate == "d_engine_server" and "/membership/" in (hb_.file or ""):
                grp += [x for x in F.group_bodies(hb_) if x not in grp]
        if not any(("NodeMeta", "role") in set((a.split("::")[-1], f) for (a, f) in fields_read(gb)) for gb in grp):
            continue
        builders.setdefault(root_, (b, bi))
        groups[root_] = grp
    ctx.floor("C28-e", len(builders), 2, "functions that construct a MembershipSnapshot (RaftMembership::new, notify_config_applied)")
    verdicts = {}
    for root, (b0, bi0) in sorted(builders.items()):
        tests = []
        for gb in groups.get(root, F.group_bodies(F.bodies[root])):
            for bi, blk in enumerate(gb.blocks):
                if blk.get("cleanup"):
                    continue
                for st in blk["st"]:
                    rv = st.get("rv")
                    if not rv or rv["k"] != "bin" or rv["op"] not in ("Eq", "Ne"):
                        continue
                    sa, sb = XSlice(F, gb).operand(rv["a"]), XSlice(F, gb).operand(rv["b"])
                    for (x, y) in ((sa, sb), (sb, sa)):
                        if x.has_field("NodeMeta", "role"):
                            names = sorted(set(m.group(1) for src in y.sources if src[0] == "cname" for m in [re.search(r"NodeRole::(\w+)", src[1])] if m))
                            if names:
                                op = rv["op"]
                                l = st["lhs"]["l"]
                                for blk2 in gb.blocks:
                                    for st2 in blk2["st"]:
                                        rv2 = st2.get("rv")
                                        if rv2 and rv2["k"] == "un" and rv2["op"] == "Not" and "p" in rv2["a"] and rv2["a"]["p"]["l"] == l:
                                            op = "Ne" if op == "Eq" else "Eq"
                                tests.append((tuple(names), op, gb, bi))
        kinds = sorted(set((t[0], t[1]) for t in tests))
        verdicts[root] = kinds
        ok = bool(kinds) and all(k == (("Learner",), "Eq") for k in kinds)
        ctx.check("C28-e", "%s#MembershipSnapshot#learners=role==Learner" % fkey(root), ok,
                  "the published view splits the node table with role == NodeRole::Learner",
                  "the membership view built here does not split members / learners with `role == NodeRole::Learner` (role tests found: %s): a node whose role is neither "
                  "Follower nor Learner (the config file lists the current leader with role Leader) lands on the wrong side of the view rebuilt at restart"
                  % [("%s %s" % ("==" if k[1] == "Eq" else "!=", "|".join(k[0]))) for k in kinds], loc(b0, bi0))
    if len(set(map(str, verdicts.values()))) > 1:
        ctx.bad("C28-e", "MembershipSnapshot#builders-agree", "the functions that build the published membership view use different role predicates: %s"
                % dict((fkey(k), v) for k, v in verdicts.items()))
    elif verdicts:
        ctx.ok("C28-e", "MembershipSnapshot#builders-agree", "all %d builders of the published view use the same role predicate" % len(verdicts))
