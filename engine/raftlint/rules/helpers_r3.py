"""helpers of worker r3 (C18 C20 C24 C26 C27 C28 C33): provenance slices that keep constant *names*
and cross closure boundaries, role-predicate recognition, durable-sink reachability."""
import re

from .. import core
from ..core import Slice, callee_key, callee_decl, strip_generics, place_upvars


class XSlice(Slice):
    """Slice that (1) records the path of named constants (`('cname', path)`, e.g. the discriminant
    constant of `NodeRole::Learner`), and (2) resolves a closure's captured variables into the
    operands of the closure aggregate in the enclosing body (recursively)."""

    def __init__(self, facts, body, through_calls=False, max_nodes=4000, _depth=0):
        Slice.__init__(self, facts, body, through_calls, max_nodes)
        self._depth = _depth
        self._up_done = set()

    def operand(self, op):
        if "c" in op:
            self.sources.add(("cname", str(op["c"])))
        return Slice.operand(self, op)

    def place(self, pl):
        for u in place_upvars(pl):
            self._resolve_upvar(u)
        for (adt, f, _v) in core.place_fields(pl):
            self.sources.add(("field", adt, f))
        for u in place_upvars(pl):
            self.sources.add(("upvar", u))
        ctx = None
        for e in pl.get("pj", []):
            if isinstance(e, dict) and "ix" in e:
                self._local(e["ix"], None)
            if ctx is None and isinstance(e, dict) and ("f" in e or "up" in e):
                ctx = e.get("f") or e.get("up")
        self._local(pl["l"], ctx)
        return self

    def local(self, l):
        return self._local(l, None)

    @staticmethod
    def _first_field(pl):
        for e in pl.get("pj", []):
            if isinstance(e, dict) and ("f" in e or "up" in e):
                return e.get("f") or e.get("up")
        return None

    def _local(self, l, ctx):
        """as Slice.local, but field sensitive for partial writes: `x.f = v` / `(*p).f = v` is not a
        definition of what a read of `x.g` / `(*p).g` observes"""
        if l in self.seen or len(self.seen) > self.max_nodes:
            return
        self.seen.add(l)
        b = self.body
        if 1 <= l <= b.argc:
            if not (b.kind == "Closure" and l == 1):
                self.sources.add(("param", l, b.local_name(l)))
            if b.parent is None:
                self.sources.add(("rparam", b.id, l))
        for d in b.defs().get(l, []):
            if d[0] == "assign":
                lf = self._first_field(d[3]["lhs"])
                if ctx is not None and lf is not None and lf != ctx:
                    continue
                self.rvalue(d[3]["rv"])
            elif d[0] == "call":
                t = d[2]
                lf = self._first_field(t["dest"])
                if ctx is not None and lf is not None and lf != ctx:
                    continue
                k = callee_key(t)
                if k is None:
                    self.sources.add(("call", "<indirect>"))
                    for a in t["args"]:
                        self.operand(a)
                    self.operand(t["f"])
                    continue
                self.sources.add(("call", k))
                self.call_sites.append((d[1], t))
                decl = callee_decl(t)
                if self.through_calls or core.TRANSPARENT.match(k) or (decl and core.TRANSPARENT.match(decl)):
                    for a in t["args"]:
                        self.operand(a)
            elif d[0] == "yield":
                self.sources.add(("yield",))

    def _resolve_upvar(self, u):
        b = self.body
        if u in self._up_done or self._depth > 4 or not b.parent:
            return
        self._up_done.add(u)
        p = self.facts.bodies.get(b.parent)
        if p is None:
            return
        for blk in p.blocks:
            if blk.get("cleanup"):
                continue
            for st in blk["st"]:
                rv = st.get("rv")
                if rv and rv["k"] == "agg" and rv.get("closure") == b.id and u in rv.get("fs", []):
                    sub = XSlice(self.facts, p, self.through_calls, self.max_nodes, self._depth + 1)
                    sub.operand(rv["ops"][rv["fs"].index(u)])
                    self.sources |= sub.sources

    def has_cname(self, rx):
        r = re.compile(rx)
        return any(s[0] == "cname" and r.search(s[1]) for s in self.sources)

    def closures(self):
        return sorted(s[1] for s in self.sources if s[0] == "closure")


def nested_bodies(F, bid):
    """the body and every closure/async block (transitively) declared inside it"""
    out = [F.bodies[bid]]
    for x in F.group_bodies(bid):
        p = x
        n = 0
        while p.parent and n < 30:
            if p.parent == bid:
                out.append(x)
                break
            p = F.bodies.get(p.parent)
            n += 1
            if p is None:
                break
    return out


def bodies_with_helpers(F, bid, depth=2):
    """nested bodies of `bid` plus the body groups of workspace functions they call (depth levels)"""
    seen = {}
    work = [(b, 0) for b in nested_bodies(F, bid)]
    while work:
        b, d = work.pop()
        if b.id in seen:
            continue
        seen[b.id] = b
        if d >= depth:
            continue
        for _bi, t in b.calls():
            for tg in F.resolve_targets(t):
                for gb in F.group_bodies(tg):
                    if gb.id not in seen:
                        work.append((gb, d + 1))
    return list(seen.values())


LEARNER_CONST = r"NodeRole::Learner(::|$)"


def role_tests(F, bid, adt="NodeMeta", field="role", const_rx=LEARNER_CONST, depth=2):
    """comparisons `<adt>.<field> OP <named const>` evaluated inside closure/function `bid` (and the
    helpers it calls): list of (body, block, effective op) where the effective op accounts for a `!`
    applied to the comparison result."""
    out = []
    for b in bodies_with_helpers(F, bid, depth):
        for bi, blk in enumerate(b.blocks):
            if blk.get("cleanup"):
                continue
            for st in blk["st"]:
                rv = st.get("rv")
                if not rv or rv["k"] != "bin" or rv["op"] not in ("Eq", "Ne"):
                    continue
                sa = XSlice(F, b).operand(rv["a"])
                sb = XSlice(F, b).operand(rv["b"])
                if (sa.has_field(adt, field) and sb.has_cname(const_rx)) or (sb.has_field(adt, field) and sa.has_cname(const_rx)):
                    op = rv["op"]
                    l = st["lhs"]["l"]
                    for blk2 in b.blocks:
                        for st2 in blk2["st"]:
                            rv2 = st2.get("rv")
                            if rv2 and rv2["k"] == "un" and rv2["op"] == "Not" and "p" in rv2["a"] and rv2["a"]["p"]["l"] == l:
                                op = "Ne" if op == "Eq" else "Eq"
                    out.append((b, bi, op))
    return out


def excludes_learners(F, closure_ids):
    """(ok, description): some closure in the list tests NodeMeta.role against NodeRole::Learner and
    every such test has the `!=` polarity (keeps non-learners)"""
    tests = []
    for cid in closure_ids:
        if cid in F.bodies:
            tests += role_tests(F, cid)
    ops = sorted(set(op for (_b, _bi, op) in tests))
    return (ops == ["Ne"]), "role tests found: %s" % (ops or "none")


def name_matches(k, rx):
    """regex search over every generic-stripped spelling of a callee path"""
    r = re.compile(rx) if isinstance(rx, str) else rx
    return bool(k) and any(r.search(n) for n in core.name_variants(k))


def reaches(F, root, rx, depth):
    r = re.compile(rx)
    return F.fn_reaches(root, lambda k: name_matches(k, r), depth)


def call_reaches_rx(F, t, rx, depth):
    r = re.compile(rx)
    return F.call_reaches(t, lambda k: name_matches(k, r), depth)


# calls that make bytes durable or at least hand them to a file / database
DURABLE_SINK = (r"(std::fs::File::(sync_all|sync_data|set_len)|std::io::Write::(write_all|write)|std::fs::(write|rename)"
                r"|tokio::fs::(write|rename)|tokio::io::util::async_write_ext::AsyncWriteExt::(write_all|flush)"
                r"|tokio::fs::File::(sync_all|sync_data)"
                r"|rocksdb::\w+(::\w+)*::(put_cf|put|write|write_opt|merge_cf|delete_cf|flush_wal|write_wbwi|write_wbwi_opt)"
                r"|bincode::\w*::?(serialize_into|encode_into_std_write))$")


def origin_slice(F, body, op, depth=3, through_calls=False):
    """XSlice of `op` whose parameter sources are additionally expanded through every caller of the
    enclosing function (argument at the same position), `depth` levels up.  Returns the merged slice
    (sources only).  Async fns: the coroutine's captured parameters are resolved by XSlice first."""
    s = XSlice(F, body, through_calls).operand(op)
    _expand_params(F, s, body, depth, through_calls, set())
    return s


def _expand_params(F, s, body, depth, through_calls, done):
    if depth <= 0:
        return
    params = sorted(set((x[1], x[2]) for x in s.sources if x[0] == "rparam"))
    for (rid, idx) in params:
        if (rid, idx) in done:
            continue
        done.add((rid, idx))
        for (croot, cbid, cbi, t) in F.callers_of(lambda k: k == rid):
            if idx - 1 >= len(t["args"]):
                continue
            cb = F.bodies[cbid]
            sub = XSlice(F, cb, through_calls).operand(t["args"][idx - 1])
            s.sources |= sub.sources
            _expand_params(F, sub, cb, depth - 1, through_calls, done)
            s.sources |= sub.sources


def only_via(F, fn_id, gate_ok, depth=4):
    """Walk the call graph upward from root function `fn_id`.  Every chain must reach a call site for
    which gate_ok(caller_root_id, body, block, terminator) is True before it reaches a function without
    callers or exhausts `depth`.  Returns (ok, offending chain or None, gate sites)."""
    gates = []

    def up(fid, chain, d):
        callers = [c for c in F.callers_of(lambda k: k == fid) if c[0] != fid]
        if not callers:
            return chain
        for (croot, cbid, cbi, t) in callers:
            g = gate_ok(croot, F.bodies[cbid], cbi, t)
            if g:
                gates.append((croot, cbid, cbi))
                continue
            if d <= 1:
                return chain + [croot]
            r = up(croot, chain + [croot], d - 1)
            if r is not None:
                return r
        return None
    bad = up(F.root_of.get(fn_id, fn_id), [fn_id], depth)
    return bad is None, bad, gates
