"""C15 Each committed entry is applied exactly once across crashes - 'the applied index travels with the
data' (DESIGN 4/C15).  Decides:
 (a) batch engines: the write batch that `apply_chunk` commits (`DB::write*`) also receives a put whose
     value derives from the applied entry's index, so data and applied index become durable atomically;
 (b) WAL engines: every WAL record carries the entry index (the encoder reads `ApplyEntry.index`), and the
     replay that rebuilds the data from the WAL also advances `last_applied_index` from the records it
     replayed - otherwise the reported applied index is lower than the data and Raft re-applies entries
     the data already contains;
 (c) checkpoint ordering: wherever the WAL is cleared together with a data/metadata persist, the clear is
     dominated by both persists;
 (d) restart: `NodeBuilder::build` seeds the state-machine handler and the initial role from
     `StateMachine::last_applied()`.
Necessary conditions, not the whole crash behaviour (torn writes inside one file are not decided)."""
from .common import *
from .helpers_r2 import *

EXPLANATION = __doc__

COMMIT_RX = r"rust_rocksdb::db::DBCommon::write(_wbwi)?(_opt)?(_without_wal)?$"
PUT_RX = r"rust_rocksdb::.*::put_cf(_opt)?$"
ATOMIC_STORE = r"atomic::Atomic\w*::(store|fetch_max|swap)$"


def is_index_value(sources):
    return src_has_field(sources, "ApplyEntry", "index") or src_has_field(sources, "LogId", "index")


def run(ctx):
    F = ctx.F
    impls = trait_impls(F, SM_TRAIT + "apply_chunk")
    ctx.floor("C15-a", len(impls), 2, "impls of StateMachine::apply_chunk")
    n_commit = 0
    n_wal = 0
    for root in impls:
        tag = engine_of(root)
        for b in real_bodies(F, root):
            # ------------------------------------------------------------ C15-a
            for (ci, ct) in calls_matching(b, COMMIT_RX):
                n_commit += 1
                batch = Slice(F, b).operand(ct["args"][1])
                puts = [(pi, pt) for (pi, pt) in calls_matching(b, PUT_RX) if Slice(F, b).operand(pt["args"][0]).seen & batch.seen]
                idx_puts = [(pi, pt) for (pi, pt) in puts if is_index_value(Slice(F, b, through_calls=True).operand(pt["args"][3]).sources)]
                name = strip_generics(callee_key(ct)).split("::")[-1]
                ctx.check("C15-a", "%s#commit:%s#carries-applied-index" % (fkey(root), name), bool(idx_puts),
                          "the committed batch also receives the applied index",
                          "%s apply_chunk commits a batch with %d data put(s) and no put derived from the entry index: data is durable at "
                          "%s, the applied index only when flush/close/drop runs. History: x=0; apply [CAS(x:1->2) fails, CAS(x:0->1) "
                          "succeeds] -> x=1; kill -9 before the next metadata flush; restart reports the old applied index, Raft re-applies "
                          "both entries on x=1: CAS(1->2) now succeeds, CAS(0->1) fails -> x=2 (replicas diverge)" % (tag, len(puts), name),
                          loc(b, ci))
        # ---------------------------------------------------------------- C15-b WAL engines
        wal_writers = [k for k in F.reach_calls(root.id, ctx.depth) if k in F.bodies and re.search(r"wal", fkey(k), re.I)
                       and ("ApplyEntry", "index") in set((a.split("::")[-1], f) for b in real_bodies(F, k) for (a, f) in fields_read(b))]
        ty = strip_generics(root.self_ty or "")
        replays = [b for b in F.bodies.values() if b.parent is None and b.self_ty and strip_generics(b.self_ty) == ty
                   and re.search(r"replay", fkey(b), re.I)]
        if not replays:
            continue
        n_wal += 1
        ctx.check("C15-b", "%s#wal-record-carries-index" % fkey(root), bool(wal_writers),
                  "the WAL encoder reached from apply_chunk reads ApplyEntry.index (%s)" % [fkey(k) for k in wal_writers][:2],
                  "no WAL-encoding function reached from apply_chunk reads ApplyEntry.index: records cannot be matched to log indexes",
                  "%s:%s" % (root.file, root.line))
        for rp in replays:
            stores = []
            writes_data = False
            for b in real_bodies(F, rp):
                for (bi, t) in b.calls():
                    k = strip_generics(callee_key(t) or "")
                    if re.search(r"Map::insert$", k) and recv_has_self_field(F, b, t, ty.split("::")[-1]):
                        writes_data = True
                    if re.search(ATOMIC_STORE, k) and recv_has_self_field(F, b, t, ty.split("::")[-1], "last_applied_index"):
                        stores.append((b, bi, t))
                    elif F.call_reaches(t, key_pred(r"StateMachine>?::update_last_applied$|::update_last_applied$"), ctx.depth):
                        stores.append((b, bi, t))
            if not writes_data:
                continue
            # the stored value must be computed (from the parsed records), not a constant
            from_wal = [x for x in stores if len(x[2]["args"]) > 1 and
                        any(y[0] not in ("const", "agg") for y in Slice(F, x[0], through_calls=True).operand(x[2]["args"][1]).sources)]
            ctx.check("C15-b", "%s#advances-last_applied" % fkey(rp), bool(from_wal),
                      "replay stores the replayed index into last_applied_index",
                      "%s rebuilds the data from the WAL but never advances last_applied_index from the record indexes it parsed "
                      "(%d store(s) of a computed value found). History: checkpoint at index 10; apply 11..12 = [CAS(x:1->2) fails, "
                      "CAS(x:0->1) succeeds] (WAL appended, x=1); kill -9; restart: replay restores x=1 but last_applied() still says 10, "
                      "NodeBuilder seeds commit/applied = 10 and Raft re-applies 11..12 on x=1: CAS(1->2) succeeds -> x=2" % (fkey(rp), len(stores)),
                      "%s:%s" % (rp.file, rp.line))
    ctx.floor("C15-a", n_commit, 1, "batch commits (DB::write*) in apply_chunk impls")
    ctx.floor("C15-b", n_wal, 1, "WAL-replaying state machines")

    # ---------------------------------------------------------------- C15-c clear WAL only after data + metadata are persisted
    n_c = 0
    for root in [b for b in F.bodies.values() if b.parent is None and b.self_ty and strip_generics(b.self_ty).endswith("FileStateMachine")]:
        for b in real_bodies(F, root):
            clears = calls_matching(b, r"FileStateMachine::clear_wal(_async)?$")
            pdata = [x for x, _ in calls_matching(b, r"FileStateMachine::persist_data(_async)?$")]
            pmeta = [x for x, _ in calls_matching(b, r"FileStateMachine::persist_metadata(_async)?$")]
            if not clears or not (pdata or pmeta):
                continue
            for (ci, _t) in clears:
                n_c += 1
                ok = any(b.dominates(x, ci) for x in pdata) and any(b.dominates(x, ci) for x in pmeta)
                ctx.check("C15-c", "%s#clear_wal-after-persist" % fkey(root), ok, "clear_wal is dominated by persist_data and persist_metadata",
                          "the WAL is cleared on a path where the data or the applied index has not been persisted first: a crash between the clear "
                          "and the missing persist leaves data and applied index out of step with nothing left to replay (metadata ahead of "
                          "data: entries lost; data ahead of metadata: entries re-applied)", loc(b, ci))
    ctx.floor("C15-c", n_c, 2, "clear_wal sites paired with persists (checkpoint, apply_snapshot_from_file)")

    # ---------------------------------------------------------------- C15-d restart seeds from last_applied()
    build = ctx.anchor(F.method, "NodeBuilder", "build")
    n_d = 0
    if build:
        for b in real_bodies(F, build):
            for (bi, t) in calls_matching(b, r"(DefaultStateMachineHandler::new|FollowerState::new)$"):
                n_d += 1
                name = "::".join(strip_generics(callee_key(t)).split("::")[-2:])
                ok = any(src_has_call(slice_up(F, b, a), r"StateMachine::last_applied$") for a in t["args"])
                ctx.check("C15-d", "%s#%s" % (fkey(build), name), ok, "constructed from StateMachine::last_applied()",
                          "%s is built without the state machine's persisted applied index: after a restart the node would re-apply "
                          "from index 0 (or skip entries)" % name, loc(b, bi))
    ctx.floor("C15-d", n_d, 2, "DefaultStateMachineHandler::new / FollowerState::new in NodeBuilder::build")
