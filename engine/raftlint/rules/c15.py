"""C15 Each committed entry is applied exactly once across crashes - 'the applied index travels with the
data' (DESIGN 4/C15).  Decides:
 (a) batch engines: the write batch that `apply_chunk` commits (`DB::write*`) also receives a put whose
     value derives from the applied entry's index, so data and applied index become durable atomically;
 (b) WAL engines: every WAL record carries the entry index (the encoder reads `ApplyEntry.index`), and the
     replay that rebuilds the data from the WAL also advances `last_applied_index` from the records it
     replayed - otherwise the reported applied index is lower than the data and Raft re-applies entries
     the data already contains;
 (c) EVERY place that empties the WAL is dominated by a persist of the data and of the applied index in the same
     function (or wipes the data files too, as reset does): the WAL is the only durable copy of what was applied
     since the last checkpoint;
 (e) in apply_chunk the advance of last_applied precedes everything that persists the metadata (checkpoint);
 (d) restart: `NodeBuilder::build` seeds the state-machine handler and the initial role from
     `StateMachine::last_applied()`.
Necessary conditions, not the whole crash behaviour (torn writes inside one file are not decided)."""
from .common import *
from .helpers_r2 import *

EXPLANATION = __doc__

COMMIT_RX = r"rust_rocksdb::db::DBCommon::write(_wbwi)?(_opt)?(_without_wal)?$"
PUT_RX = r"rust_rocksdb::.*::put_cf(_opt)?$"
ATOMIC_STORE = r"atomic::Atomic\w*::(store|fetch_max|swap)$"


def is_index_value(sources):
    return src_has_field(sources, "ApplyEntry", "index") or src_has_field(sources, "LogId", "index")


def run(ctx):
    F = ctx.F
    impls = trait_impls(F, SM_TRAIT + "apply_chunk")
    ctx.floor("C15-a", len(impls), 2, "impls of StateMachine::apply_chunk")
    n_adv = 0
    n_commit = 0
    n_wal = 0
    for root in impls:
        tag = engine_of(root)
        for b in real_bodies(F, root):
            # ------------------------------------------------------------ C15-a
            for (ci, ct) in calls_matching(b, COMMIT_RX):
                n_commit += 1
                batch = Slice(F, b).operand(ct["args"][1])
                puts = [(pi, pt) for (pi, pt) in calls_matching(b, PUT_RX) if Slice(F, b).operand(pt["args"][0]).seen & batch.seen]
                idx_puts = [(pi, pt) for (pi, pt) in puts if is_index_value(Slice(F, b, through_calls=True).operand(pt["args"][3]).sources)]
                if not idx_puts:
                    # the index puts may be staged by a private helper that is handed the batch and the applied id
                    # (`Self::stage_last_applied(db, &mut batch, highest)`)
                    for (hi, ht) in b.calls():
                        if not any(Slice(F, b).operand(a).seen & batch.seen for a in ht["args"]):
                            continue
                        if not any(is_index_value(Slice(F, b, through_calls=True).operand(a).sources) or
                                   Slice(F, b, through_calls=True).operand(a).has_field("LogId", "index") or
                                   any(x[0] == "field" and x[2] in ("index",) for x in Slice(F, b, through_calls=True).operand(a).sources) for a in ht["args"]):
                            continue
                        for tg in F.resolve_targets(ht):
                            if tg in F.bodies and strip_generics(self_type_of(F, tg) or "") == strip_generics(root.self_ty or ""):
                                for hb in real_bodies(F, F.bodies[tg]):
                                    for (pi, pt) in calls_matching(hb, PUT_RX):
                                        vs = Slice(F, hb, through_calls=True).operand(pt["args"][3])
                                        if vs.has_field("LogId", "index") or is_index_value(vs.sources):
                                            idx_puts.append((hi, ht))
                name = strip_generics(callee_key(ct)).split("::")[-1]
                ctx.check("C15-a", "%s#commit:%s#carries-applied-index" % (fkey(root), name), bool(idx_puts),
                          "the committed batch also receives the applied index",
                          "%s apply_chunk commits a batch with %d data put(s) and no put derived from the entry index: data is durable at "
                          "%s, the applied index only when flush/close/drop runs. History: x=0; apply [CAS(x:1->2) fails, CAS(x:0->1) "
                          "succeeds] -> x=1; kill -9 before the next metadata flush; restart reports the old applied index, Raft re-applies "
                          "both entries on x=1: CAS(1->2) now succeeds, CAS(0->1) fails -> x=2 (replicas diverge)" % (tag, len(puts), name),
                          loc(b, ci))
        # ---------------------------------------------------------------- C15-b WAL engines
        wal_writers = [k for k in F.reach_calls(root.id, ctx.depth) if k in F.bodies and re.search(r"wal", fkey(k), re.I)
                       and ("ApplyEntry", "index") in set((a.split("::")[-1], f) for b in real_bodies(F, k) for (a, f) in fields_read(b))]
        ty = strip_generics(root.self_ty or "")
        replays = [b for b in F.bodies.values() if b.parent is None and b.self_ty and strip_generics(b.self_ty) == ty
                   and re.search(r"replay", fkey(b), re.I)]
        if not replays:
            continue
        n_wal += 1
        ctx.check("C15-b", "%s#wal-record-carries-index" % fkey(root), bool(wal_writers),
                  "the WAL encoder reached from apply_chunk reads ApplyEntry.index (%s)" % [fkey(k) for k in wal_writers][:2],
                  "no WAL-encoding function reached from apply_chunk reads ApplyEntry.index: records cannot be matched to log indexes",
                  "%s:%s" % (root.file, root.line))
        for rp in replays:
            stores = []
            writes_data = False
            for b in real_bodies(F, rp):
                for (bi, t) in b.calls():
                    k = strip_generics(callee_key(t) or "")
                    if re.search(r"Map::insert$", k) and recv_has_self_field(F, b, t, ty.split("::")[-1]):
                        writes_data = True
                    if re.search(ATOMIC_STORE, k) and recv_has_self_field(F, b, t, ty.split("::")[-1], "last_applied_index"):
                        stores.append((b, bi, t))
                    elif F.call_reaches(t, key_pred(r"StateMachine>?::update_last_applied$|::update_last_applied$"), ctx.depth):
                        stores.append((b, bi, t))
            if not writes_data:
                # the per-record work may live in a helper: look one level down before giving up, and fail closed
                writes_data = any(F.call_reaches(t, lambda k: re.search(r"Map(::<.*>)?::(insert|extend)$", strip_generics(k)) is not None, 3)
                                  for b in real_bodies(F, rp) for (_bi, t) in b.calls())
                for b in real_bodies(F, rp):
                    for (bi, t) in b.calls():
                        if F.call_reaches(t, key_pred(r"StateMachine>?::update_last_applied$|::update_last_applied$"), ctx.depth) or \
                                F.call_reaches(t, lambda k: re.search(ATOMIC_STORE, strip_generics(k)) is not None, 2):
                            if (b, bi, t) not in stores:
                                stores.append((b, bi, t))
            if not writes_data:
                ctx.bad("C15-b", "%s#advances-last_applied" % fkey(rp), "UNRECOGNISED-FORM: %s is named like a WAL replay but no write into the data map is reachable from it: "
                        "the rule cannot tell whether it rebuilds data without advancing last_applied" % fkey(rp), "%s:%s" % (rp.file, rp.line))
                n_adv += 1
                continue
            n_adv += 1
            # the stored value must be computed (from the parsed records), not a constant
            from_wal = [x for x in stores if len(x[2]["args"]) > 1 and
                        any(y[0] not in ("const", "agg") for y in Slice(F, x[0], through_calls=True).operand(x[2]["args"][1]).sources)]
            ctx.check("C15-b", "%s#advances-last_applied" % fkey(rp), bool(from_wal),
                      "replay stores the replayed index into last_applied_index",
                      "%s rebuilds the data from the WAL but never advances last_applied_index from the record indexes it parsed "
                      "(%d store(s) of a computed value found). History: checkpoint at index 10; apply 11..12 = [CAS(x:1->2) fails, "
                      "CAS(x:0->1) succeeds] (WAL appended, x=1); kill -9; restart: replay restores x=1 but last_applied() still says 10, "
                      "NodeBuilder seeds commit/applied = 10 and Raft re-applies 11..12 on x=1: CAS(1->2) succeeds -> x=2" % (fkey(rp), len(stores)),
                      "%s:%s" % (rp.file, rp.line))
    ctx.floor("C15-a", n_commit, 1, "batch commits (DB::write*) in apply_chunk impls")
    ctx.floor("C15-b", n_wal, 1, "WAL-replaying state machines")
    ctx.floor("C15-b", n_adv, 1, "WAL replay functions examined for advancing last_applied")

    # ---------------------------------------------------------------- C15-c clear WAL only after data + metadata are persisted
    # EVERY place that empties the WAL: the WAL is the only durable copy of what was applied since the last checkpoint, so
    # emptying it is allowed only after both the data and the applied index were persisted in the same function, or together
    # with the data itself (reset: the data and metadata files are cleared too)
    n_c = 0
    for root in [b for b in F.bodies.values() if b.parent is None and b.self_ty and strip_generics(b.self_ty).endswith("FileStateMachine")]:
        if re.search(r"::clear_wal(_async)?$", strip_generics(root.id)):
            continue
        for b in real_bodies(F, root):
            clears = calls_matching(b, r"FileStateMachine::clear_wal(_async)?$")
            if not clears:
                continue
            pdata = [x for x, t in b.calls() if F.call_reaches(t, lambda k: re.search(r"FileStateMachine::persist_data(_async)?$", strip_generics(k)) is not None, 2)]
            pmeta = [x for x, t in b.calls() if F.call_reaches(t, lambda k: re.search(r"FileStateMachine::persist_metadata(_async)?$", strip_generics(k)) is not None, 2)]
            wipes = [x for x, _ in calls_matching(b, r"FileStateMachine::clear_data_file$")] and [x for x, _ in calls_matching(b, r"FileStateMachine::clear_metadata_file$")]
            for (ci, _t) in clears:
                n_c += 1
                ok = (any(b.dominates(x, ci) for x in pdata) and any(b.dominates(x, ci) for x in pmeta)) or bool(wipes)
                ctx.check("C15-c", "%s#clear_wal-after-persist" % fkey(root), ok, "clear_wal is dominated by persist_data and persist_metadata (or wipes the data too)",
                          "the WAL is cleared on a path where the data or the applied index has not been persisted first: the cleared records are the only durable copy of the "
                          "entries applied since the last checkpoint. History (two crashes): entries 1..3 are applied (WAL only) and the process is killed; on restart the WAL is "
                          "replayed into memory and emptied without a checkpoint; entry 4 is applied (WAL = [4]); the process is killed again: the next start loads the old "
                          "checkpoint (without 1..3), replays [4] and reports last_applied = 4 - entries 1..3 are applied zero times", loc(b, ci))
    ctx.floor("C15-c", n_c, 3, "clear_wal sites (checkpoint, apply_snapshot_from_file, replay_wal, reset)")

    # ---------------------------------------------------------------- C15-e a checkpoint persists the applied index of the data it persists
    # in a function that advances last_applied for the entries it has just put into the data (apply_chunk), the advance comes BEFORE
    # anything that persists the metadata: persist_metadata reads the last_applied atomics, a checkpoint taken first writes the new
    # data with the previous chunk's index and then clears the WAL, the only other carrier of the indexes
    n_e = 0
    for root in trait_impls(F, SM_TRAIT + "apply_chunk"):
        for b in real_bodies(F, root):
            ups = [x for x, t in b.calls() if re.search(r"::update_last_applied$", strip_generics(callee_key(t) or ""))
                   or (re.search(r"atomic::Atomic\w*::(store|fetch_max|swap)$", strip_generics(callee_key(t) or "")) and t["args"]
                       and Slice(F, b).operand(t["args"][0]).has_field("", "last_applied_index"))]
            pers = [x for x, t in b.calls() if F.call_reaches(t, lambda k: re.search(r"::(persist_metadata(_async)?|persist_last_applied\w*|checkpoint)$", strip_generics(k)) is not None, 2)]
            if not ups or not pers:
                continue
            for pi in pers:
                n_e += 1
                seen, _p = b.reach_from(pi)
                late = [u for u in ups if u in seen and u != pi and not b.dominates(u, pi)]
                ctx.check("C15-e", "%s#applied-index-advanced-before-metadata-persist" % fkey(root), not late,
                          "last_applied is advanced before the metadata / checkpoint is persisted",
                          "apply_chunk persists the metadata (checkpoint) BEFORE it advances last_applied (%s): the checkpoint stores the chunk's data with the previous chunk's "
                          "applied index and clears the WAL; after a kill the node reports an index below its data and Raft re-applies the chunk (CAS re-evaluated, TTLs renewed)"
                          % [loc(b, u) for u in late], loc(b, pi))
    ctx.floor("C15-e", n_e, 1, "metadata-persisting calls in apply_chunk impls that also advance last_applied")

    # ---------------------------------------------------------------- C15-d restart seeds from last_applied()
    build = ctx.anchor(F.method, "NodeBuilder", "build")
    n_d = 0
    if build:
        for b in real_bodies(F, build):
            for (bi, t) in calls_matching(b, r"(DefaultStateMachineHandler::new|FollowerState::new)$"):
                n_d += 1
                name = "::".join(strip_generics(callee_key(t)).split("::")[-2:])
                ok = any(src_has_call(slice_up(F, b, a), r"StateMachine::last_applied$") for a in t["args"])
                ctx.check("C15-d", "%s#%s" % (fkey(build), name), ok, "constructed from StateMachine::last_applied()",
                          "%s is built without the state machine's persisted applied index: after a restart the node would re-apply "
                          "from index 0 (or skip entries)" % name, loc(b, bi))
    ctx.floor("C15-d", n_d, 2, "DefaultStateMachineHandler::new / FollowerState::new in NodeBuilder::build")
