"""helpers shared by the state-machine / storage rule modules (C15 C16 C17 C21 C22 C23 C25)"""
import re

from .common import *

SM_TRAIT = "d_engine_core::storage::state_machine::StateMachine::"
META_TRAIT = "d_engine_core::storage::storage_engine::MetaStore::"


def trait_impls(F, trait_method):
    """root bodies of every workspace impl of a trait method (full declared path)"""
    return [F.bodies[d] for (_s, d) in F.impls_of_method.get(trait_method, []) if d in F.bodies]


def engine_of(body_or_id):
    """short engine tag from the self type of an impl ("File" / "RocksDB" / type name)"""
    k = fkey(body_or_id).split("::")[0]
    for tag in ("RocksDB", "File"):
        if k.startswith(tag):
            return tag
    return k


def path_avoiding(body, start, goals, avoid=(), removed_edges=()):
    """witness path start -> any goal in the edge-split graph that enters no `avoid` block and
    takes no removed edge (goals are not expanded); None if every path is cut"""
    goals = set(goals)
    avoid = frozenset(b for b in avoid if b != start)
    seen, parent = body.reach_from(start, removed_edges=frozenset(removed_edges), avoid_blocks=avoid,
                                   stop_blocks=frozenset(goals))
    for g in sorted(goals):
        if g in seen and g != start:
            return body.path_to(parent, start, g)
    return None


def error_exit_blocks(body):
    """blocks that propagate an error with `?` (FromResidual) - such paths abort the operation"""
    return [bi for bi, t in body.calls() if "from_residual" in (callee_key(t) or "")]


def reaching_calls(F, body, pred, depth):
    """[(bi, t)] calls of `body` that are, or transitively reach, a callee satisfying pred"""
    out = []
    for bi, t in body.calls():
        if F.call_reaches(t, pred, depth):
            out.append((bi, t))
    return out


def key_pred(rx):
    r = re.compile(rx)
    return lambda k: bool(k) and bool(r.search(strip_generics(k)) or r.search(k))


def recv_has_self_field(F, body, t, self_suffix, field=None):
    """does the receiver (arg0) of call t derive from a field of the type `self_suffix`"""
    if not t["args"]:
        return False
    s = Slice(F, body, through_calls=True).operand(t["args"][0])
    for x in s.sources:
        if x[0] == "field" and strip_generics(x[1]).endswith(self_suffix) and (field is None or x[2] == field):
            return True
    return False


def shares_value(s1, s2):
    """two slices derive from a common local or a common field"""
    if s1.seen & s2.seen:
        return True
    f1 = set(x for x in s1.sources if x[0] == "field")
    return bool(f1 & set(x for x in s2.sources if x[0] == "field"))


def variant_arms(body, conds, adt_suffix):
    """[(Cond, entry block)] for every switch edge on the discriminant of an enum `adt_suffix`"""
    out = []
    for c in conds.values():
        if c.kind == "discr" and c.adt and strip_generics(c.adt).endswith(adt_suffix) and c.variants:
            out.append((c, c.edge["dst"]))
    return out


def arm_of(body, arms, site):
    """the innermost (Cond, entry) whose entry block dominates `site`"""
    best = None
    for (c, e) in arms:
        if body.dominates(e, site):
            if best is None or body.dominates(best[1], e):
                best = (c, e)
    return best


def none_edges_of_field(F, body, conds, field):
    """edge ids taken when an Option held in (any adt).`field` is None (feature not configured)"""
    out = set()
    for eid, c in conds.items():
        if c.kind == "discr" and c.variants == {"None"} and (c.adt or "").endswith("option::Option"):
            if cond_slice(F, c).has_field("", field):
                out.add(eid)
    return out


def atomic_field_ops(F, body, adt_suffix, field, rx):
    """atomic / lock method calls on self.<field> (receiver projects through the field)"""
    return field_receiver_calls(F, body, adt_suffix, field, rx)


def real_bodies(F, root):
    """bodies of a function group that carry a CFG of their own (skip tracing callsite statics)"""
    return [b for b in F.group_bodies(root) if b.kind in ("Fn", "AssocFn", "Closure") or b.coroutine]


def slice_up(F, body, op, through_calls=False, _depth=0):
    """Slice of an operand that also follows captured variables into the enclosing body
    (closure upvar i = operand i of the closure aggregate in the parent).  Returns a set of sources."""
    s = Slice(F, body, through_calls).operand(op)
    out = set(s.sources)
    if _depth > 4 or not body.parent or body.parent not in F.bodies:
        return out
    names = [x[1] for x in s.sources if x[0] == "upvar"]
    if not names:
        return out
    pb = F.bodies[body.parent]
    for blk in pb.blocks:
        for st in blk["st"]:
            rv = st.get("rv")
            if rv and rv["k"] == "agg" and rv.get("closure") == body.id:
                for n in names:
                    # a captured place `a.b.c` is listed under its full path; match by position
                    if n in body.upvars:
                        i = body.upvars.index(n)
                        if i < len(rv["ops"]):
                            out |= slice_up(F, pb, rv["ops"][i], through_calls, _depth + 1)
    return out


def src_has_call(sources, rx):
    r = re.compile(rx)
    return any(x[0] == "call" and (r.search(strip_generics(x[1])) or r.search(x[1])) for x in sources)


def src_has_field(sources, adt_suffix, field):
    return any(x[0] == "field" and x[2] == field and strip_generics(x[1]).endswith(adt_suffix) for x in sources)
