"""C01 Election safety - structural election rules (DESIGN 4/C01).
Decides the mechanisms one node contributes to 'one leader per term': candidate bumps the term and
votes for itself before soliciting votes; BecomeLeader only on a successful vote round; the round
succeeds only under is_majority(granted, voters+1) over all current voters; only followers grant
votes; the vote is cleared only together with a term advance; a leader that sees a higher term
steps down.  Necessary conditions, not the global protocol property."""
import re

from .common import *

EXPLANATION = __doc__
TECHNIQUE = "static analysis of rustc MIR facts: dominance/guard and value-provenance rules plus exact symbolic decision tables of loop-free guard functions (exhaustive over weak orderings)"


def run(ctx):
    F = ctx.F
    # ---------------------------------------------------------------- C01-a
    tick = ctx.anchor(F.method, "CandidateState", "tick")
    n_a = 0
    if tick:
        mb = F.main_body(tick)
        bsites = calls_matching(mb, r"ElectionCore::broadcast_vote_requests$")
        for (bi, t) in bsites:
            n_a += 1
            inc = [b for b, _ in calls_matching(mb, r"::increase_current_term$") if mb.dominates(b, bi)]
            votes = []
            for (b2, t2) in mb.calls():
                if mb.dominates(b2, bi) and F.call_reaches(t2, lambda k: strip_generics(k).endswith("SharedState::update_voted_for"), ctx.depth):
                    votes.append(b2)
            key = "%s#broadcast_vote_requests" % fkey(tick)
            ok = bool(inc) and bool(votes) and any(mb.dominates(i, v) and i != v for i in inc for v in votes)
            ctx.check("C01-a", key, ok,
                      "term bump bb%s and self-vote bb%s dominate the vote broadcast, in that order" % (inc, votes),
                      "vote broadcast not dominated by increase_current_term followed by a self-vote (inc=%s votes=%s)" % (inc, votes),
                      loc(mb, bi))
            # term argument of the request is the bumped term: arg1 derives from current_term()
            s = Slice(F, mb).operand(t["args"][1])
            ctx.check("C01-a", key + "#term-arg", s.has_call(r"::current_term$"),
                      "term argument derives from current_term() read after the bump",
                      "term argument of broadcast_vote_requests does not derive from current_term(): %s" % sorted(s.sources)[:6], loc(mb, bi))
    ctx.floor("C01-a", n_a, 1, "broadcast_vote_requests call in CandidateState::tick")
    vm = ctx.anchor(F.method, "CandidateState", "vote_myself")
    if vm:
        sites = [(b, bi, si, st) for b in F.group_bodies(vm) for (bi, si, st) in agg_sites(b, "VotedFor")]
        ctx.floor("C01-a", len(sites), 1, "VotedFor aggregate in vote_myself")
        for (b, bi, si, st) in sites:
            sid = Slice(F, b).operand(agg_field(st, "voted_for_id"))
            stm = Slice(F, b).operand(agg_field(st, "voted_for_term"))
            ctx.check("C01-a", "%s#VotedFor" % fkey(vm), sid.has_call(r"::node_id$") and stm.has_call(r"::current_term$"),
                      "self-vote is (node_id(), current_term())",
                      "self-vote fields do not derive from node_id()/current_term(): id=%s term=%s" % (sorted(sid.sources)[:4], sorted(stm.sources)[:4]),
                      loc(b, bi))

    # ---------------------------------------------------------------- C01-b
    sites = all_agg_sites(F, "InternalEvent", "BecomeLeader", crates=("d_engine_core", "d_engine_server"))
    ctx.floor("C01-b", len(sites), 1, "InternalEvent::BecomeLeader construction")
    for (b, bi, si, st) in sites:
        root = F.root_of[b.id]
        key = "%s#BecomeLeader" % fkey(root)
        allowed = tick is not None and root == tick.id
        ctx.check("C01-b", key + "#who", allowed, "constructed in CandidateState::tick",
                  "InternalEvent::BecomeLeader constructed outside CandidateState::tick", loc(b, bi))
        if allowed:
            conds = edge_conditions(b)
            ok, wit, _ = guarded_by(b, bi, lambda c: c.kind == "discr" and c.variants == {"Ok"} and cond_calls(F, c, r"broadcast_vote_requests$"), conds)
            ctx.check("C01-b", key + "#guard", ok, "dominated by the Ok arm of broadcast_vote_requests",
                      "BecomeLeader reachable without passing the Ok arm of broadcast_vote_requests", loc(b, bi), wit and bpath(b, wit))
    # become_leader returns Ok only for CandidateState
    impls = [d for (_s, d) in F.impls_of_method.get("d_engine_core::raft_role::role_state::RaftRoleState::become_leader", [])]
    ctx.floor("C01-b", len(impls), 4, "impls of RaftRoleState::become_leader")
    for d in impls:
        b = F.bodies.get(d)
        if not b:
            continue
        oks = [x for x in return_aggs(b) if x[2]["rv"]["k"] == "agg" and x[2]["rv"].get("adt", "").endswith("result::Result") and x[2]["rv"]["v"] == "Ok"]
        is_cand = "CandidateState" in (b.self_ty or "")
        if is_cand:
            ctx.check("C01-b", "%s#Ok" % fkey(b), len(oks) >= 1, "candidate can become leader", "CandidateState::become_leader has no Ok path")
        else:
            rets = return_aggs(b)
            only_err = len(oks) == 0 and len(rets) >= 1 and all(x[2]["rv"]["k"] == "agg" and x[2]["rv"].get("v") == "Err" for x in rets)
            ctx.check("C01-b", "%s#never-Ok" % fkey(b), only_err, "returns Err on every path",
                      "non-candidate become_leader can return something other than Err (%d Ok aggregates, %d return assignments)" % (len(oks), len(rets)), "%s:%s" % (b.file, b.line))

    # ---------------------------------------------------------------- C01-c
    bv = ctx.anchor(F.method, "ElectionHandler", "broadcast_vote_requests")
    if bv:
        mb = F.main_body(bv)
        conds = edge_conditions(mb)
        oks = [x for x in return_aggs(mb) if x[2]["rv"]["k"] == "agg" and x[2]["rv"].get("v") == "Ok"]
        ctx.floor("C01-c", len(oks), 1, "Ok returns in broadcast_vote_requests")

        def maj_true(c):
            return c.truth is True and cond_calls(F, c, r"cluster::is_majority$")

        def single_true(c):
            return c.truth is True and cond_calls(F, c, r"Membership::is_single_node_cluster$")
        n_major = 0
        for (bi, si, st) in oks:
            okm, _w, _ = guarded_by(mb, bi, maj_true, conds)
            oks_, _w2, _ = guarded_by(mb, bi, single_true, conds)
            okany, wit, _ = guarded_by(mb, bi, lambda c: maj_true(c) or single_true(c), conds)
            if okm:
                n_major += 1
            ctx.check("C01-c", "%s#Ok-return#%s" % (fkey(bv), "majority" if okm else ("sole-voter" if oks_ else "unguarded")), okany,
                      "Ok return guarded by %s" % ("is_majority" if okm else "sole-voter shortcut (see C03)"),
                      "Ok return reachable without a true is_majority(..) test or the sole-voter shortcut", loc(mb, bi), wit and bpath(mb, wit))
        ctx.floor("C01-c", n_major, 1, "Ok return guarded by is_majority")
        # arguments of is_majority
        for (bi, t) in calls_matching(mb, r"cluster::is_majority$"):
            s0 = Slice(F, mb).operand(t["args"][0])
            s1 = Slice(F, mb).operand(t["args"][1])
            # arg0: counter initialised to const 1 and incremented by const 1 only
            ctx.check("C01-c", "%s#is_majority#granted" % fkey(bv), set(s0.consts()) <= {"1"} and (("binop", "AddWithOverflow") in s0.sources or ("binop", "Add") in s0.sources),
                      "granted-vote counter = 1 (self) + increments by 1", "granted-vote counter has unexpected provenance: %s" % sorted(s0.sources)[:8], loc(mb, bi))
            ctx.check("C01-c", "%s#is_majority#required" % fkey(bv), s1.has_field("VoteResult", "peer_ids") and "1" in s1.consts() and not s1.has_field("VoteResult", "responses"),
                      "required = peer_ids.len() + 1 (all voters the transport counted, plus self)",
                      "`required` does not derive from VoteResult.peer_ids (+1): %s" % sorted(s1.sources)[:8], loc(mb, bi))
        # every increment of the counter is under vote_granted == true
        incs = []
        for bi, blk in enumerate(mb.blocks):
            for si, st in enumerate(blk["st"]):
                rv = st.get("rv")
                if rv and rv["k"] == "bin" and rv["op"] in ("Add", "AddWithOverflow") and not is_noise_exp(st.get("exp")):
                    a = rv["a"]
                    if "p" in a and mb.local_name(a["p"]["l"]) and not a["p"].get("pj"):
                        # counter local that also flows into is_majority arg0
                        incs.append((bi, a["p"]["l"]))
        maj = calls_matching(mb, r"cluster::is_majority$")
        counters = set()
        for (_bi, t) in maj:
            s0 = Slice(F, mb).operand(t["args"][0])
            counters |= s0.seen
        incs = [(bi, l) for (bi, l) in incs if l in counters]
        ctx.floor("C01-c", len(incs), 1, "vote counter increment")
        for (bi, l) in incs:
            ok, wit, _ = guarded_by(mb, bi, lambda c: c.truth is True and cond_reads_field(F, c, "VoteResponse", "vote_granted"), conds)
            ctx.check("C01-c", "%s#count-only-granted" % fkey(bv), ok, "counter incremented only under vote_granted == true",
                      "vote counter incremented on a path that does not test VoteResponse.vote_granted", loc(mb, bi), wit and bpath(mb, wit))
    # transport counts every voter before any connection-dependent skip
    sv = ctx.anchor(F.method, "GrpcTransport", "send_vote_requests")
    if sv:
        mb = F.main_body(sv)
        ins = calls_matching(mb, r"HashSet::insert$")
        chan = calls_matching(mb, r"Membership::get_peer_channel$")
        vot = calls_matching(mb, r"Membership::voters$")
        ctx.floor("C01-c", len(ins), 1, "peer_ids.insert in send_vote_requests")
        ctx.floor("C01-c", len(chan), 1, "get_peer_channel in send_vote_requests")
        ctx.floor("C01-c", len(vot), 1, "Membership::voters in send_vote_requests")
        for (ci, ct) in chan:
            ok = any(mb.dominates(ii, ci) for (ii, _t) in ins)
            ctx.check("C01-c", "%s#count-before-channel" % fkey(sv), ok, "peer counted (peer_ids.insert) before the channel lookup can skip it",
                      "a voter without a channel is skipped before it is counted in peer_ids (quorum would shrink to reachable peers)", loc(mb, ci))
        for (bi, si, st) in agg_sites(mb, "VoteResult"):
            s = Slice(F, mb).operand(agg_field(st, "peer_ids"))
            recv = set()
            for (ii, it) in ins:
                recv |= Slice(F, mb).operand(it["args"][0]).seen
            ctx.check("C01-c", "%s#VoteResult.peer_ids" % fkey(sv), bool(s.seen & recv), "VoteResult.peer_ids is the counted set",
                      "VoteResult.peer_ids is not the set the voters were inserted into", loc(mb, bi))
    im = ctx.anchor(F.fn, "d_engine_core::utils::cluster::is_majority")
    if im:
        # normal form: Gt(num, Div(total, 2))  (accepted equivalents: Lt(Div(total,2), num))
        forms = []
        for bi, blk in enumerate(im.blocks):
            for st in blk["st"]:
                rv = st.get("rv")
                if rv and rv["k"] == "bin":
                    forms.append(rv)
        # (overflow / division-by-zero assertions compare two constants: not part of the decision)
        cmpv = [rv for rv in forms if rv["op"] in ("Gt", "Lt", "Ge", "Le", "Eq", "Ne") and not ("c" in rv["a"] and "c" in rv["b"])]
        ok = False
        desc = "expected exactly one comparison, found %d" % len(cmpv)
        if len(cmpv) == 1:
            c = cmpv[0]

            def srcs(o):
                return Slice(F, im).operand(o).sources

            def is_num(o):
                s = srcs(o)
                return s == {("param", 1, im.local_name(1))}

            def is_half(o):
                s = srcs(o)
                return s == {("param", 2, im.local_name(2)), ("binop", "Div"), ("const", "2")}
            if c["op"] == "Gt":
                ok = is_num(c["a"]) and is_half(c["b"])
            elif c["op"] == "Lt":
                ok = is_num(c["b"]) and is_half(c["a"])
            desc = "%s(%s ; %s)" % (c["op"], sorted(srcs(c["a"])), sorted(srcs(c["b"])))
        ctx.check("C01-c", "is_majority#normal-form", ok, "is_majority(num,total) == num > total/2",
                  "is_majority is not in an accepted normal form of `num > total/2`: %s" % desc, "%s:%s" % (im.file, im.line))

    # ---------------------------------------------------------------- C01-d (who may grant)
    vr = all_agg_sites(F, "election::VoteResponse", None, crates=("d_engine_core", "d_engine_server"))
    ctx.floor("C01-d", len(vr), 4, "VoteResponse constructions")
    for (b, bi, si, st) in vr:
        o = agg_field(st, "vote_granted")
        root = F.root_of[b.id]
        const_false = o is not None and o.get("v") == "false"
        in_follower = self_type_of(F, root).endswith("follower_state::FollowerState")
        in_default = "impl" in root and "Default" in root
        ctx.check("C01-d", "%s#VoteResponse.vote_granted" % fkey(root), const_false or in_follower or in_default,
                  "vote_granted is const false" if const_false else "follower-side response",
                  "a non-follower role builds a VoteResponse whose vote_granted is not constant false", loc(b, bi))

    # ---------------------------------------------------------------- C01-d exact decision tables
    _vote_tables(ctx)

    # ---------------------------------------------------------------- C01-e vote cleared only with a term advance
    rs = F.callers_of(lambda k: strip_generics(k).endswith("RaftRoleState::reset_voted_for"))
    rs = [x for x in rs if not strip_generics(x[0]).endswith("RaftRoleState::reset_voted_for")]
    ctx.floor("C01-e", len(rs), 2, "reset_voted_for call sites")
    for (root, bid, bi, t) in rs:
        b = F.bodies[bid]
        inc = [x for x, _ in calls_matching(b, r"::increase_current_term$") if b.dominates(x, bi)]
        ok = bool(inc)
        why = "dominated by increase_current_term"
        if not ok:
            # update_current_term(x) under x > current guard in the same function
            upd = [x for x, _ in calls_matching(b, r"RaftRoleState::update_current_term$") if b.dominates(x, bi)]
            ok = bool(upd)
            why = "dominated by update_current_term"
        ctx.check("C01-e", "%s#reset_voted_for" % fkey(root), ok, why,
                  "vote cleared without a term advance in the same step: reset_voted_for is not dominated by increase_current_term/update_current_term "
                  "(same-term step-down lets the node vote twice in one term)", loc(b, bi))

    # ---------------------------------------------------------------- C01-f' every `request.term > my_term` branch of the leader steps down
    lf = ctx.anchor(F.method, "LeaderState", "handle_inbound_event")
    if lf:
        mb = F.main_body(lf)
        conds = edge_conditions(mb)
        sbf = [bi for bi, _ in calls_matching(mb, r"LeaderState::send_become_follower_event$")]
        edges = []
        for eid, c in conds.items():
            for (adt, what) in (("VoteRequest", "vote"), ("AppendEntriesRequest", "append"), ("ClusterConfChangeRequest", "confupdate")):
                rel = cmp_rel(F, c, lambda s, adt=adt: s.has_field(adt, "term"), lambda s: s.has_call(r"::current_term$"))
                if rel == ">":
                    edges.append((c, what))
        ctx.floor("C01-f", len(edges), 3, "`request.term > my_term` branches in LeaderState::handle_inbound_event")
        for (c, what) in edges:
            start = c.edge["dst"]
            wit = must_pass(mb, start, [], sbf, treat_exit_as_goal=True) if start not in sbf else None
            if wit and any(mb.term(x)["k"] == "call" and "from_residual" in (callee_key(mb.term(x)) or "") for x in wit):
                wit = None
            ctx.check("C01-f", "%s#higher-term-%s-request" % (fkey(lf), what), wit is None,
                      "a leader that sees a higher term in a %s request sends BecomeFollower on every non-error path" % what,
                      "leader sees a higher term in a %s request and can return without stepping down" % what, loc(mb, start), wit and bpath(mb, wit))

    # ---------------------------------------------------------------- C01-f leader yields to a higher term
    for fname in ("handle_inbound_event", "handle_append_result"):
        lf = ctx.anchor(F.method, "LeaderState", fname)
        if not lf:
            continue
        mb0 = F.main_body(lf)
        # the function itself and the private LeaderState helpers it calls (a `step_down_for_higher_term` extracted from it)
        cand = [mb0]
        for (hbi, ht) in mb0.calls():
            for tg in F.resolve_targets(ht):
                if tg in F.bodies and tg != lf.id and strip_generics(self_type_of(F, tg) or "").endswith("LeaderState") and not F.bodies[tg].impl_of:
                    hb_ = F.main_body(F.bodies[tg])
                    if hb_ not in cand and calls_matching(hb_, r"RaftRoleState::update_current_term$"):
                        cand.append(hb_)
        allups = [(b_, bi, t) for b_ in cand for (bi, t) in calls_matching(b_, r"RaftRoleState::update_current_term$")]
        ctx.floor("C01-f", len(allups), 1, "update_current_term in LeaderState::%s (or a LeaderState helper it calls)" % fname)
        for n, (mb, bi, t) in enumerate(allups):
            sbf = [x for x, _ in calls_matching(mb, r"LeaderState::send_become_follower_event$")]
            sbf += [x for (x, si, st) in agg_sites(mb, "InternalEvent", "BecomeFollower")]
            # every path from the term update to a return passes a step-down event
            wit = must_pass(mb, bi, [], sbf, treat_exit_as_goal=True)
            # error exits through `?` are allowed: ignore witnesses that pass a FromResidual call
            if wit and any(mb.term(x)["k"] == "call" and "from_residual" in (callee_key(mb.term(x)) or "") for x in wit):
                wit = None
            ctx.check("C01-f", "%s#update_current_term[%d]" % (fkey(lf), n), wit is None,
                      "a leader that adopts a higher term sends BecomeFollower before returning",
                      "leader adopts a higher term and can return without stepping down", loc(mb, bi), wit and bpath(mb, wit))


def _vote_tables(ctx):
    F = ctx.F
    # is_target_log_more_recent(my_index, my_term, target_index, target_term)
    f = ctx.anchor(F.fn, "d_engine_core::is_target_log_more_recent")
    if f:
        paths = table_of(ctx, "C01-d", f, "is_target_log_more_recent")
        if paths:
            rets = [p.ret for p in paths]

            def spec(w):
                mi, mt, ti, tt = (w.int(("param", i, f.local_name(i))) for i in (1, 2, 3, 4))
                return tt > mt or (tt == mt and ti >= mi)
            # make sure all four parameters are quantities even if a path does not compare them
            extra = [("bin", "Le", ("param", 1, f.local_name(1)), ("param", 3, f.local_name(3))), ("bin", "Le", ("param", 2, f.local_name(2)), ("param", 4, f.local_name(4)))] + [r for r in rets if r[0] != "const"]
            run_table(ctx, "C01-d", "is_target_log_more_recent#table", paths, lambda p, w: w.truth(p.ret), spec, "%s:%s" % (f.file, f.line), extra_exprs=extra,
                      what="candidate log is at least as up to date iff (term greater) or (term equal and index >= )")
    # handle_vote_request(self, request, current_term, voted_for_option, raft_log)
    hv = ctx.anchor(F.method, "ElectionHandler", "handle_vote_request")
    if hv:
        mb = F.main_body(hv)
        paths = table_of(ctx, "C01-d", mb, "handle_vote_request")
        if paths:
            tb0 = pathsym.Table(paths)
            req, cur, vfo = par(2), par(3), par(4)
            q_rt = pick(tb0.quant, fld(req, "term"), "request.term")
            q_ct = pick(tb0.quant, cur, "current_term")
            q_vt = pick(tb0.quant, fld(vfo, "0", "voted_for_term"), "vote term")
            q_vi = pick(tb0.quant, fld(vfo, "0", "voted_for_id"), "vote id")
            q_ci = pick(tb0.quant, fld(req, "candidate_id"), "candidate id")
            b_up = pick(tb0.bools, lambda e: e[0] == "call" and e[1].endswith("is_target_log_more_recent"), "up-to-date call")
            v_vf = pick(list(tb0.vars), vfo, "voted_for_option")
            missing = [n for n, x in (("request.term", q_rt), ("current_term", q_ct), ("vote.term", q_vt), ("vote.id", q_vi), ("candidate_id", q_ci), ("is_target_log_more_recent(..)", b_up), ("voted_for_option", v_vf)) if x is None]
            known = {q_rt, q_ct, q_vt, q_vi, q_ci}
            stray = [sym_show(q) for q in tb0.quant if q not in known] + [sym_show(b) for b in tb0.bools if b != b_up] + [sym_show(v) for v in tb0.vars if v != v_vf]
            if missing or stray:
                ctx.bad("C01-d", "%s#table" % fkey(hv), "UNRECOGNISED-FORM: vote decision does not depend on exactly the expected inputs (missing %s, unexpected %s)" % (missing, stray), "%s:%s" % (mb.file, mb.line))
            else:
                # the up-to-date call compares (my last index, my last term) with the request's
                a = b_up[2]
                okargs = len(a) == 4 and fld(req, "last_log_index")(a[2]) and fld(req, "last_log_term")(a[3]) and \
                    mentions(a[0], lambda e: e[0] == "call" and e[1].endswith("last_log_id")) and mentions(a[0], lambda e: e[0] == "field" and e[2] == "index") and \
                    mentions(a[1], lambda e: e[0] == "call" and e[1].endswith("last_log_id")) and mentions(a[1], lambda e: e[0] == "field" and e[2] == "term")
                ctx.check("C01-d", "%s#up-to-date-args" % fkey(hv), okargs, "is_target_log_more_recent(my last index, my last term, request.last_log_index, request.last_log_term)",
                          "arguments of the up-to-date check are not (local last index, local last term, request.last_log_index, request.last_log_term): %s" % sym_show(b_up), "%s:%s" % (mb.file, mb.line))

                def outcome(p, w):
                    su = agg_get(p.ret, "0")
                    nv = agg_get(su, "new_voted_for")
                    tu = agg_get(su, "term_update")
                    g = variant_of(nv)
                    detail = None
                    if g == "Some":
                        vf = agg_get(nv, "0")
                        detail = (agg_get(vf, "voted_for_id") == q_ci, agg_get(vf, "voted_for_term") == q_rt)
                    t = variant_of(tu)
                    tval = (agg_get(tu, "0") == q_rt) if t == "Some" else None
                    return (variant_of(p.ret), g, detail, t, tval)

                def spec(w):
                    rt, ct = w.int(q_rt), w.int(q_ct)
                    voted = w.v[v_vf] == "Some" and not rt > ct      # a vote of an older term is void once the term advances
                    same = voted and w.int(q_vt) == rt and w.int(q_vi) == w.int(q_ci)
                    grant = rt >= ct and w.b[b_up] and (not voted or same)
                    return ("Ok", "Some" if grant else "None", (True, True) if grant else None, "Some" if rt > ct else "None", True if rt > ct else None)
                run_table(ctx, "C01-d", "%s#table" % fkey(hv), paths, outcome, spec, "%s:%s" % (mb.file, mb.line),
                          what="grant iff request.term >= current_term, candidate log up to date, and no other vote in effect for that term; vote recorded = (candidate, request.term); term_update = Some(request.term) iff request.term > current_term")
    # candidate-side legality check + could_grant
    cg = ctx.anchor(F.method, "ElectionHandler", "if_node_could_grant_the_vote_request")
    if cg:
        paths = table_of(ctx, "C01-d", cg, "if_node_could_grant_the_vote_request")
        if paths:
            tb0 = pathsym.Table(paths)
            req, vfo = par(2), par(3)
            q_rt = pick(tb0.quant, fld(req, "term"), "")
            q_vt = pick(tb0.quant, fld(vfo, "0", "voted_for_term"), "")
            q_vi = pick(tb0.quant, fld(vfo, "0", "voted_for_id"), "")
            v_vf = pick(list(tb0.vars), vfo, "")
            if None in (q_rt, q_vt, q_vi, v_vf) or len(tb0.quant) != 3 or tb0.bools:
                ctx.bad("C01-d", "%s#table" % fkey(cg), "UNRECOGNISED-FORM: inputs %s %s" % ([sym_show(q) for q in tb0.quant], [sym_show(b) for b in tb0.bools]), "%s:%s" % (cg.file, cg.line))
            else:
                def spec2(w):
                    if w.v[v_vf] == "None":
                        return True
                    return w.int(q_vi) == 0 or w.int(q_vt) < w.int(q_rt)
                run_table(ctx, "C01-d", "%s#table" % fkey(cg), paths, lambda p, w: w.truth(p.ret), spec2, "%s:%s" % (cg.file, cg.line),
                          what="a candidate may defer to a vote request only if it has no vote, a null vote, or a vote of an older term")
    cl = ctx.anchor(F.method, "ElectionHandler", "check_vote_request_is_legal")
    if cl:
        paths = table_of(ctx, "C01-d", cl, "check_vote_request_is_legal")
        if paths:
            tb0 = pathsym.Table(paths)
            req, cur, vfo = par(2), par(3), par(6)
            q_rt = pick(tb0.quant, fld(req, "term"), "")
            q_ct = pick(tb0.quant, cur, "")
            b_up = pick(tb0.bools, lambda e: e[0] == "call" and e[1].endswith("is_target_log_more_recent"), "")
            b_cg = pick(tb0.bools, lambda e: e[0] == "call" and e[1].endswith("if_node_could_grant_the_vote_request"), "")
            b_is = pick(tb0.bools, lambda e: e[0] == "is" and vfo(e[1]), "")
            if None in (q_rt, q_ct, b_up, b_cg, b_is) or len(tb0.quant) != 2 or len(tb0.bools) != 3:
                ctx.bad("C01-d", "%s#table" % fkey(cl), "UNRECOGNISED-FORM: inputs %s %s" % ([sym_show(q) for q in tb0.quant], [sym_show(b) for b in tb0.bools]), "%s:%s" % (cl.file, cl.line))
            else:
                a = b_up[2]
                okargs = len(a) == 4 and par(4)(a[0]) and par(5)(a[1]) and fld(req, "last_log_index")(a[2]) and fld(req, "last_log_term")(a[3])
                ctx.check("C01-d", "%s#up-to-date-args" % fkey(cl), okargs, "up-to-date check compares (last_log_index, last_log_term) with the request's",
                          "wrong arguments to the up-to-date check: %s" % sym_show(b_up), "%s:%s" % (cl.file, cl.line))

                def spec3(w):
                    return w.int(q_rt) >= w.int(q_ct) and w.b[b_up] and (not w.b[b_is] or w.b[b_cg])
                run_table(ctx, "C01-d", "%s#table" % fkey(cl), paths, lambda p, w: w.truth(p.ret), spec3, "%s:%s" % (cl.file, cl.line),
                          what="legal iff request.term >= current_term, log up to date, and (no vote or could_grant)")
