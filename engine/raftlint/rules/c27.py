"""C27 Learners never vote or count toward quorums until promoted (DESIGN 4/C27).
Decides: (a) a learner's VoteResponse has vote_granted = const false, LearnerState reaches no election
machinery, builds no BecomeCandidate/BecomeLeader and become_candidate/become_leader only return Err;
(b) every vector handed to calculate_majority_matched_index is produced by a filter closure that tests
NodeMeta.role != NodeRole::Learner, and the leader recomputes commit / renews the lease after an ACK only
when the ACKing peer passed the same test and the update was a success; (c) BatchPromote is built only in
safe_batch_promote <- handle_promote_ready_learners, the promotion queue is fed only from
find_promotable_learners whose push is guarded by contains_node, is_learner_caught_up (normal form
`commit -sat match <= threshold`) and is_promotable; (d) send_join_success is called only from
drain_commit_actions (NodeJoin arm), JoinResponse{success:true} only there, and handle_join_cluster
proposes AddNode only when contains_node is false; (e) a learner turns follower only under
role != Learner read from the applied membership.  Necessary conditions, not the whole behaviour."""
from .common import *
from .helpers_r3 import *

EXPLANATION = __doc__


def is_ty(F, root, suffix):
    return self_type_of(F, root).endswith(suffix)


def run(ctx):
    F = ctx.F
    # ---------------------------------------------------------------- C27-a learner never votes / campaigns
    vr = [(b, bi, si, st) for (b, bi, si, st) in all_agg_sites(F, "election::VoteResponse", None, crates=("d_engine_core",))
          if is_ty(F, F.root_of[b.id], "learner_state::LearnerState")]
    ctx.floor("C27-a", len(vr), 1, "VoteResponse built by LearnerState")
    for (b, bi, si, st) in vr:
        o = agg_field(st, "vote_granted")
        ctx.check("C27-a", "%s#VoteResponse.vote_granted" % fkey(F.root_of[b.id]), o is not None and o.get("v") == "false",
                  "vote_granted is the constant false",
                  "a learner builds a VoteResponse whose vote_granted is not the constant false: a candidate can count a learner's vote toward its majority", loc(b, bi))
    learner_fns = [b for bid, b in F.bodies.items() if b.parent is None and b.crate == "d_engine_core" and is_ty(F, bid, "learner_state::LearnerState")]
    ctx.floor("C27-a", len(learner_fns), 20, "methods of LearnerState")
    bad_reach = []
    for b in learner_fns:
        r = reaches(F, b.id, r"(ElectionCore::broadcast_vote_requests|Transport::send_vote_requests|RaftRoleState::increase_current_term|ElectionCore::handle_vote_request)$", ctx.depth)
        if r:
            bad_reach.append((fkey(b), [fkey(x) for x in r[1]]))
    ctx.check("C27-a", "LearnerState#no-election-machinery", not bad_reach,
              "no LearnerState method reaches broadcast_vote_requests / send_vote_requests / increase_current_term / handle_vote_request",
              "a LearnerState method reaches election machinery (a learner could campaign or grant a vote): %s" % bad_reach[:3])
    evs = [(b, bi, st) for (b, bi, si, st) in all_agg_sites(F, "InternalEvent", None, crates=("d_engine_core",))
           if is_ty(F, F.root_of[b.id], "learner_state::LearnerState") and st["rv"]["v"] in ("BecomeCandidate", "BecomeLeader")]
    ctx.check("C27-a", "LearnerState#no-BecomeCandidate", not evs, "LearnerState builds no BecomeCandidate/BecomeLeader event",
              "LearnerState builds %s" % [(fkey(F.root_of[b.id]), st["rv"]["v"]) for (b, bi, st) in evs], evs and loc(evs[0][0], evs[0][1]) or None)
    for name in ("become_candidate", "become_leader"):
        f = ctx.anchor(F.method, "LearnerState", name)
        if not f:
            continue
        rets = return_aggs(f)
        only_err = len(rets) >= 1 and all(x[2]["rv"]["k"] == "agg" and x[2]["rv"].get("v") == "Err" for x in rets)
        ctx.check("C27-a", "%s#never-Ok" % fkey(f), only_err, "returns Err on every path",
                  "LearnerState::%s can return something other than Err: a learner can start an election" % name, "%s:%s" % (f.file, f.line))
    tk = ctx.anchor(F.method, "LearnerState", "tick")
    if tk:
        mb = F.main_body(tk)
        ctx.check("C27-a", "%s#no-effects" % fkey(tk), not list(mb.calls()), "learner tick makes no call (no election timer)",
                  "LearnerState::tick now performs calls %s; re-inspect that it cannot start an election" % [strip_generics(callee_key(t) or "?").split("::")[-1] for _b, t in mb.calls()][:5],
                  "%s:%s" % (mb.file, mb.line))

    # ---------------------------------------------------------------- C27-b quorum vectors exclude learners
    sites = [x for x in F.callers_of(lambda k: strip_generics(k).endswith("RaftLog::calculate_majority_matched_index"))
             if F.bodies[x[1]].crate == "d_engine_core" and not strip_generics(x[0]).endswith("calculate_majority_matched_index")]
    ctx.floor("C27-b", len(sites), 2, "calls of RaftLog::calculate_majority_matched_index")
    per = {}
    for (root, bid, bi, t) in sites:
        b = F.bodies[bid]
        s = XSlice(F, b).operand(t["args"][3])
        filt = s.has_call(r"Iterator::filter(_map)?$")
        ok, desc = excludes_learners(F, s.closures())
        n = per.get(fkey(root), 0)
        per[fkey(root)] = n + 1
        ctx.check("C27-b", "%s#calculate_majority_matched_index[%d]#voters-only" % (fkey(root), n), filt and ok,
                  "matched-index vector comes from a filter whose closure keeps NodeMeta.role != NodeRole::Learner",
                  "the match-index vector passed to calculate_majority_matched_index is not filtered by `NodeMeta.role != Learner` (%s; filter=%s): "
                  "a learner's match index is counted, so with voters {L,B,C} and learner D the leader commits an entry held by {L,D} only - not a voter majority"
                  % (desc, filt), loc(b, bi))
    har = ctx.anchor(F.method, "LeaderState", "handle_append_result")
    if har:
        mb = F.main_body(har)
        conds = edge_conditions(mb)

        def voter_true(c):
            if c.truth is not True or c.kind != "call" or not re.search(r"Iterator>?::any$", strip_generics(c.callee or "")):
                return False
            cs = XSlice(F, mb)
            for a in c.call["args"]:
                cs.operand(a)
            return cs.has_field("ClusterMetadata", "replication_targets") and excludes_learners(F, cs.closures())[0]

        def success_true(c):
            return c.truth is True and cond_slice(F, c).has_field("PeerUpdate", "success")
        gated = calls_matching(mb, r"(LeaderState::calculate_new_commit_index|RaftLog::calculate_majority_matched_index|LeaderState::update_lease_timestamp)$")
        ctx.floor("C27-b", len(gated), 3, "commit recomputation / quorum test / lease renewal in handle_append_result")
        seen = {}
        for (bi, t) in gated:
            nm = strip_generics(callee_key(t)).split("::")[-1]
            k = seen.get(nm, 0)
            seen[nm] = k + 1
            ok1, w1, _ = guarded_by(mb, bi, voter_true, conds)
            ok2, w2, _ = guarded_by(mb, bi, success_true, conds)
            ctx.check("C27-b", "%s#%s[%d]#is_voter-gate" % (fkey(har), nm, k), ok1,
                      "reached only when the ACKing peer is a replication target with role != Learner",
                      "%s is reachable after an ACK from a peer that did not pass the `role != Learner` test: a learner's ACK triggers commit/lease work" % nm,
                      loc(mb, bi), w1 and bpath(mb, w1))
            ctx.check("C27-b", "%s#%s[%d]#success-gate" % (fkey(har), nm, k), ok2,
                      "reached only under PeerUpdate.success", "%s is reachable when PeerUpdate.success is false (a rejected append counts as an ACK)" % nm,
                      loc(mb, bi), w2 and bpath(mb, w2))

    # ---------------------------------------------------------------- C27-c promotion only of caught-up, promotable learners
    bp = all_agg_sites(F, "common::BatchPromote", None, crates=("d_engine_core", "d_engine_server"))
    ctx.floor("C27-c", len(bp), 1, "BatchPromote constructions")
    for (b, bi, si, st) in bp:
        root = F.root_of[b.id]
        ctx.check("C27-c", "%s#BatchPromote#who" % fkey(root), strip_generics(root).endswith("LeaderState::safe_batch_promote"),
                  "built in LeaderState::safe_batch_promote", "BatchPromote is built outside LeaderState::safe_batch_promote", loc(b, bi))
    for (callee, allowed) in (("safe_batch_promote", "handle_promote_ready_learners"), ("enqueue_and_notify_promotions", "check_learner_progress")):
        cs = [x for x in F.callers_of(lambda k: strip_generics(k).endswith("LeaderState::" + callee)) if F.bodies[x[1]].crate == "d_engine_core"]
        ctx.floor("C27-c", len(cs), 1, "callers of %s" % callee)
        for (root, bid, bi, t) in cs:
            ctx.check("C27-c", "%s#%s#who" % (fkey(root), callee), strip_generics(root).endswith("::" + allowed),
                      "called from %s" % allowed, "%s is called from %s (only %s may)" % (callee, fkey(root), allowed), loc(F.bodies[bid], bi))
    # the queue is extended (push_back) only from ids that came out of find_promotable_learners
    pushes = []
    for bid, b in F.bodies.items():
        if b.crate != "d_engine_core":
            continue
        for (bi, t) in field_receiver_calls(F, b, "LeaderState", "pending_promotions", r"VecDeque::(push_back|push_front|insert|extend|append)$"):
            pushes.append((b, bi, t))
    ctx.floor("C27-c", len(pushes), 2, "insertions into LeaderState.pending_promotions")
    for (b, bi, t) in pushes:
        root = F.root_of[b.id]
        nm = strip_generics(callee_key(t)).split("::")[-1]
        ok = strip_generics(root).endswith("::enqueue_and_notify_promotions") or \
            (strip_generics(root).endswith("::handle_promote_ready_learners") and XSlice(F, b).operand(t["args"][1]).has_call(r"LeaderState::drain_batch$"))
        ctx.check("C27-c", "%s#pending_promotions.%s" % (fkey(root), nm), ok,
                  "queue fed by enqueue_and_notify_promotions / restored from drain_batch",
                  "LeaderState.pending_promotions is extended outside enqueue_and_notify_promotions (ids that never passed find_promotable_learners can be promoted)", loc(b, bi))
    clp = ctx.anchor(F.method, "LeaderState", "check_learner_progress")
    if clp:
        mb = F.main_body(clp)
        for (bi, t) in calls_matching(mb, r"LeaderState::enqueue_and_notify_promotions$"):
            s = Slice(F, mb, through_calls=True).operand(t["args"][1])
            ctx.check("C27-c", "%s#enqueue-arg" % fkey(clp), s.has_call(r"LeaderState::find_promotable_learners$"),
                      "enqueued ids derive from find_promotable_learners", "ids enqueued for promotion do not derive from find_promotable_learners: %s" % sorted(x[1] for x in s.sources if x[0] == "call")[:5], loc(mb, bi))
    fpl = ctx.anchor(F.method, "LeaderState", "find_promotable_learners")
    if fpl:
        mb = F.main_body(fpl)
        conds = edge_conditions(mb)
        rets = set()
        for x in mb.exits():
            pass
        # the returned vector: pushes whose receiver is the local that flows to _0
        ret_locals = Slice(F, mb).place({"l": 0}).seen
        pushes = [(bi, t) for (bi, t) in calls_matching(mb, r"Vec::push$") if Slice(F, mb).operand(t["args"][0]).seen & ret_locals]
        ctx.floor("C27-c", len(pushes), 1, "push into the returned vector of find_promotable_learners")
        for (bi, t) in pushes:
            for (nm, rx) in (("contains_node", r"Membership::contains_node$"), ("is_learner_caught_up", r"LeaderState::is_learner_caught_up$"), ("is_promotable", r"NodeStatus>?::is_promotable$")):
                ok, wit, _ = guarded_by(mb, bi, lambda c: c.truth is True and cond_calls(F, c, rx), conds)
                ctx.check("C27-c", "%s#push#%s" % (fkey(fpl), nm), ok, "learner reported promotable only under %s == true" % nm,
                          "a learner id is returned as promotable without passing %s (e.g. learner D with match 0 while commit is 10000 is promoted and immediately counts toward quorum)" % nm,
                          loc(mb, bi), wit and bpath(mb, wit))
    cu = ctx.anchor(F.method, "LeaderState", "is_learner_caught_up")
    if cu:
        cmps = [st["rv"] for blk in cu.blocks for st in blk["st"] if st.get("rv", {}).get("k") == "bin" and st["rv"]["op"] in ("Lt", "Le", "Gt", "Ge", "Eq", "Ne")
                and not ("c" in st["rv"]["a"] and "c" in st["rv"]["b"])]
        ok = False
        desc = "%d comparisons" % len(cmps)
        if len(cmps) == 1:
            c = cmps[0]

            def is_gap(o):
                s = Slice(F, cu).operand(o)
                subs = [t for (_bi, t) in s.call_sites if re.search(r"saturating_sub$", strip_generics(callee_key(t)))]
                if len(subs) != 1:
                    return False
                a0 = Slice(F, cu).operand(subs[0]["args"][0]).sources
                a1 = Slice(F, cu).operand(subs[0]["args"][1]).sources
                return ("param", 3, cu.local_name(3)) in a0 and not any(x[0] == "param" and x[1] != 3 for x in a0) and \
                    ("param", 2, cu.local_name(2)) in a1 and not any(x[0] == "param" and x[1] != 2 for x in a1)

            def is_thr(o):
                return set(x for x in Slice(F, cu).operand(o).sources if x[0] == "param") == {("param", 4, cu.local_name(4))}
            ok = (c["op"] in ("Le", "Lt") and is_gap(c["a"]) and is_thr(c["b"])) or (c["op"] in ("Ge", "Gt") and is_thr(c["a"]) and is_gap(c["b"]))
            desc = c["op"]
        ctx.check("C27-c", "is_learner_caught_up#normal-form", ok, "caught up == leader_commit -sat match_index <= threshold",
                  "is_learner_caught_up is not `leader_commit.saturating_sub(match_index) <= threshold` (%s): a lagging learner can be promoted" % desc, "%s:%s" % (cu.file, cu.line))

    # ---------------------------------------------------------------- C27-d join answered after commit; duplicates rejected
    sj = [x for x in F.callers_of(lambda k: strip_generics(k).endswith("LeaderState::send_join_success")) if F.bodies[x[1]].crate == "d_engine_core"]
    ctx.floor("C27-d", len(sj), 1, "callers of send_join_success")
    for (root, bid, bi, t) in sj:
        b = F.bodies[bid]
        who = strip_generics(root).endswith("LeaderState::drain_commit_actions")
        ctx.check("C27-d", "%s#send_join_success#who" % fkey(root), who, "called from drain_commit_actions",
                  "send_join_success is called from %s: the joining node is told `success` before its AddNode entry committed" % fkey(root), loc(b, bi))
        if who:
            ok, wit, _ = guarded_by(b, bi, lambda c: c.kind == "discr" and c.variants == {"NodeJoin"})
            ctx.check("C27-d", "%s#send_join_success#arm" % fkey(root), ok, "inside the PostCommitAction::NodeJoin arm",
                      "send_join_success reachable outside the NodeJoin arm", loc(b, bi), wit and bpath(b, wit))
    dca = ctx.anchor(F.method, "LeaderState", "drain_commit_actions")
    if dca:
        mb = F.main_body(dca)
        so = field_receiver_calls(F, mb, "LeaderState", "pending_commit_actions", r"BTreeMap::split_off$")
        ctx.floor("C27-d", len(so), 1, "pending_commit_actions.split_off in drain_commit_actions")
        for (bi, t) in so:
            s = Slice(F, mb).operand(t["args"][1])
            ctx.check("C27-d", "%s#split_off-key" % fkey(dca), s.has_param("new_commit") or any(x[0] == "param" and x[1] == 2 for x in s.sources) and "1" in s.consts(),
                      "entries kept for later are those above new_commit (+1)", "split point of pending_commit_actions does not derive from new_commit + 1: %s" % sorted(s.sources)[:6], loc(mb, bi))
    jr = all_agg_sites(F, "cluster::JoinResponse", None, crates=("d_engine_core", "d_engine_server"))
    ctx.floor("C27-d", len(jr), 1, "JoinResponse constructions")
    for (b, bi, si, st) in jr:
        root = F.root_of[b.id]
        o = agg_field(st, "success")
        ctx.check("C27-d", "%s#JoinResponse.success" % fkey(root), (o is not None and o.get("v") == "false") or strip_generics(root).endswith("LeaderState::send_join_success"),
                  "success=true only in send_join_success", "JoinResponse with non-false `success` built outside send_join_success", loc(b, bi))
    hj = ctx.anchor(F.method, "LeaderState", "handle_join_cluster")
    if hj:
        mb = F.main_body(hj)
        conds = edge_conditions(mb)
        props = calls_matching(mb, r"LeaderState::execute_request_immediately$") + [(bi, None) for (bi, si, st) in agg_sites(mb, "AddNode")]
        ctx.floor("C27-d", len(props), 2, "AddNode construction + proposal in handle_join_cluster")
        for n, (bi, t) in enumerate(props):
            ok, wit, _ = guarded_by(mb, bi, lambda c: c.truth is False and cond_calls(F, c, r"Membership::contains_node$"), conds)
            ctx.check("C27-d", "%s#%s#not-member" % (fkey(hj), "propose" if t else "AddNode"), ok, "only when contains_node(node_id) is false",
                      "handle_join_cluster can propose AddNode for a node that is already a member (an Active voter re-joining is reset to learner status)", loc(mb, bi), wit and bpath(mb, wit))
        for (bi, t) in calls_matching(mb, r"Membership::contains_node$"):
            s = Slice(F, mb).operand(t["args"][1])
            ctx.check("C27-d", "%s#contains_node-arg" % fkey(hj), s.has_field("JoinRequest", "node_id"), "membership test is on the requested node id",
                      "contains_node is not asked about JoinRequest.node_id", loc(mb, bi))

    # ---------------------------------------------------------------- C27-e learner -> follower only on applied promotion
    bf = [(b, bi, st) for (b, bi, si, st) in all_agg_sites(F, "InternalEvent", "BecomeFollower", crates=("d_engine_core",))
          if is_ty(F, F.root_of[b.id], "learner_state::LearnerState")]
    ctx.floor("C27-e", len(bf), 1, "BecomeFollower built by LearnerState")
    for (b, bi, st) in bf:
        root = F.root_of[b.id]
        conds = edge_conditions(b)

        def promoted(c):
            rel = cmp_rel(F, c, lambda s: s.has_field("NodeMeta", "role") and s.has_call(r"Membership::retrieve_node_meta$"),
                          lambda s: XSlice(F, b).has_cname(LEARNER_CONST) or "4" in s.consts())
            return rel == "!="

        def promoted2(c):
            if c.kind != "cmp" or c.truth is None:
                return False
            sa, sb = XSlice(F, b).operand(c.a), XSlice(F, b).operand(c.b)
            op = c.op if c.truth else NEG[c.op]
            for (x, y) in ((sa, sb), (sb, sa)):
                if x.has_field("NodeMeta", "role") and x.has_call(r"Membership::retrieve_node_meta$") and y.has_cname(LEARNER_CONST):
                    return op == "Ne"
            return False
        ok, wit, _ = guarded_by(b, bi, promoted2, conds)
        ctx.check("C27-e", "%s#BecomeFollower" % fkey(root), ok and strip_generics(root).endswith("::handle_membership_applied"),
                  "learner turns follower only in handle_membership_applied under retrieve_node_meta(self).role != Learner",
                  "a learner can send BecomeFollower (and so vote / campaign) without its applied membership role being != Learner", loc(b, bi), wit and bpath(b, wit))
