"""C27 Learners never vote or count toward quorums until promoted (DESIGN 4/C27).
Decides: (a) a learner's VoteResponse has vote_granted = const false, LearnerState reaches no election
machinery, builds no BecomeCandidate/BecomeLeader and become_candidate/become_leader only return Err;
(b) every vector handed to calculate_majority_matched_index is produced by a filter closure that tests
NodeMeta.role != NodeRole::Learner, and the leader recomputes commit / renews the lease after an ACK only
when the ACKing peer passed the same test and the update was a success; (c) BatchPromote is built only in
safe_batch_promote <- handle_promote_ready_learners, the promotion queue is fed only from
find_promotable_learners whose push is guarded by contains_node, is_learner_caught_up (normal form
`commit -sat match <= threshold`) and is_promotable; (d) send_join_success is called only from
drain_commit_actions (NodeJoin arm), JoinResponse{success:true} only there, and handle_join_cluster
proposes AddNode only when contains_node is false; (e) a learner turns follower only under
role != Learner read from the applied membership.  Necessary conditions, not the whole behaviour."""
from .common import *
from .helpers_r3 import *

EXPLANATION = __doc__
TECHNIQUE = "static analysis of rustc MIR facts: dominance/guard and value-provenance rules plus exact symbolic decision tables of loop-free guard functions (exhaustive over weak orderings)"


def is_ty(F, root, suffix):
    return self_type_of(F, root).endswith(suffix)


def run(ctx):
    F = ctx.F
    # ---------------------------------------------------------------- C27-a learner never votes / campaigns
    vr = [(b, bi, si, st) for (b, bi, si, st) in all_agg_sites(F, "election::VoteResponse", None, crates=("d_engine_core",))
          if is_ty(F, F.root_of[b.id], "learner_state::LearnerState")]
    ctx.floor("C27-a", len(vr), 1, "VoteResponse built by LearnerState")
    for (b, bi, si, st) in vr:
        o = agg_field(st, "vote_granted")
        ctx.check("C27-a", "%s#VoteResponse.vote_granted" % fkey(F.root_of[b.id]), o is not None and o.get("v") == "false",
                  "vote_granted is the constant false",
                  "a learner builds a VoteResponse whose vote_granted is not the constant false: a candidate can count a learner's vote toward its majority", loc(b, bi))
    learner_fns = [b for bid, b in F.bodies.items() if b.parent is None and b.crate == "d_engine_core" and is_ty(F, bid, "learner_state::LearnerState")]
    ctx.floor("C27-a", len(learner_fns), 20, "methods of LearnerState")
    bad_reach = []
    for b in learner_fns:
        r = reaches(F, b.id, r"(ElectionCore::broadcast_vote_requests|Transport::send_vote_requests|ElectionCore::handle_vote_request|ElectionCore::check_vote_request_is_legal)$", ctx.depth)
        if r:
            bad_reach.append((fkey(b), [fkey(x) for x in r[1]]))
    ctx.check("C27-a", "LearnerState#no-election-machinery", not bad_reach,
              "no LearnerState method reaches broadcast_vote_requests / send_vote_requests / handle_vote_request",
              "a LearnerState method reaches election machinery (a learner could campaign or grant a vote): %s" % bad_reach[:3])
    evs = [(b, bi, st) for (b, bi, si, st) in all_agg_sites(F, "InternalEvent", None, crates=("d_engine_core",))
           if is_ty(F, F.root_of[b.id], "learner_state::LearnerState") and st["rv"]["v"] in ("BecomeCandidate", "BecomeLeader")]
    ctx.check("C27-a", "LearnerState#no-BecomeCandidate", not evs, "LearnerState builds no BecomeCandidate/BecomeLeader event",
              "LearnerState builds %s" % [(fkey(F.root_of[b.id]), st["rv"]["v"]) for (b, bi, st) in evs], evs and loc(evs[0][0], evs[0][1]) or None)
    for name in ("become_candidate", "become_leader"):
        f = ctx.anchor(F.method, "LearnerState", name)
        if not f:
            continue
        rets = return_aggs(f)
        only_err = len(rets) >= 1 and all(x[2]["rv"]["k"] == "agg" and x[2]["rv"].get("v") == "Err" for x in rets)
        ctx.check("C27-a", "%s#never-Ok" % fkey(f), only_err, "returns Err on every path",
                  "LearnerState::%s can return something other than Err: a learner can start an election" % name, "%s:%s" % (f.file, f.line))

    # ---------------------------------------------------------------- C27-b quorum vectors exclude learners
    sites = [x for x in F.callers_of(lambda k: strip_generics(k).endswith("RaftLog::calculate_majority_matched_index"))
             if F.bodies[x[1]].crate == "d_engine_core" and not strip_generics(x[0]).endswith("calculate_majority_matched_index")]
    ctx.floor("C27-b", len(sites), 2, "calls of RaftLog::calculate_majority_matched_index")
    per = {}
    for (root, bid, bi, t) in sites:
        b = F.bodies[bid]
        s = XSlice(F, b).operand(t["args"][3])
        filt = s.has_call(r"Iterator::filter(_map)?$")
        ok, desc = excludes_learners(F, s.closures())
        n = per.get(fkey(root), 0)
        per[fkey(root)] = n + 1
        ctx.check("C27-b", "%s#calculate_majority_matched_index[%d]#voters-only" % (fkey(root), n), filt and ok,
                  "matched-index vector comes from a filter whose closure keeps NodeMeta.role != NodeRole::Learner",
                  "the match-index vector passed to calculate_majority_matched_index is not filtered by `NodeMeta.role != Learner` (%s; filter=%s): "
                  "a learner's match index is counted, so with voters {L,B,C} and learner D the leader commits an entry held by {L,D} only - not a voter majority"
                  % (desc, filt), loc(b, bi))
    har = ctx.anchor(F.method, "LeaderState", "handle_append_result")
    if har:
        mb = F.main_body(har)
        conds = edge_conditions(mb)

        def voter_true(c):
            if c.truth is not True or c.kind != "call" or not re.search(r"iterator::Iterator>?::any$", c.callee or ""):
                return False
            cs = XSlice(F, mb)
            for a in c.call["args"]:
                cs.operand(a)
            return cs.has_field("ClusterMetadata", "replication_targets") and excludes_learners(F, cs.closures())[0]

        gated = calls_matching(mb, r"LeaderState::update_lease_timestamp$")
        ctx.floor("C27-b", len(gated), 1, "lease renewal in handle_append_result")
        for k, (bi, t) in enumerate(gated):
            ok1, w1, _ = guarded_by(mb, bi, voter_true, conds)
            ctx.check("C27-b", "%s#update_lease_timestamp[%d]#is_voter-gate" % (fkey(har), k), ok1,
                      "lease renewed only when the ACKing peer is a replication target with role != Learner",
                      "the lease is renewed after an ACK from a peer that did not pass the `role != Learner` test.  History: voters B,C are idle at match == commit, "
                      "the leader is partitioned from B,C but still reaches learner D; every heartbeat ACK from D re-evaluates the (unchanged) voter match indexes, finds "
                      "'quorum confirmed' and extends the lease from the last send time while B,C elect a new leader: a learner counted toward the lease quorum",
                      loc(mb, bi), w1 and bpath(mb, w1))

    # ---------------------------------------------------------------- C27-c promotion only of caught-up, promotable learners
    ch = [x for x in all_agg_sites(F, "membership_change::Change", None, crates=("d_engine_core", "d_engine_server"))]
    ctx.floor("C27-c", len(ch), 3, "membership_change::Change constructions")
    prom = [x for x in ch if x[3]["rv"]["v"] in ("Promote", "BatchPromote")]
    ctx.floor("C27-c", len(prom), 1, "Change::{Promote,BatchPromote} constructions")
    for (b, bi, si, st) in prom:
        root = F.root_of[b.id]
        s = origin_slice(F, b, st["rv"]["ops"][0], 3)
        ok = s.has_call(r"LeaderState::drain_batch$") or s.has_field("LeaderState", "pending_promotions")
        ctx.check("C27-c", "%s#Change::%s#ids-from-queue" % (fkey(root), st["rv"]["v"]), ok,
                  "promoted ids come out of LeaderState.pending_promotions (drain_batch)",
                  "a promotion entry is proposed for node ids that do not come from the pending_promotions queue (ids that never passed find_promotable_learners become voters): %s"
                  % sorted(x[1] for x in s.sources if x[0] == "call")[:6], loc(b, bi))
    # the queue is extended only with ids that came out of find_promotable_learners (or are put back after a failed proposal)
    pushes = []
    for bid, b in F.bodies.items():
        if b.crate != "d_engine_core":
            continue
        for (bi, t) in field_receiver_calls(F, b, "LeaderState", "pending_promotions", r"VecDeque::(push_back|push_front|insert|extend|append)$"):
            pushes.append((b, bi, t))
    ctx.floor("C27-c", len(pushes), 2, "insertions into LeaderState.pending_promotions")
    for (b, bi, t) in pushes:
        root = F.root_of[b.id]
        nm = strip_generics(callee_key(t)).split("::")[-1]
        s = origin_slice(F, b, t["args"][1], 3, through_calls=True)
        ok = s.has_call(r"LeaderState::find_promotable_learners$") or s.has_call(r"LeaderState::drain_batch$")
        ctx.check("C27-c", "%s#pending_promotions.%s" % (fkey(root), nm), ok,
                  "queued id derives from find_promotable_learners (or is restored from drain_batch)",
                  "LeaderState.pending_promotions receives an id that does not derive from find_promotable_learners: a learner that is not caught up / not Promotable can be promoted: %s"
                  % sorted(x[1] for x in s.sources if x[0] == "call")[:6], loc(b, bi))
    fpl = ctx.anchor(F.method, "LeaderState", "find_promotable_learners")
    if fpl:
        mb = F.main_body(fpl)
        conds = edge_conditions(mb)
        ret_locals = Slice(F, mb).place({"l": 0}).seen
        pushes = [(bi, t) for (bi, t) in calls_matching(mb, r"Vec::push$") if Slice(F, mb).operand(t["args"][0]).seen & ret_locals]
        ctx.floor("C27-c", len(pushes), 1, "push into the returned vector of find_promotable_learners")
        for (bi, t) in pushes:
            for (nm, rx) in (("contains_node", r"Membership::contains_node$"), ("is_learner_caught_up", r"LeaderState::is_learner_caught_up$"), ("is_promotable", r"NodeStatus>?::is_promotable$")):
                ok, wit, _ = guarded_by(mb, bi, lambda c: c.truth is True and cond_calls(F, c, rx), conds)
                ctx.check("C27-c", "%s#push#%s" % (fkey(fpl), nm), ok, "learner reported promotable only under %s == true" % nm,
                          "a learner id is returned as promotable without passing %s (e.g. learner D with match 0 while commit is 10000 is promoted and immediately counts toward quorum)" % nm,
                          loc(mb, bi), wit and bpath(mb, wit))
    cu = ctx.anchor(F.method, "LeaderState", "is_learner_caught_up")
    paths = cu and table_of(ctx, "C27-c", cu, "is_learner_caught_up")
    if paths:
        rets = [p.ret for p in paths if p.ret[0] != "const"]
        tb0 = pathsym.Table(paths, extra_exprs=rets)
        q_commit = pick(tb0.quant, par(3), "")
        q_thr = pick(tb0.quant, par(4), "")
        q_match = pick(tb0.quant, lambda e: e[0] == "unwrap_or" and par(2)(e[1]) and e[2] == ("const", "0"), "") or pick(tb0.quant, par(2), "")
        where = "%s:%s" % (cu.file, cu.line)
        if None in (q_commit, q_thr, q_match) or len(tb0.quant) != 3 or tb0.bools:
            ctx.bad("C27-c", "is_learner_caught_up#table", "UNRECOGNISED-FORM: is_learner_caught_up inputs %s %s" % ([sym_show(q) for q in tb0.quant], [sym_show(b) for b in tb0.bools]), where)
        else:
            # necessary direction only: lagging by more than the threshold => not caught up
            run_table(ctx, "C27-c", "is_learner_caught_up#table", paths, lambda p, w: w.truth(p.ret),
                      lambda w: False if max(0, w.int(q_commit) - w.int(q_match)) > w.int(q_thr) else None, where, extra_exprs=rets,
                      what="a learner whose match index (None = 0) lags the leader commit by more than the threshold is never reported caught up")

    # ---------------------------------------------------------------- C27-d join answered after commit; duplicates rejected
    jr = all_agg_sites(F, "cluster::JoinResponse", None, crates=("d_engine_core", "d_engine_server"))
    jr_ok = [x for x in jr if not (agg_field(x[3], "success") or {}).get("v") == "false"]
    ctx.floor("C27-d", len(jr_ok), 1, "JoinResponse constructions whose success is not const false")
    for (b, bi, si, st) in jr_ok:
        root = F.root_of[b.id]

        def gate(croot, cb, cbi, t):
            if not strip_generics(croot).endswith("LeaderState::drain_commit_actions"):
                return False
            return guarded_by(cb, cbi, lambda c: c.kind == "discr" and c.variants == {"NodeJoin"})[0]
        ok, chain, gates = only_via(F, root, gate, 4)
        ctx.check("C27-d", "%s#JoinResponse.success#after-commit" % fkey(root), ok and bool(gates),
                  "a successful JoinResponse is built only below the PostCommitAction::NodeJoin arm of drain_commit_actions",
                  "a JoinResponse with success != false can be produced on a call chain that does not pass the NodeJoin arm of drain_commit_actions (%s): "
                  "the joining node is told it was added before its AddNode entry committed" % [fkey(x) for x in (chain or [])], loc(b, bi))
    dca = ctx.anchor(F.method, "LeaderState", "drain_commit_actions")
    if dca:
        mb = F.main_body(dca)
        so = field_receiver_calls(F, mb, "LeaderState", "pending_commit_actions", r"BTreeMap::split_off$")
        ctx.floor("C27-d", len(so), 1, "pending_commit_actions.split_off in drain_commit_actions")
        for (bi, t) in so:
            s = XSlice(F, mb).operand(t["args"][1])
            ctx.check("C27-d", "%s#split_off-key" % fkey(dca), any(x[0] == "rparam" and x[2] == 2 for x in s.sources) and "1" in s.consts(),
                      "entries kept for later are those above new_commit (+1)", "split point of pending_commit_actions does not derive from new_commit + 1: %s" % sorted(s.sources, key=str)[:6], loc(mb, bi))
    hj = ctx.anchor(F.method, "LeaderState", "handle_join_cluster")
    if hj:
        mb = F.main_body(hj)
        conds = edge_conditions(mb)
        props = [(bi, "AddNode") for (bi, si, st) in agg_sites(mb, "AddNode")]
        ctx.floor("C27-d", len(props), 1, "AddNode construction in handle_join_cluster")
        for (bi, nm) in props:
            ok, wit, _ = guarded_by(mb, bi, lambda c: c.truth is False and cond_calls(F, c, r"Membership::contains_node$"), conds)
            ctx.check("C27-d", "%s#%s#not-member" % (fkey(hj), nm), ok, "only when contains_node(node_id) is false",
                      "handle_join_cluster can propose AddNode for a node that is already a member (an Active voter that re-joins is overwritten with the joining status)", loc(mb, bi), wit and bpath(mb, wit))
        cn = calls_matching(mb, r"Membership::contains_node$")
        ctx.floor("C27-d", len(cn), 1, "contains_node in handle_join_cluster")
        for (bi, t) in cn:
            s = Slice(F, mb).operand(t["args"][1])
            ctx.check("C27-d", "%s#contains_node-arg" % fkey(hj), s.has_field("JoinRequest", "node_id"), "membership test is on the requested node id",
                      "contains_node is not asked about JoinRequest.node_id", loc(mb, bi))

    # ---------------------------------------------------------------- C27-e learner -> follower only on applied promotion
    bf = [(b, bi, st) for (b, bi, si, st) in all_agg_sites(F, "InternalEvent", "BecomeFollower", crates=("d_engine_core",))
          if is_ty(F, F.root_of[b.id], "learner_state::LearnerState")]
    ctx.floor("C27-e", len(bf), 1, "BecomeFollower built by LearnerState")
    for (b, bi, st) in bf:
        root = F.root_of[b.id]

        def promoted(c):
            if c.kind != "cmp" or c.truth is None:
                return False
            sa, sb = XSlice(F, b).operand(c.a), XSlice(F, b).operand(c.b)
            op = c.op if c.truth else NEG[c.op]
            for (x, y) in ((sa, sb), (sb, sa)):
                if x.has_field("NodeMeta", "role") and x.has_call(r"Membership::retrieve_node_meta$") and y.has_cname(LEARNER_CONST):
                    return op == "Ne"
            return False
        ok, wit, _ = guarded_by(b, bi, promoted)
        ctx.check("C27-e", "%s#BecomeFollower" % fkey(root), ok,
                  "learner turns follower only under retrieve_node_meta(self).role != Learner",
                  "a learner can send BecomeFollower (and then vote / campaign) without its applied membership role being != Learner", loc(b, bi), wit and bpath(b, wit))
