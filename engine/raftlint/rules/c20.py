"""C20 Log and meta stores honour the storage contract - sibling agreement only (DESIGN 4/C20).
Decides: (a) purge boundary: the trait default LogStore::load_purge_boundary is the constant Ok(None) and
BufferedRaftLog::new reads it at start-up, so every LogStore impl that implements purge must override it,
and an overriding impl must write the boundary in purge under the key it reads back; (b) last_index after
truncate / replace_range: the value both engines store into their cached last_index must have the same
kind of provenance (surviving stored state vs. argument arithmetic); persist_entries: both store the batch
maximum; (c) replace_range is overridden by every engine (the trait default is truncate-then-append, two
steps) and is one critical section (File: one Mutex::lock dominating set_len and the writes) / one
WriteBatch committed by one DB::write (RocksDB).  Necessary conditions, not the whole behaviour: equality
with a reference store over operation sequences is not decided."""
from .common import *
from .helpers_r3 import *

EXPLANATION = __doc__
TRAIT = "d_engine_core::storage::storage_engine::LogStore"
STATE_READ = r"(btree::map::BTreeMap.*::(keys|iter|last_key_value|range|first_key_value)|DBCommon.*::(iterator_cf|get_cf|iterator)|SkipMap.*::(back|front|iter))$"


def log_store_impls(F):
    out = []
    for im in F.impls:
        if im["crate"] != "d_engine_server":
            continue
        items = dict((it["of"], it["def"]) for it in im["items"] if "of" in it)
        if any(k.startswith(TRAIT + "::") for k in items):
            out.append((im["self"], items))
    return out


def gcalls(F, fn_id, rx):
    return [(b, bi, t) for b in F.group_bodies(fn_id) for (bi, t) in calls_matching(b, rx)]


def last_index_stores(F, fn_id):
    out = []
    for b in F.group_bodies(fn_id):
        for (bi, t) in calls_matching(b, r"atomic::Atomic\w*::(store|swap|fetch_max)$"):
            if XSlice(F, b).operand(t["args"][0]).has_field("LogStore", "last_index"):
                out.append((b, bi, t))
    return out


def run(ctx):
    F = ctx.F
    impls = log_store_impls(F)
    ctx.floor("C20-a", len(impls), 2, "LogStore impls in d_engine_server")
    short = lambda s: strip_generics(s).split("::")[-1]

    # ---------------------------------------------------------------- C20-a purge boundary survives reopen
    dflt = F.bodies.get(TRAIT + "::load_purge_boundary")
    ctx.check("C20-a", "LogStore::load_purge_boundary#default-is-None", dflt is not None and not list(dflt.calls()) and
              any(st["rv"].get("v") == "None" for blk in dflt.blocks for st in blk["st"] if st.get("rv", {}).get("k") == "agg"),
              "trait default returns the constant Ok(None) (an impl that does not override it forgets the boundary)",
              "anchor changed: LogStore::load_purge_boundary default is no longer the constant Ok(None); re-derive C20-a")
    nb = ctx.anchor(F.method, "BufferedRaftLog", "new")
    if nb:
        rd = [x for b in F.group_bodies(nb) for x in calls_matching(b, r"LogStore::load_purge_boundary$")]
        ctx.floor("C20-a", len(rd), 1, "BufferedRaftLog::new reads LogStore::load_purge_boundary")
    for (ty, items) in impls:
        has_purge = (TRAIT + "::purge") in items
        over = items.get(TRAIT + "::load_purge_boundary")
        if not has_purge:
            continue
        pb = F.bodies.get(items[TRAIT + "::purge"])
        where = pb and "%s:%s" % (pb.file, pb.line)
        ctx.check("C20-a", "%s#load_purge_boundary#overridden" % short(ty), over is not None,
                  "implements purge and overrides load_purge_boundary",
                  "%s implements purge but inherits LogStore::load_purge_boundary -> Ok(None).  History: persist 1..10, purge(LogId{index 6, term t}), reopen: entries 7..10 are "
                  "loaded but BufferedRaftLog::new gets no boundary, so last_purged_index/term = 0: entry_term(6) is None, an AppendEntries with prev_log_index = 6 is answered "
                  "with a conflict although the follower is in sync, and a leader cannot tell peers the term at the boundary (the RocksDB sibling persists it)" % short(ty), where)
        if over is not None:
            wr = [(b, bi, t) for (b, bi, t) in gcalls(F, items[TRAIT + "::purge"], r"DBCommon.*::(put_cf|put)$|std::fs::write$|io::Write::write_all$")]
            rdk = set()
            for (b, bi, t) in gcalls(F, over, r"DBCommon.*::(get_cf|get|get_pinned_cf)$|std::fs::read$"):
                for a in t["args"]:
                    rdk |= set(x[1] for x in XSlice(F, b).operand(a).sources if x[0] == "cname" and "::" in x[1])
            wrk = set()
            for (b, bi, t) in wr:
                for a in t["args"]:
                    wrk |= set(x[1] for x in XSlice(F, b).operand(a).sources if x[0] == "cname" and "::" in x[1])
            ctx.check("C20-a", "%s#purge#writes-boundary-key" % short(ty), bool(rdk) and bool(rdk & wrk),
                      "purge writes the key load_purge_boundary reads (%s)" % sorted(k.split("::")[-1] for k in rdk & wrk),
                      "%s::purge does not write the key that load_purge_boundary reads back (read keys %s, written keys %s): the boundary is lost at reopen"
                      % (short(ty), sorted(k.split("::")[-1] for k in rdk), sorted(k.split("::")[-1] for k in wrk)), where)

    # ---------------------------------------------------------------- C20-b cached last_index: siblings agree
    for meth in ("truncate", "replace_range"):
        classes = {}
        for (ty, items) in impls:
            d = items.get(TRAIT + "::" + meth)
            if not d:
                continue
            sts = last_index_stores(F, d)
            if not sts:
                classes[ty] = ("none", None, None)
                continue
            # EVERY cached-last_index store of the function is classified; one argument-derived store makes the impl "args"
            kinds_ = []
            for (b, bi, t) in sts:
                s = XSlice(F, b, through_calls=True).operand(t["args"][1])
                state = s.has_call(STATE_READ) or any(x[0] == "field" and x[2] in ("entries", "index_end_pos") for x in s.sources)
                kinds_.append(("state" if state else "args", b, bi))
            worst = [k for k in kinds_ if k[0] == "args"] or kinds_
            classes[ty] = worst[-1]
        ctx.floor("C20-b", len(classes), 2, "LogStore::%s impls with a cached last_index update" % meth)
        kinds = set(c[0] for c in classes.values())
        for ty, (kind, b, bi) in sorted(classes.items()):
            ok = len(kinds) == 1 or kind == "state"
            ctx.check("C20-b", "%s::%s#last_index-source" % (short(ty), meth), ok,
                      "after %s the cached last_index is derived from %s (siblings: %s)" % (meth, kind, sorted(kinds)),
                      "after %s the engines compute last_index differently: %s derives it from the arguments (from_index - 1 / last new entry) while a sibling derives it "
                      "from the surviving stored entries.  Input: entries 1..5, %s(10%s): this engine reports last_index() = 9, the sibling (and a reference store, and this "
                      "engine after reopen) report 5" % (meth, short(ty), meth, ", []" if meth == "replace_range" else ""), b and loc(b, bi))
    pe = {}
    for (ty, items) in impls:
        d = items.get(TRAIT + "::persist_entries")
        sts = d and last_index_stores(F, d)
        if sts:
            (b, bi, t) = sts[-1]
            s = XSlice(F, b).operand(t["args"][1])
            # max over the batch: a running `max()` accumulator or `entries.iter().map(|e| e.index).max()`
            idx = s.has_field("Entry", "index")
            for x in s.sources:
                if x[0] == "closure" and x[1] in F.bodies:
                    idx = idx or Slice(F, F.bodies[x[1]]).operand({"p": {"l": 0}}).has_field("Entry", "index")
            pe[ty] = (s.has_call(r"cmp::Ord::max$|cmp::max$|Iterator::max$") and idx, s.has_call(r"atomic::Atomic\w*::load$") or strip_generics(callee_key(t)).endswith("fetch_max"), b, bi)
    ctx.floor("C20-b", len(pe), 2, "LogStore::persist_entries impls with a cached last_index update")
    for ty, (is_batch_max, reads_old, b, bi) in sorted(pe.items()):
        same = len(set((v[0], v[1]) for v in pe.values())) == 1
        ctx.check("C20-b", "%s::persist_entries#last_index-source" % short(ty), is_batch_max and same,
                  "stores the batch maximum of Entry.index%s; siblings agree" % (" combined with the old value" if reads_old else ""),
                  "persist_entries siblings disagree on the cached last_index (batch max: %s, combines old value: %s): after persisting a lower index the engines report different last_index()"
                  % (is_batch_max, reads_old), loc(b, bi))

    # ---------------------------------------------------------------- C20-c replace_range is one step
    for (ty, items) in impls:
        d = items.get(TRAIT + "::replace_range")
        ctx.check("C20-c", "%s#replace_range#overridden" % short(ty), d is not None, "overrides replace_range",
                  "%s inherits the default replace_range = truncate(); persist_entries(): a crash (or a concurrent reader) between the two steps sees the log truncated without the replacement" % short(ty))
        if d is None:
            continue
        locks = gcalls(F, d, r"sync::(poison::)?mutex::Mutex.*::lock$|Mutex::lock$")
        # the truncation may sit in a private helper of the store (`inner.cut_tail(from)`): the call that reaches set_len is the site
        setlen = [(x, bi, t) for x in F.group_bodies(d) for (bi, t) in x.calls() if call_reaches_rx(F, t, r"fs::File::set_len$", 2)]
        writes = [x for x in F.group_bodies(d) for x in [(x, bi, t) for (bi, t) in x.calls() if call_reaches_rx(F, t, r"io::Write::write_all$", 3)]]
        dbw = gcalls(F, d, r"DBCommon.*::(write|write_opt)$")
        dels = gcalls(F, d, r"WriteBatch\w*::(delete_range_cf|delete_cf)$")
        puts = gcalls(F, d, r"WriteBatch\w*::put_cf$")
        if setlen:
            b0 = setlen[0][0]
            ok = len(locks) == 1 and locks[0][0] is b0 and all(b is b0 and b0.dominates(locks[0][1], bi) for (b, bi, t) in setlen + writes) and bool(writes) \
                and not gcalls(F, d, r"core::mem::drop$")
            ctx.check("C20-c", "%s#replace_range#one-critical-section" % short(ty), ok,
                      "one Mutex::lock dominates the truncation (set_len) and the appends; the guard is not dropped in between",
                      "%s::replace_range does not do truncation and append under a single lock acquisition (locks=%d, set_len=%d, writes=%d): readers can observe the truncated log without the replacement"
                      % (short(ty), len(locks), len(setlen), len(writes)), loc(b0, setlen[0][1]))
        elif dbw:
            b0 = dbw[0][0]
            batch = Slice(F, b0).operand(dbw[0][2]["args"][1]).seen
            same = all(b is b0 and (Slice(F, b0).operand(t["args"][0]).seen & batch) for (b, bi, t) in dels + puts)
            ok = len(dbw) == 1 and bool(dels) and bool(puts) and same and all(b0.dominates(bi, dbw[0][1]) for (b, bi, t) in dels)
            ctx.check("C20-c", "%s#replace_range#one-write-batch" % short(ty), ok,
                      "range delete and puts go into the one WriteBatch committed by a single DB::write",
                      "%s::replace_range does not commit the delete and the puts in one WriteBatch / one DB::write (writes=%d, deletes=%d, puts=%d, same batch=%s): a crash between them leaves the log truncated without the replacement"
                      % (short(ty), len(dbw), len(dels), len(puts), bool(same)), loc(b0, dbw[0][1]))
        else:
            ctx.bad("C20-c", "%s#replace_range#form" % short(ty), "UNRECOGNISED-FORM: replace_range uses neither File::set_len nor a rocksdb WriteBatch; extend C20-c", "%s:%s" % (F.bodies[d].file, F.bodies[d].line))
