"""C19 The buffered log behaves like a plain indexed log - PARTIAL: the bounds and index bookkeeping its answers rest on.
The model-equivalence over all operation sequences is a run-time statement and is not decided. Decided are four
structural clauses, each a necessary condition (breaking it makes some answer differ from the plain log):
(a) entry_term answers from the term segments / entry map only for min_index <= i <= max_index, answers the purge
boundary's term exactly at last_purged_index, and None otherwise (exact decision table);
(b) last_log_id is the last entry's own (index, term) when the log is non-empty and the purge boundary otherwise;
(c) when remove_range repairs the per-term first/last index it searches the first match of a FORWARD scan for
`first` and of a REVERSED scan for `last`, and min_index/max_index are re-read from the front/back of the map;
(d) update_term_indexes lowers `first` with fetch_min and raises `last` with fetch_max of the entry's own index."""
from .common import *

EXPLANATION = __doc__
TECHNIQUE = "static analysis of rustc MIR facts: dominance/guard and value-provenance rules plus exact symbolic decision tables of loop-free guard functions (exhaustive over weak orderings)"
LEVEL_NOTE = "PARTIAL claim: decides the bounds / bookkeeping clauses named in the description, not equality with a reference log over operation sequences (TermSegments' loop, the SkipMap and the atomics' interleavings are not modelled)."


def entry_term_table(ctx, RULE):
    F = ctx.F
    # ---------------------------------------------------------------- (a) entry_term
    f = ctx.anchor(F.method, "BufferedRaftLog", "entry_term")
    if f:
        paths = table_of(ctx, RULE, f, "entry_term")
        if paths:
            tb0 = pathsym.Table(paths)

            def load_of(field):
                return lambda e: e[0] == "call" and e[1].endswith("::load") and e[2] and e[2][0][0] == "field" and e[2][0][2] == field
            q_max = pick(tb0.quant, load_of("max_index"), "")
            q_min = pick(tb0.quant, load_of("min_index"), "")
            q_pur = pick(tb0.quant, load_of("last_purged_index"), "")
            q_id = pick(tb0.quant, par(2), "")
            extra = [q for q in tb0.quant if q not in (q_max, q_min, q_pur, q_id)]
            if None in (q_max, q_min, q_pur, q_id) or extra:
                ctx.bad(RULE, "%s#table" % fkey(f), "UNRECOGNISED-FORM: entry_term decides on %s (expected max_index, min_index, last_purged_index, the queried index)" % [sym_show(q) for q in tb0.quant], "%s:%s" % (f.file, f.line))
            else:
                def outcome(p, w):
                    r = p.ret
                    if variant_of(r) == "None":
                        return "none"
                    if variant_of(r) == "Some":
                        v = agg_get(r, "0")
                        if load_of("last_purged_term")(v):
                            return "purge-boundary-term"
                        if mentions(v, lambda e: e[0] == "call" and mentions(e, lambda x: x[0] == "field" and x[2] == "term_segments")) and mentions(v, lambda e: e == q_id):
                            return "lookup"
                        return "other:" + sym_show(v)
                    if mentions(r, lambda e: e[0] == "field" and e[2] == "entries") and mentions(r, lambda e: e == q_id):
                        return "lookup"
                    return "other:" + sym_show(r)

                def spec(w):
                    mx, mn, pu, i = w.int(q_max), w.int(q_min), w.int(q_pur), w.int(q_id)
                    if mx != 0 and mn <= i <= mx:
                        return "lookup"
                    if pu > 0 and i == pu:
                        return "purge-boundary-term"
                    return "none"
                run_table(ctx, RULE, "%s#table" % fkey(f), paths, outcome, spec, "%s:%s" % (f.file, f.line),
                          variant_universe=None, what="entry_term(i): lookup iff min_index <= i <= max_index (log non-empty), purge-boundary term iff i == last_purged_index > 0, else None")


def run(ctx):
    F = ctx.F
    entry_term_table(ctx, "C19-a")
    # ---------------------------------------------------------------- (b) last_log_id
    g = ctx.anchor(F.method, "BufferedRaftLog", "last_log_id")
    if g:
        paths = table_of(ctx, "C19-b", g, "last_log_id")
        if paths:
            ok = True
            why = []
            for p in paths:
                r = p.ret
                nonempty = any(out is True and e[0] == "bin" and e[1] == "Lt" and e[2] == ("const", "0") and mentions(e[3], lambda x: x[0] == "call" and x[1].endswith("last_entry_id")) for (e, out) in p.conds)
                if nonempty:
                    good = mentions(r, lambda x: x[0] == "call" and x[1].endswith("::entry") ) or mentions(r, lambda x: x[0] == "call" and x[1].endswith("Option::map"))
                    good = good and mentions(r, lambda x: x[0] == "call" and x[1].endswith("last_entry_id"))
                    if not good:
                        ok = False
                        why.append("non-empty log: %s" % sym_show(r)[:100])
                else:
                    if variant_of(r) == "Some":
                        li = agg_get(agg_get(r, "0"), "index")
                        lt = agg_get(agg_get(r, "0"), "term")
                        good = li is not None and mentions(li, lambda x: x[0] == "field" and x[2] == "last_purged_index") and lt is not None and mentions(lt, lambda x: x[0] == "field" and x[2] == "last_purged_term")
                        pos = any(out is True and e[0] == "bin" and e[1] == "Lt" and e[2] == ("const", "0") and mentions(e[3], lambda x: x[0] == "field" and x[2] == "last_purged_index") for (e, out) in p.conds)
                        if not (good and pos):
                            ok = False
                            why.append("empty log: %s" % sym_show(r)[:100])
            ctx.check("C19-b", "%s#table" % fkey(g), ok and len(paths) >= 3, "last_log_id = last entry's id, or the purge boundary when the log is empty, or None",
                      "last_log_id does not answer (last entry | purge boundary | None) as a plain log with a purge boundary would: %s" % why, "%s:%s" % (g.file, g.line))
    # ---------------------------------------------------------------- (c) remove_range bookkeeping
    rr = ctx.anchor(F.method, "BufferedRaftLog", "remove_range")
    if rr:
        mb = F.main_body(rr)
        n = {"first": 0, "last": 0}
        for (which, fld_) in (("first", "term_first_index"), ("last", "term_last_index")):
            # stores into the per-term atomic obtained from the map held in self.<fld_>
            for (bi, t) in mb.calls():
                k = strip_generics(callee_key(t) or "")
                if not re.search(r"atomic::Atomic\w*::store$", k):
                    continue
                recv = Slice(F, mb, through_calls=True).operand(t["args"][0])
                if not recv.has_field("BufferedRaftLog", fld_):
                    continue
                n[which] += 1
                val = Slice(F, mb, through_calls=True).operand(t["args"][1])
                finds = [(cb, ct) for (cb, ct) in val.call_sites if re.search(r"Iterator>?::find$|Iterator::find$", callee_key(ct) or "")]
                reversed_ = any("adapters::rev::Rev" in (ct["f"].get("self") or "") for (_cb, ct) in finds)
                from_entries = val.has_field("BufferedRaftLog", "entries")
                want_rev = (which == "last")
                ctx.check("C19-c", "%s#term_%s_index#scan-direction" % (fkey(rr), which), bool(finds) and from_entries and reversed_ == want_rev,
                          "new %s index of the term = first match of a %s scan of the entries" % (which, "reversed" if want_rev else "forward"),
                          "after a removal the %s index of a term is taken from a %s scan (must be %s): last_index_for_term / first_index_for_term answer a wrong index, "
                          "conflict hints and the truncation point derived from them are wrong" % (which, "reversed" if reversed_ else "forward", "reversed" if want_rev else "forward"), loc(mb, bi))
        ctx.floor("C19-c", n["first"], 1, "store of a repaired term_first_index in remove_range")
        ctx.floor("C19-c", n["last"], 1, "store of a repaired term_last_index in remove_range")
        for (fld_, src) in (("min_index", "front"), ("max_index", "back")):
            sites = field_receiver_calls(F, mb, "BufferedRaftLog", fld_, r"atomic::Atomic\w*::store$")
            ctx.floor("C19-c", len(sites), 1, "%s store in remove_range" % fld_)
            for (bi, t) in sites:
                val = Slice(F, mb, through_calls=True).operand(t["args"][1])
                ctx.check("C19-c", "%s#%s#from-%s" % (fkey(rr), fld_, src), val.has_call(r"SkipMap::%s$" % src) and val.has_field("BufferedRaftLog", "entries") and "0" in val.consts(),
                          "%s re-read from entries.%s() (0 when empty)" % (fld_, src), "%s after a removal is not entries.%s() / 0" % (fld_, src), loc(mb, bi))
    # ---------------------------------------------------------------- (d) update_term_indexes
    ut = ctx.anchor(F.method, "BufferedRaftLog", "update_term_indexes")
    if ut:
        mb = F.main_body(ut)
        for (fld_, op) in (("term_first_index", "fetch_min"), ("term_last_index", "fetch_max")):
            hits = []
            for (bi, t) in mb.calls():
                k = strip_generics(callee_key(t) or "")
                if re.search(r"atomic::Atomic\w*::(fetch_min|fetch_max|store|swap)$", k):
                    recv = Slice(F, mb, through_calls=True).operand(t["args"][0])
                    if recv.has_field("BufferedRaftLog", fld_):
                        hits.append((bi, t, k.split("::")[-1]))
            ctx.floor("C19-d", len(hits), 1, "%s update in update_term_indexes" % fld_)
            for (bi, t, used) in hits:
                val = Slice(F, mb).operand(t["args"][1])
                ctx.check("C19-d", "%s#%s" % (fkey(ut), fld_), used == op and val.has_field("Entry", "index"),
                          "%s updated with %s(entry.index)" % (fld_, op), "%s is updated with `%s` (must be %s of the entry's index)" % (fld_, used, op), loc(mb, bi))
