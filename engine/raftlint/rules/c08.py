"""C08 AppendEntries requests are contiguous and keep logs gap-free (DESIGN 4/C08).
Decides: (a) in the per-peer payload builder the new entries are appended after the (capped) run of older
entries only under a guard that ties the cap to the end of the old run - otherwise the request has an index
gap; (b) index allocation agreement: a tail truncation of the in-memory log (remove_range(x..=MAX)) must be
followed by lowering the allocator `next_id`, because new entries take their indexes from next_id;
(c) entries of a request get consecutive indexes from one pre-allocated range, and the request's entries
field is the per-peer vector.  Necessary conditions, not the behaviour over all logs."""
from .common import *

EXPLANATION = __doc__
U64MAX = "18446744073709551615"


def run(ctx):
    F = ctx.F
    # ---------------------------------------------------------------- C08-a
    f = ctx.anchor(F.method, "ReplicationHandler", "retrieve_to_be_synced_logs_for_peers")
    if f:
        mb = F.main_body(f)
        conds = edge_conditions(mb)
        ext = []
        for (bi, t) in calls_matching(mb, r"Vec::extend_from_slice$|Vec::extend$|Extend::extend$"):
            s = Slice(F, mb, through_calls=True).operand(t["args"][1])
            if any(x[0] == "param" and x[1] == 2 for x in s.sources):    # new_entries (1st parameter after self)
                ext.append((bi, t))
        ctx.floor("C08-a", len(ext), 1, "append of new_entries to the per-peer vector")
        legacy = calls_matching(mb, r"RaftLog::get_entries_range$")
        ctx.floor("C08-a", len(legacy), 1, "legacy range read")
        for (bi, t) in ext:
            def cap_related(c):
                s = cond_slice(F, c)
                # a test that involves the cap (4th parameter) or compares the end of the legacy run with the leader's last index (3rd)
                return any(x[0] == "param" and x[1] in (3, 4) for x in s.sources)
            ok, _hits = control_dependent_on(mb, bi, cap_related, conds)
            wit = None
            trunc = [x for x, _ in calls_matching(mb, r"Vec::truncate$") if mb.dominates(bi, x)]
            ctx.check("C08-a", "%s#new-entries-after-capped-legacy" % fkey(f), ok or bool(trunc),
                      "new entries are appended only when the older run reaches them (or the cap is applied to the concatenation)",
                      "the per-peer vector is `older entries [next ..= min(last, next+cap-1)]` followed UNCONDITIONALLY by the new entries: when the peer lags by "
                      "more than the cap the request carries indexes n..n+cap-1 and then last+1 (a gap), which the follower appends without a contiguity check",
                      loc(mb, bi), wit and bpath(mb, wit))
    # ---------------------------------------------------------------- C08-b
    brl_fns = [b for b in F.bodies.values() if b.parent is None and self_type_of(F, b.id).endswith("buffered_raft_log::BufferedRaftLog")]
    tails = []
    for fn in brl_fns:
        for b in F.group_bodies(fn):
            for (bi, t) in calls_matching(b, r"BufferedRaftLog::remove_range$"):
                s = Slice(F, b, through_calls=True).operand(t["args"][1])
                if U64MAX in s.consts():
                    tails.append((fn, b, bi, t))
    ctx.floor("C08-b", len(tails), 1, "tail truncation (remove_range(x..=u64::MAX))")

    def lowers_next_id(body):
        return field_receiver_calls(F, body, "BufferedRaftLog", "next_id", r"atomic::Atomic\w*::(store|fetch_min|swap|compare_exchange|fetch_update|fetch_sub)$")
    rr = ctx.anchor(F.method, "BufferedRaftLog", "remove_range")
    callee_lowers = bool(rr and any(lowers_next_id(b) for b in F.group_bodies(rr)))
    for (fn, b, bi, t) in tails:
        after = [x for (x, _t) in lowers_next_id(b) if x != bi]
        wit = None if callee_lowers else must_pass(b, bi, [], after, treat_exit_as_goal=True)
        # error exits are fine
        ctx.check("C08-b", "%s#tail-truncation->next_id" % fkey(fn), callee_lowers or wit is None,
                  "tail truncation lowers the index allocator",
                  "the in-memory log tail is truncated (max_index lowered) but the index allocator `next_id` keeps its old value: the next entries this node "
                  "creates as leader get indexes beyond the truncated tail (gap), while batch start indexes are computed from last_entry_id()+1",
                  loc(b, bi), wit and bpath(b, wit))
    # positive control: reset_internal does lower next_id
    ri = ctx.anchor(F.method, "BufferedRaftLog", "reset_internal")
    if ri:
        ctx.check("C08-b", "BufferedRaftLog::reset_internal#lowers-next_id", any(lowers_next_id(b) for b in F.group_bodies(ri)),
                  "positive control: reset_internal stores next_id", "reset_internal no longer stores next_id (rule lost its positive control)")
    # ---------------------------------------------------------------- C08-d purge beyond the local tail (snapshot install) moves the allocator past the boundary
    pg = ctx.anchor(F.method, "BufferedRaftLog", "purge_logs_up_to")
    if pg:
        hit = False
        for b in F.group_bodies(pg):
            for (bi, t) in field_receiver_calls(F, b, "BufferedRaftLog", "next_id", r"atomic::Atomic\w*::(store|fetch_max|fetch_update|compare_exchange)$"):
                v = Slice(F, b, through_calls=True).operand(t["args"][1]) if len(t["args"]) > 1 else None
                if v is not None and (any(x[0] == "param" and x[1] == 2 for x in v.sources) or v.has_param("cutoff_index") or v.has_field("LogId", "index")):
                    hit = True
        ctx.check("C08-d", "%s#next_id>=boundary+1" % fkey(pg), hit,
                  "purge raises the index allocator to at least boundary+1",
                  "purge_logs_up_to(boundary) never raises the index allocator `next_id`: a node whose log ends below the boundary (lagging follower "
                  "that installs a snapshot covering 1..=10 while holding 1..=5) has last_log_id()=(10,t) but allocates its next entry at 6: if it is "
                  "elected, its no-op and entries re-use indexes at or below the snapshot boundary", "%s:%s" % (pg.file, pg.line))
    # ---------------------------------------------------------------- C08-c
    g = ctx.anchor(F.method, "ReplicationHandler", "generate_new_entries")
    if g:
        mb = F.main_body(g)
        ents = agg_sites(mb, "common::Entry")
        ctx.floor("C08-c", len(ents), 1, "Entry construction in generate_new_entries")
        for (bi, si, st) in ents:
            s = Slice(F, mb).operand(agg_field(st, "index"))
            ctx.check("C08-c", "%s#Entry.index" % fkey(g), s.has_call(r"RaftLog::pre_allocate_id_range$") and "1" in s.consts() and (("binop", "AddWithOverflow") in s.sources or ("binop", "Add") in s.sources),
                      "entry indexes = start of the pre-allocated range, +1 per entry", "new entries' indexes do not come from pre_allocate_id_range (+1 each): %s" % sorted(s.sources)[:8], loc(mb, bi))
    bar = ctx.anchor(F.method, "ReplicationHandler", "build_append_request")
    if bar:
        for b in F.group_bodies(bar):
            for (bi, si, st) in agg_sites(b, "AppendEntriesRequest"):
                s = Slice(F, b, through_calls=True).operand(agg_field(st, "entries"))
                ctx.check("C08-c", "%s#entries" % fkey(bar), any(x[0] == "param" and x[1] == 4 for x in s.sources) and s.has_call(r"HashMap::remove$"),
                          "request.entries = the vector prepared for this peer", "AppendEntriesRequest.entries is not the per-peer prepared vector", loc(b, bi))
