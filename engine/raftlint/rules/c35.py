"""C35 Multi-key reads aligned with the requested keys - alignment by construction (DESIGN 4/C35).
Decides, from the resolved generic arguments of the `collect` calls and value provenance:
(a) every function that produces the per-key result vector (`EmbeddedReadHandle::cmd_tx_path`,
    `StandaloneReadHandle::get_batch`, `GrpcClient::get_multi_with_policy`, every `StateMachine::get_multi`
    impl and the trait default) builds it with `collect` over `Map<slice::Iter<Bytes>, closure>` - one output
    per key, in key order, no filtering/zipping adaptor - and the slice iterated is the requested key list;
(b) the per-key closure returns the result of a map/store lookup whose key argument is that closure's key;
(c) wrappers only map element-wise (`Map<vec::IntoIter<..>>`) and forward the caller's key list unchanged
    (to get_multi / get_batch / cmd_tx_path / ReadCmd / ClientReadRequest) - nothing drops or reorders keys;
(d) the sparse producers pair each value with its own key: `read_from_state_machine` (KvEntry{key, get(key)}),
    `fast_path_batch_read_response` (zip(keys, values), key from .0, value from .1), and the realignment maps
    are keyed by the entry's `key` field.
Necessary conditions, not the whole behaviour (what a StateMachine::get returns is not decided)."""
from .common import *

EXPLANATION = __doc__
BYTES_ITER = r"core::slice::iter::Iter<'_, bytes::bytes::Bytes>"
ALIGNED = re.compile(r"^core::iter::adapters::map::Map<%s, \{closure@[^{}]*\}>$" % BYTES_ITER)
ELEMENTWISE = re.compile(r"^core::iter::adapters::map::Map<alloc::vec::into_iter::IntoIter<[^{}]*>, \{closure@[^{}]*\}>$")
RESULT_VEC = re.compile(r"collect::<(core::result::Result<)?alloc::vec::Vec<core::option::Option<")
DROPS = re.compile(r"^(?!core::mem::).*::(filter|filter_map|skip|skip_while|take|take_while|step_by|truncate|split_off|drain|pop|remove|swap_remove|retain|rev|reverse|sort\w*|dedup\w*|zip|chain)$")
LOOKUP = r"::(get|get_cf|get_pinned_cf|get_key_value|get_opt|get_cf_opt)$"


def ends(adt, suffix):
    a = strip_generics(adt)
    return a == suffix or a.endswith("::" + suffix)


def loop_form_alignment(F, fam):
    """(body, push block, ok, why) for a `for k in keys { out.push(lookup(k)) }` loop in one of the functions, or None"""
    for g in fam:
        for b in F.group_bodies(g):
            for (bi, t) in calls_matching(b, r"Vec(::<.*>)?::push$"):
                if "Option<bytes::bytes::Bytes>" not in (b.local_ty(Slice(F, b).operand(t["args"][0]).seen and sorted(Slice(F, b).operand(t["args"][0]).seen)[0]) or "") and \
                        not any("Option<bytes::bytes::Bytes>" in (b.local_ty(l) or "") for l in Slice(F, b).operand(t["args"][1]).seen):
                    continue
                h, early = loop_early_exits(F, b, bi)
                if h is None:
                    continue
                it = Slice(F, b, through_calls=True).operand(b.term(h)["args"][0])
                over_keys = any(x[0] == "param" for x in it.sources) or any(x[0] == "upvar" for x in it.sources)
                el = b.term(h)["dest"]["l"]
                vs = Slice(F, b, through_calls=True).operand(t["args"][1])
                lookup = vs.has_call(LOOKUP) and el in vs.seen
                body_entry = [y for y in b.succ(b.succ(h)[0]) ] if b.succ(h) else []
                skip = must_pass(b, b.term(h)["t"], [h], [bi]) if b.term(h).get("t") is not None else None
                ok = over_keys and lookup and not early and skip is None
                why = "over the key parameter=%s, lookup by the loop key=%s, early exits=%d, iteration can skip the push=%s" % (over_keys, lookup, len(early), skip is not None)
                return (b, bi, ok, why)
    return None


def api_positions(F, body, s):
    """positions (1-based, receiver counted) of the root function's parameters a slice derives from"""
    root = F.bodies[F.root_of[body.id]]
    names = dict((root.local_name(i), i) for i in range(1, root.argc + 1))
    pos = set()
    for x in s.sources:
        if x[0] == "param" and body.parent is None:
            pos.add(x[1])
        elif x[0] == "upvar" and x[1].lstrip("*&") in names:
            pos.add(names[x[1].lstrip("*&")])
    return pos


def keys_position(F, root):
    """position of the parameter holding the requested keys: the (only) parameter whose type mentions Bytes / AsRef<[u8]> collections"""
    b = F.bodies[root.id]
    c = [i for i in range(1, b.argc + 1) if re.search(r"\[bytes::bytes::Bytes\]|Vec<bytes::bytes::Bytes>|IntoIterator", b.local_ty(i))]
    return c[0] if len(c) == 1 else None


def drops(s):
    """adaptors / sub-slicing that can drop or reorder elements on the way"""
    out = set(strip_generics(x[1]).split("::")[-1] for x in s.sources if x[0] == "call" and DROPS.search(strip_generics(x[1])))
    out |= set("[%s]" % strip_generics(x[1]).split("::")[-1] for x in s.sources if x[0] == "agg" and "ops::range::Range" in x[1] and not x[1].endswith("RangeFull"))
    return sorted(out)


def collects(F, fn):
    out = []
    for b in F.group_bodies(fn):
        for (x, t) in calls_matching(b, r"Iterator::collect$"):
            out.append((b, x, t, t["f"].get("self") or "", t["f"].get("fa") or ""))
    return out


def adaptor_call(b, t):
    """the iterator-adaptor call (map / filter_map ..) whose result is the receiver of this collect"""
    o = t["args"][0]
    for _ in range(6):
        if "p" not in o:
            return None
        ds = b.defs().get(o["p"]["l"], [])
        if len(ds) != 1:
            return None
        if ds[0][0] == "call":
            return ds[0][2]
        if ds[0][0] == "assign" and ds[0][3]["rv"]["k"] == "use":
            o = ds[0][3]["rv"]["a"]
        else:
            return None
    return None


def closure_of(F, b, t):
    """the closure handed to the adaptor feeding this collect"""
    a = adaptor_call(b, t)
    if a is None or len(a["args"]) < 2:
        return None
    o = a["args"][1]
    for _ in range(6):
        ds = b.defs().get(o["p"]["l"], []) if "p" in o else []
        if len(ds) != 1 or ds[0][0] != "assign":
            return None
        rv = ds[0][3]["rv"]
        if rv["k"] == "agg" and "closure" in rv:
            return F.bodies.get(rv["closure"])
        if rv["k"] != "use":
            return None
        o = rv["a"]
    return None


def base_slice(F, b, t):
    """provenance of the iterator the adaptor was applied to (without what its closure captures)"""
    a = adaptor_call(b, t)
    return Slice(F, b, through_calls=True).operand(a["args"][0] if a is not None else t["args"][0])


def family(F, f, depth=2):
    """the function plus the methods of the same Self type it calls (a handle's read path may be split into private helpers)"""
    st = self_type_of(F, f.id)
    out, seen, todo = [f], {f.id}, [(f, 0)]
    while todo:
        g, d = todo.pop()
        if d >= depth:
            continue
        for (_k, targets, _bid, _bi) in F.callees(g.id):
            for tg in targets:
                tb = F.bodies.get(tg)
                if tb is not None and tb.id not in seen and st and self_type_of(F, tb.id) == st:
                    seen.add(tb.id)
                    out.append(tb)
                    todo.append((tb, d + 1))
    return out


def run(ctx):
    F = ctx.F
    # ---------------------------------------------------------------- the aligned producers
    prod = []
    for (adt, name) in (("EmbeddedReadHandle", "cmd_tx_path"), ("StandaloneReadHandle", "get_batch")):
        f = ctx.anchor(F.method, adt, name)
        if f:
            prod.append(f)
    g = [x for x in F.find(r"^d_engine_client::grpc_client::GrpcClient::get_multi_with_policy$") if x.parent is None]
    prod += g
    gm = "d_engine_core::storage::state_machine::StateMachine::get_multi"
    impls = [F.bodies[d] for (_s, d) in F.impls_of_method.get(gm, []) if d in F.bodies and not is_test_id(d) and "mock" not in d.lower()]
    if gm in F.bodies:
        impls.append(F.bodies[gm])
    prod += impls
    ctx.floor("C35-a", len(g), 1, "GrpcClient::get_multi_with_policy (inherent)")
    ctx.floor("C35-a", len(impls), 3, "StateMachine::get_multi impls (File, RocksDB) + trait default")
    n_aligned = 0
    for f0 in prod:
      fam = family(F, f0) if f0.crate == "d_engine_server" else [f0]
      cs_all = [(g, c) for g in fam for c in collects(F, g) if RESULT_VEC.search(c[4])]
      if not cs_all:
          # loop form of the same construction: `for k in keys { out.push(map.get(k).cloned()) }` - one push per iteration of a
          # loop over the requested key slice, no way round the push, no early exit, the pushed value is a lookup by the loop's key
          lf = loop_form_alignment(F, fam)
          if lf is not None:
              (lb, lbi, okl, why) = lf
              ctx.check("C35-a", "%s#collect#shape" % fkey(f0), okl, "loop form: exactly one push per requested key, in key order (%s)" % why,
                        "the per-key result vector is filled by a loop that does not push exactly one lookup result per requested key (%s)" % why, loc(lb, lbi))
              n_aligned += 1
              continue
      ctx.floor("C35-a", len(cs_all), 1, "%s: collect producing Vec<Option<..>>" % fkey(f0))
      for (f, (b, x, t, self_ty, fa)) in cs_all:
        kp = keys_position(F, f)
        for _once in (1,):
            key = "%s#collect" % fkey(f0)
            ctx.check("C35-a", key + "#shape", bool(ALIGNED.match(self_ty)), "collect over Map<slice::Iter<Bytes>, closure>: one result per key, in order",
                      "the per-key result vector is collected from `%s`, not from a plain map over the key slice: with keys [a,b,a] or a missing key the "
                      "results no longer line up with the request (length or order differs)" % re.sub(r"\{closure@[^{}]*\}", "{closure}", self_ty)[:200], loc(b, x))
            s = base_slice(F, b, t)
            pos = api_positions(F, b, s)
            via = [(y, u) for (y, u) in s.call_sites if re.search(r"Iterator::collect$", strip_generics(callee_key(u)))]
            src_ok = kp is not None and kp in pos
            if not src_ok and via:  # the key list was first materialised from the parameter (gRPC client): must be 1:1 as well
                for (y, u) in via:
                    s2 = base_slice(F, b, u)
                    one2one = re.match(r"^core::iter::adapters::map::Map<<impl IntoIterator<.*> as core::iter::traits::collect::IntoIterator>::IntoIter, \{closure@[^{}]*\}>$", u["f"].get("self") or "")
                    src_ok = src_ok or (kp in api_positions(F, b, s2) and bool(one2one) and not drops(s2))
            ctx.check("C35-a", key + "#over-request-keys", src_ok and not drops(s), "iterates the requested key list (parameter #%s)" % kp,
                      "the slice the results are mapped over is not the caller's key list (params %s, adaptors %s): the output is aligned with some other list"
                      % (sorted(pos), drops(s)), loc(b, x))
            n_aligned += 1
            # ---------------------------------------------------- C35-b per-key closure = lookup by that key
            cb = closure_of(F, b, t)
            if cb is None:
                ctx.bad("C35-b", "%s#closure" % fkey(f0), "cannot resolve the per-key closure of the aligned map", loc(b, x))
                continue
            ret = Slice(F, cb, through_calls=True).place({"l": 0})
            looks = []
            for (y, u) in calls_matching(cb, LOOKUP):
                byk = any(any(z[0] == "param" and z[1] == 2 for z in Slice(F, cb, through_calls=True).operand(a).sources) for a in u["args"][1:])
                if byk and u["dest"]["l"] in ret.seen:
                    looks.append(y)
            ctx.check("C35-b", "%s#closure" % fkey(f0), bool(looks) and not ret.consts(), "result i = lookup(key i)",
                      "the per-key closure does not return the lookup of its own key (lookups by the closure's key reaching the result: %d): result i is not "
                      "the value of keys[i]" % len(looks), "%s:%s" % (cb.file, cb.line))
    ctx.floor("C35-a", n_aligned, 6, "aligned result collects")

    # ---------------------------------------------------------------- C35-c wrappers
    wrappers = [x for x in F.find(r"^<d_engine_client::grpc_client::GrpcClient as d_engine_core::client::client_api::ClientApi>::get_multi(_with_policy)?$") if x.parent is None]
    ctx.floor("C35-c", len(wrappers), 2, "GrpcClient ClientApi::get_multi / get_multi_with_policy")
    for f in wrappers:
        cs = [c for c in collects(F, f) if RESULT_VEC.search(c[4])]
        ctx.floor("C35-c", len(cs), 1, "%s: collect" % fkey(f))
        for (b, x, t, self_ty, fa) in cs:
            ctx.check("C35-c", "%s#collect#elementwise" % fkey(f), bool(ELEMENTWISE.match(self_ty)), "element-wise map of the inner result",
                      "the wrapper re-collects the aligned results through `%s`: entries can be dropped or reordered" % re.sub(r"\{closure@[^{}]*\}", "{closure}", self_ty)[:200], loc(b, x))
    fwd = [("EmbeddedReadHandle", "get_batch", r"StateMachine::get_multi$|EmbeddedReadHandle::cmd_tx_path$", 3),
           ("EmbeddedClient", "get_multi_with_consistency", r"EmbeddedReadHandle::get_batch$", 1)]
    for (adt, name, rx, floor) in fwd:
        f = ctx.anchor(F.method, adt, name)
        if not f:
            continue
        kp = keys_position(F, f)
        n = 0
        for b in F.group_bodies(f):
            for (x, t) in calls_matching(b, rx):
                n += 1
                s = Slice(F, b).operand(t["args"][1])
                ctx.check("C35-c", "%s#%s(keys)" % (fkey(f), strip_generics(callee_key(t)).split("::")[-1]), kp in api_positions(F, b, s) and not drops(s) and not s.consts(),
                          "forwards the caller's key list", "the key list passed on is not the caller's list unchanged (adaptors %s)" % drops(s), loc(b, x))
        ctx.floor("C35-c", n, floor, "%s: forwarding calls" % fkey(f))
    for f in wrappers:
        kp = keys_position(F, f)
        for b in F.group_bodies(f):
            for (x, t) in calls_matching(b, r"GrpcClient::get_multi_with_policy$"):
                s = Slice(F, b).operand(t["args"][1])
                ctx.check("C35-c", "%s#get_multi_with_policy(keys)" % fkey(f), kp in api_positions(F, b, s) and not drops(s), "forwards the caller's key list",
                          "the key list passed on is not the caller's list unchanged (adaptors %s)" % drops(s), loc(b, x))
    # request / command objects carry the whole key list
    n = 0
    for f0 in [x for x in prod if x.crate in ("d_engine_server", "d_engine_client")]:
      for f in (family(F, f0) if f0.crate == "d_engine_server" else [f0]):
        kp = keys_position(F, f)
        for b in F.group_bodies(f):
            for adt in ("ClientReadRequest", "ReadCmd"):
                for (bi, si, st) in agg_sites(b, adt):
                    n += 1
                    s = Slice(F, b, through_calls=True).operand(agg_field(st, "keys"))
                    ctx.check("C35-c", "%s#%s.keys" % (fkey(f), adt), kp in api_positions(F, b, s) and not drops(s), "request carries every requested key",
                              "%s.keys is not the caller's key list (adaptors %s): keys missing from the request come back as `absent` although they exist" % (adt, drops(s)), loc(b, bi))
    ctx.floor("C35-c", n, 4, "ClientReadRequest / ReadCmd constructions in the read paths")
    sr = ctx.anchor(F.fn, "read_actor::serve_read")
    if sr:
        cs = [(b, x, t) for b in F.group_bodies(sr) for (x, t) in calls_matching(b, r"StateMachine::get_multi$")]
        ctx.floor("C35-c", len(cs), 1, "serve_read: get_multi")
        for (b, x, t) in cs:
            s = Slice(F, b).operand(t["args"][1])
            ctx.check("C35-c", "%s#get_multi(cmd.keys)" % fkey(sr), s.has_field("ReadCmd", "keys") and not drops(s), "ReadActor reads exactly ReadCmd.keys",
                      "ReadActor does not read exactly the keys of the ReadCmd", loc(b, x))

    # ---------------------------------------------------------------- C35-d sparse producers pair value with its own key
    rf = ctx.anchor(F.method, "DefaultStateMachineHandler", "read_from_state_machine")
    if rf:
        aggs = agg_sites(rf, "KvEntry")
        ctx.floor("C35-d", len(aggs), 1, "KvEntry built in read_from_state_machine")
        for (bi, si, st) in aggs:
            ks, vs = Slice(F, rf).operand(agg_field(st, "key")), Slice(F, rf).operand(agg_field(st, "value"))
            gets = [(x, t) for (x, t) in vs.call_sites if re.search(r"StateMachine::get$", strip_generics(callee_key(t)))]
            elem = set(t["dest"]["l"] for (x, t) in calls_matching(rf, r"Iterator::next$"))
            same = any(elem & ks.seen & Slice(F, rf, through_calls=True).operand(t["args"][1]).seen for (x, t) in gets)
            ctx.check("C35-d", "%s#KvEntry" % fkey(rf), same and not ks.consts() and not vs.consts(), "KvEntry{key, value: get(key)} for the same loop key",
                      "read_from_state_machine pairs a key with a value that was not looked up under that key: the client's realignment by key returns the "
                      "wrong value", loc(rf, bi))
    fp = ctx.anchor(F.fn, "proto_convert::fast_path_batch_read_response")
    if fp:
        cs = collects(F, fp)
        ctx.floor("C35-d", len(cs), 1, "collect in fast_path_batch_read_response")
        for (b, x, t, self_ty, fa) in cs:
            zipped = re.search(r"Zip<%s, alloc::vec::into_iter::IntoIter<core::option::Option<bytes::bytes::Bytes>>>" % re.escape(BYTES_ITER).replace(r"\'", "'"), self_ty) is not None
            zc = calls_matching(b, r"Iterator::zip$")
            order = any(api_positions(F, b, Slice(F, b).operand(u["args"][0])) == {1} and api_positions(F, b, Slice(F, b).operand(u["args"][1])) == {2} for (_y, u) in zc)
            ctx.check("C35-d", "%s#zip(keys,values)" % fkey(fp), zipped and order, "results are built from zip(keys, values)",
                      "the sparse fast-path response is not built from zip(keys, values) of its two arguments (%s)" % re.sub(r"\{closure@[^{}]*\}", "{closure}", self_ty)[:200], loc(b, x))
        pair = tuple_pairing(F, fp)
        ctx.check("C35-d", "%s#ClientResult(key=.0,value=.1)" % fkey(fp), pair == ("0", "1"), "ClientResult{key: pair.0, value: pair.1}",
                  "ClientResult is not {key: zipped key, value: zipped value} (key from %s, value from %s)" % pair, "%s:%s" % (fp.file, fp.line))
    # realignment maps are keyed by the entry's key
    n = 0
    for f0 in prod:
      for f in (family(F, f0) if f0.crate == "d_engine_server" else [f0]):
        for (b, x, t, self_ty, fa) in collects(F, f):
            if "collect::<std::collections::hash::map::HashMap<bytes::bytes::Bytes" not in fa:
                continue
            n += 1
            cb = closure_of(F, b, t)
            nest = [y for y in F.group_bodies(f) if cb is not None and (y.id == cb.id or y.id.startswith(cb.id + "::"))]
            tup = [(y, st) for y in nest for blk in y.blocks for st in blk["st"] if st.get("rv", {}).get("k") == "agg" and st["rv"].get("tuple")]
            ok = bool(tup) and all(Slice(F, y).operand(st["rv"]["ops"][0]).has_field("KvEntry", "key") and not Slice(F, y).operand(st["rv"]["ops"][0]).has_field("KvEntry", "value") for (y, st) in tup)
            ctx.check("C35-d", "%s#realign-map-key" % fkey(f), ok, "map keyed by entry.key",
                      "the realignment map is not keyed by the returned entry's `key` field: lookups by requested key miss or hit the wrong entry", loc(b, x))
    # loop form: `for e in entries { map.insert(e.key, e.value) }`
    for f0 in prod:
      for f in (family(F, f0) if f0.crate == "d_engine_server" else [f0]):
        for b in F.group_bodies(f):
            for (bi, t) in calls_matching(b, r"HashMap(::<.*>)?::insert$"):
                if len(t["args"]) < 3 or loop_early_exits(F, b, bi)[0] is None:
                    continue
                ks, vs = Slice(F, b).operand(t["args"][1]), Slice(F, b).operand(t["args"][2])
                if not (ks.has_field("KvEntry", "key") or ks.has_field("KvEntry", "value") or vs.has_field("KvEntry", "value")):
                    continue
                n += 1
                ok = ks.has_field("KvEntry", "key") and not ks.has_field("KvEntry", "value")
                ctx.check("C35-d", "%s#realign-map-key" % fkey(f), ok, "map keyed by entry.key (loop form)",
                          "the realignment map is not keyed by the returned entry's `key` field: lookups by requested key miss or hit the wrong entry", loc(b, bi))
    ctx.floor("C35-d", n, 3, "realignment HashMap collects / insert loops (embedded, standalone, gRPC)")


def tuple_pairing(F, fp):
    """which tuple component of the zipped pair feeds ClientResult.key / .value (follows plain copies only)"""
    comp = {}

    def origin(body, op, depth=0):
        if "p" not in op or depth > 8:
            return None
        pl = op["p"]
        idx = [e["i"] for e in pl.get("pj", []) if isinstance(e, dict) and "i" in e]
        if pl["l"] == 2 and idx and body.id in comp.get("outer", ()):
            return str(idx[0])
        ups = core.place_upvars(pl)
        if ups:
            return ("up", ups[0])
        if 1 <= pl["l"] <= body.argc and not (body.kind == "Closure" and pl["l"] == 1):
            return ("param", pl["l"])
        for d in body.defs().get(pl["l"], []):
            if d[0] == "assign":
                rv = d[3]["rv"]
                if rv["k"] in ("use", "cast"):
                    r = origin(body, rv["a"], depth + 1)
                elif rv["k"] == "ref":
                    r = origin(body, {"p": rv["pl"]}, depth + 1)
                else:
                    r = None
                if r is not None:
                    return r
            elif d[0] == "call" and core.TRANSPARENT.match(callee_key(d[2]) or ""):
                r = origin(body, d[2]["args"][0], depth + 1)
                if r is not None:
                    return r
        return None
    outer = [b for b in F.group_bodies(fp) if b.parent == fp.id]
    comp["outer"] = set(b.id for b in outer)
    key = val = "?"
    for ob in outer:
        inner = [b for b in F.group_bodies(fp) if b.parent == ob.id]
        for blk in ob.blocks:
            t = blk["t"]
            if t["k"] == "call" and re.search(r"Option::map$", strip_generics(callee_key(t) or "")):
                mapped = origin(ob, t["args"][0])
                for ib in inner:
                    for (bi, si, st) in agg_sites(ib, "ClientResult"):
                        ko, vo = origin(ib, agg_field(st, "key")), origin(ib, agg_field(st, "value"))
                        if isinstance(vo, tuple) and vo[0] == "param":
                            val = mapped if isinstance(mapped, str) else "?"
                        if isinstance(ko, tuple) and ko[0] == "up":
                            # captured variable of the outer closure: find the capture operand
                            for st2 in (s for bl in ob.blocks for s in bl["st"]):
                                rv = st2.get("rv", {})
                                if rv.get("k") == "agg" and rv.get("closure") == ib.id:
                                    for o in rv["ops"]:
                                        r = origin(ob, o)
                                        if isinstance(r, str):
                                            key = r
    return (key, val)
