"""C18 The Raft log recovers a durable, gap-free prefix after a crash - durable-mark discipline (DESIGN 4/C18).
The IO task persists exactly the window (durable_index, max_index] and flush() short-circuits when
durable_index >= max_index, so durable_index must never exceed what is really on disk for the *current*
log.  Decides: (a) every in-memory tail truncation (BufferedRaftLog::remove_range whose range does not start
at the constant 0) is followed - in the same function, or in the IOTask::ReplaceRange arm it hands the
truncation to - by a write that can lower durable_index (store / fetch_min / swap / compare_exchange; not
fetch_max); (b) durable_index is raised only by advance_durable_and_notify <- advance_durable_after_write,
where the advance is reached only after LogStore::flush returned Ok unless is_write_durable() is true, and by
purge_logs_up_to / reset_internal (boundary / zero); (c) a LogStore::purge that truncates its live file to
length 0 must not rewrite the retained entries into that same file (a crash in between loses durable
entries).  Necessary conditions, not the whole behaviour (crash points are not enumerated)."""
from .common import *
from .helpers_r3 import *

EXPLANATION = __doc__
LOWERING = r"atomic::Atomic\w*::(store|fetch_min|swap|compare_exchange|compare_exchange_weak|fetch_update|fetch_sub)$"
RAISING = r"atomic::Atomic\w*::(store|fetch_max|fetch_add|swap|compare_exchange|compare_exchange_weak|fetch_update)$"
LS_TRAIT = "d_engine_core::storage::storage_engine::LogStore"


def durable_calls(F, body, rx):
    return field_receiver_calls(F, body, "BufferedRaftLog", "durable_index", rx)


def run(ctx):
    F = ctx.F
    # ---------------------------------------------------------------- C18-a truncation lowers the durable mark
    def lowers(k):
        b = F.bodies.get(k)
        if b is None or not self_type_of(F, F.root_of.get(k, k)).endswith("BufferedRaftLog"):
            return False
        return any(durable_calls(F, gb, LOWERING) for gb in F.group_bodies(k))
    hn = ctx.anchor(F.method, "BufferedRaftLog", "handle_non_write_cmd")
    handler_lowers = False
    if hn:
        mb = F.main_body(hn)
        conds = edge_conditions(mb)
        arms = [c for c in conds.values() if c.kind == "discr" and c.variants == {"ReplaceRange"}]
        ctx.floor("C18-a", len(arms), 1, "IOTask::ReplaceRange arm in handle_non_write_cmd")
        rr = calls_matching(mb, r"LogStore::replace_range$")
        ctx.floor("C18-a", len(rr), 1, "LogStore::replace_range call in the ReplaceRange arm")
        low = [bi for (bi, t) in durable_calls(F, mb, LOWERING)] + [bi for (bi, t) in mb.calls() if F.call_reaches(t, lowers, 3)]
        for c in arms:
            seen, _p = mb.reach_from(c.edge["dst"])
            handler_lowers = handler_lowers or any(x in seen for x in low)
    sites = []
    for (root, bid, bi, t) in F.callers_of(lambda k: name_matches(k, r"BufferedRaftLog::remove_range$")):
        b = F.bodies[bid]
        if b.crate != "d_engine_core" or not self_type_of(F, root).endswith("BufferedRaftLog"):
            continue
        s = XSlice(F, b).operand(t["args"][1])
        rng = [ct for (_bi, ct) in s.call_sites if re.search(r"RangeInclusive.*::new$", callee_key(ct) or "")]
        front = bool(rng) and all(const_operand(ct["args"][0]) == "0" for ct in rng)
        sites.append((root, b, bi, t, front))
    ctx.floor("C18-a", len(sites), 2, "BufferedRaftLog::remove_range call sites (front purge + tail truncation)")
    tails = [x for x in sites if not x[4]]
    ctx.floor("C18-a", len(tails), 1, "tail truncations (remove_range not starting at 0)")
    for (root, b, bi, t, _front) in tails:
        low = [x for (x, _t) in durable_calls(F, b, LOWERING)] + [x for (x, tt) in b.calls() if x != bi and F.call_reaches(tt, lowers, 3)]
        wit = must_pass(b, bi, [], low, treat_exit_as_goal=True)
        if wit and any(b.term(x)["k"] == "call" and "from_residual" in (callee_key(b.term(x)) or "") for x in wit):
            # error exits: look for a non-error witness
            ok_exits = [e for e in b.exits()]
            wit2 = None
            avoid = frozenset(low) | frozenset(x for x, tt in b.calls() if "from_residual" in (callee_key(tt) or ""))
            seen, parent = b.reach_from(bi, avoid_blocks=avoid - {bi})
            for e in ok_exits:
                if e in seen:
                    wit2 = b.path_to(parent, bi, e)
            wit = wit2
        hands_over = [abi for (abi, _si, _st) in agg_sites(b, "IOTask", "ReplaceRange") if abi in b.reach_from(bi)[0]]
        ok = wit is None or (bool(hands_over) and handler_lowers)
        ctx.check("C18-a", "%s#remove_range#lowers-durable_index" % fkey(root), ok,
                  "after the tail truncation durable_index is lowered (here or in the ReplaceRange handler)",
                  "a tail truncation lowers max_index but nothing can lower durable_index (only fetch_max / purge / reset write it; the IOTask::ReplaceRange arm does not either).  "
                  "History: follower holds 1..10 (term 1), all flushed: durable_index = 10.  AppendEntries(prev=(4,1), [5@2,6@2]) -> conflict at 5: remove_range(5..), max_index = 6, "
                  "ReplaceRange puts 5,6 on disk and is awaited; durable_index stays 10.  AppendEntries(prev=(6,2), [7@2,8@2,9@2]) -> appended in memory; the IO task's window "
                  "(durable_index, max_index] = (10, 9] is empty, so 7..9 are never written; flush() sees 10 >= 9 and returns Ok; the follower ACKs index 9.  Crash + restart: disk has "
                  "1..6 only - acknowledged (possibly committed) entries 7..9 are gone; when entry 11 arrives only 11 is persisted, leaving the gap 7..10 on disk",
                  loc(b, bi), wit and bpath(b, wit))

    # ---------------------------------------------------------------- C18-b durable mark advances only after a successful flush
    NOTIFY = r"BufferedRaftLog::advance_durable_and_notify$"
    raise_sites = []        # (root, body, block, terminator, kind)
    for bid, b in F.bodies.items():
        if b.crate != "d_engine_core":
            continue
        root = F.root_of[bid]
        for (bi, t) in durable_calls(F, b, RAISING):
            if len(t["args"]) > 1 and const_operand(t["args"][1]) == "0":
                continue            # store(0): reset
            raise_sites.append((root, b, bi, t, "direct"))
        for (bi, t) in calls_matching(b, NOTIFY):
            raise_sites.append((root, b, bi, t, "notify"))
    ctx.floor("C18-b", len(raise_sites), 3, "sites that can raise durable_index (fetch_max, purge store, call of advance_durable_and_notify)")
    n_gated = 0
    per = {}
    for (root, b, bi, t, kind) in raise_sites:
        k = "%s#%s" % (fkey(root), "advance_durable_and_notify" if kind == "notify" else core.name_variants(callee_key(t))[0].split("::")[-1])
        n = per.get(k, 0)
        per[k] = n + 1
        key = "%s[%d]#flush-gated" % (k, n)
        if kind == "direct" and name_matches(root, NOTIFY):
            ctx.ok("C18-b", key, "the monotonic advance primitive itself; its callers are checked", loc(b, bi))
            continue
        if kind == "direct":
            vs = XSlice(F, b).operand(t["args"][1])
            if vs.has_field("LogId", "index") and any(x[0] == "rparam" for x in vs.sources) and not vs.has_call(r"::(max_index|last_entry_id)$"):
                ctx.ok("C18-b", key, "purge boundary: the mark is moved to the cutoff of entries that are being deleted", loc(b, bi))
                continue
        conds = edge_conditions(b)
        fl = calls_matching(b, r"LogStore::flush(_async)?$")
        durable_true = frozenset(eid for eid, c in conds.items() if c.truth is True and cond_calls(F, c, r"LogStore::is_write_durable$"))
        seen, parent = b.reach_from(0, removed_edges=durable_true, avoid_blocks=frozenset(x for x, _ in fl))
        wit = bi in seen and bpath(b, b.path_to(parent, 0, bi))
        ok = bi not in seen and bool(fl)
        for (fb, ft) in fl:
            okc = frozenset(eid for eid, c in conds.items() if c.kind == "discr" and c.variants and c.variants <= {"Continue", "Ok"} and cond_calls(F, c, r"LogStore::flush(_async)?$"))
            seen2, parent2 = b.reach_from(fb, removed_edges=okc)
            if bi in seen2:
                ok = False
                wit = bpath(b, b.path_to(parent2, fb, bi))
        if ok:
            n_gated += 1
        ctx.check("C18-b", key, ok,
                  "unless is_write_durable() is true the advance is reached only through the Ok outcome of LogStore::flush",
                  "durable_index can be raised without a successful LogStore::flush although is_write_durable() is false: entries still in the OS page cache are reported durable, "
                  "followers ACK them (and flush() returns Ok) and a power loss drops acknowledged entries", loc(b, bi), wit)
    ctx.floor("C18-b", n_gated, 1, "flush-gated advance (positive control)")

    # ---------------------------------------------------------------- C18-c no in-place rewrite of the live log file
    n_purge = 0
    for im in F.impls:
        if im["crate"] != "d_engine_server":
            continue
        for it in im["items"]:
            if it.get("of") != LS_TRAIT + "::purge":
                continue
            n_purge += 1
            ty = strip_generics(im["self"]).split("::")[-1]
            bad = None
            for b in F.group_bodies(it["def"]):
                for (bi, t) in calls_matching(b, r"fs::File::set_len$"):
                    if const_operand(t["args"][1]) != "0":
                        continue
                    seen, parent = b.reach_from(bi)
                    ws = [x for (x, tt) in b.calls() if x in seen and x != bi and call_reaches_rx(F, tt, r"io::Write::write_all$", 3)]
                    rn = [x for (x, tt) in b.calls() if x in seen and call_reaches_rx(F, tt, r"fs::rename$", 3)]
                    if ws and not rn:
                        bad = (b, bi, bpath(b, b.path_to(parent, bi, ws[0])))
            pb = F.bodies[it["def"]]
            ctx.check("C18-c", "%s::purge#no-in-place-rewrite" % ty, bad is None,
                      "purge does not truncate the live file to 0 and rewrite it in place",
                      "%s::purge truncates the live log file to length 0 (set_len(0)) and then writes the retained entries back into the same file.  History: entries 1..10 durable, "
                      "snapshot at 6, purge(6): after set_len(0) and before the rewritten 7..10 are synced the process is killed (or power fails): on restart the file is empty or holds "
                      "a prefix of 7..10 - entries that had been reported durable (and are not covered by the snapshot) are lost.  A new file + fsync + rename, or front-trimming by "
                      "bookkeeping, has no such window" % ty, bad and loc(bad[0], bad[1]) or "%s:%s" % (pb.file, pb.line), bad and bad[2])
    ctx.floor("C18-c", n_purge, 2, "LogStore::purge impls in d_engine_server")


_run_before_io_window = run


def run(ctx):
    _run_before_io_window(ctx)
    io_window_rule(ctx, "C18-d")


# ---------------------------------------------------------------------------------------------- C18-e
_run_abc18 = run


def run(ctx):
    _run_abc18(ctx)
    file_offset_index_follows_file(ctx)


def file_offset_index_follows_file(ctx):
    """C18-e the File log store keeps `index_end_pos` (entry index -> byte offset of its end in log.data); `end_pos_before(i)`
    turns it into the length a truncation cuts the file to.  Every shrink of the file must take the offsets of the cut-off bytes
    out of that map in the same function: after `set_len(0)` the whole map is cleared (before the rewrite inserts new offsets),
    after `set_len(x)` the entries from the truncation index on are removed (remove_from_index / split_off / retain).  A stale
    offset makes a later truncation cut at a position of the OLD file layout: the replaced tail stays on disk and comes back at
    restart, or the file is cut mid-entry."""
    F = ctx.F
    n = 0
    CLEARS = r"BTreeMap(::<.*>)?::clear$|mem::take$|mem::replace$"
    PARTIAL = r"BTreeMap(::<.*>)?::(remove|split_off|retain|clear|pop_last|extract_if)$|mem::take$|mem::replace$"
    for bid, b in sorted(F.bodies.items()):
        if b.crate != "d_engine_server" or not re.search(r"adaptors/file/file_storage_engine\.rs$", b.file or "") or re.search(r"_test", b.file or ""):
            continue
        root = F.root_of[bid]
        for (bi, t) in calls_matching(b, r"fs::File::set_len$|File::set_len$"):
            n += 1
            ls = Slice(F, b).operand(t["args"][1])
            zero = ls.consts() == ["0"] and not any(x[0] in ("call", "field", "param", "binop") for x in ls.sources)
            rx = CLEARS if zero else PARTIAL
            fix = [x for (x, tt) in field_receiver_calls(F, b, "FileLogStoreInner", "index_end_pos", rx)]
            fix += [x for (x, tt) in b.calls() if F.call_reaches(tt, lambda k: strip_generics(k).endswith("FileLogStoreInner::remove_from_index"), 2)] if not zero else []
            errs = [x for x, tt in b.calls() if "from_residual" in (callee_key(tt) or "")]
            wit = must_pass(b, bi, [], fix + errs, treat_exit_as_goal=True)
            # ... and when the file is rewritten after a set_len(0), the clear comes before the first new offset is inserted
            ins = [x for (x, tt) in field_receiver_calls(F, b, "FileLogStoreInner", "index_end_pos", r"BTreeMap(::<.*>)?::insert$")]
            early_ins = None
            if zero and wit is None:
                early_ins = must_pass(b, bi, ins, fix + errs)
            ctx.check("C18-e", "%s#set_len(%s)#offset-index-follows" % (fkey(root), "0" if zero else "x"), wit is None and early_ins is None,
                      "the byte-offset index is %s in the same function" % ("cleared before the file is rewritten" if zero else "cut at the truncation index"),
                      "the file is shrunk (set_len) but index_end_pos keeps offsets of the bytes that were cut off%s: end_pos_before() of a later truncation returns a position of "
                      "the OLD file layout, so a conflict truncation right above the purge boundary does not remove the stale tail (it comes back at restart) or cuts mid-entry"
                      % (" (new offsets are inserted before the map is cleared)" if early_ins else ""), loc(b, bi), (wit or early_ins) and bpath(b, wit or early_ins))
    ctx.floor("C18-e", n, 3, "File::set_len calls in the File log store (reset, truncate, replace_range; purge too unless it writes a new file and renames)")
