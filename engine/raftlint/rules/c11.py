"""C11 Linearizable reads - leadership evidence at serve time (DESIGN 4/C11).
Decides: (a) every site that answers linearizable reads (call of execute_pending_reads) is guarded, in
its own function, by leadership evidence obtained for this serve (single_voter, lease valid, majority
matched) - or, when it serves the queue `pending_reads`, every insertion into that queue was itself
made under evidence; (b) the noop gate (reads are taken out of the batch and rejected while
noop_log_id is None, before any routing), read_index = max(commit_index, noop index), inline serve
only under last_applied >= read_index, queued reads keyed by read_index and released only for keys
<= the applied index; (c) drain_read_buffer empties the five read queues and runs before Raft.role is
replaced in every role-changing arm.  Necessary conditions, not the whole behaviour (the strength of
the majority-matched evidence itself is examined in C12-e)."""
from .helpers_r1 import *

EXPLANATION = __doc__

READ_QUEUES = ["linearizable_read_buffer", "lease_read_queue", "eventual_read_queue", "pending_reads", "pending_lease_reads"]
EMPTYING = r"(::take_all|::drain|mem::take|::clear|mem::replace|::split_off)$"


def none_edge(F, c, adt, field):
    """edge on which Option field (adt, field) is None"""
    if not cond_reads_field(F, c, adt, field):
        return False
    if c.kind == "discr":
        return c.variants == {"None"}
    if c.kind == "call":
        k = strip_generics(c.callee or "")
        return (k.endswith("Option::is_none") and c.truth is True) or (k.endswith("Option::is_some") and c.truth is False)
    return False


def emptying_blocks(F, body, field, depth):
    """blocks of `body` whose call empties LeaderState.<field>: take_all/drain/mem::take/clear on the field,
    or a call of a workspace function that does so on every path"""
    out = []
    for (bi, t) in body.calls():
        k = strip_generics(callee_key(t) or "")
        if re.search(EMPTYING, k) and t["args"] and Slice(F, body).operand(t["args"][0]).has_field("LeaderState", field):
            out.append(bi)
        elif depth > 0:
            for tg in F.resolve_targets(t):
                cb = F.main_body(tg)
                if cb.id == body.id or not self_type_of(F, tg).endswith("LeaderState"):
                    continue
                inner = emptying_blocks(F, cb, field, depth - 1)
                if inner and not must_pass(cb, 0, [], inner, treat_exit_as_goal=True):
                    out.append(bi)
    return out


def run(ctx):
    F = ctx.F
    D = ctx.depth
    epr = ctx.anchor(F.method, "LeaderState", "execute_pending_reads")
    if not epr:
        return
    ctx.floor("C11-a", len(calls_matching(F.main_body(epr), SM_READ)), 1, "state-machine read in execute_pending_reads")
    serve = [c for c in F.callers_of(lambda k: k == epr.id) if c[0] != epr.id and not is_test_body(F.bodies[c[1]])]
    ctx.floor("C11-a", len(serve), 1, "call sites of execute_pending_reads")
    # insertions into the wait queue
    ins = []
    for bid, b in F.bodies.items():
        if b.crate != "d_engine_core" or is_test_body(b) or not self_type_of(F, F.root_of[bid]).endswith("LeaderState"):
            continue
        for (bi, t) in field_receiver_calls(F, b, "LeaderState", "pending_reads", r"BTreeMap::(entry|insert)$"):
            ins.append((b, bi, t))
    ctx.floor("C11-a", len(ins), 1, "insertions into LeaderState.pending_reads")
    ctx.note("C11-a: %d insertion site(s) into pending_reads examined for leadership evidence" % len(ins))
    ins_ev = []
    for (b, bi, t) in ins:
        ok, wit, _ = guarded_by(b, bi, lambda c: evidence(F, c) is not None, edge_conditions(b))
        ins_ev.append((b, bi, ok, wit))
    all_ins_ok = bool(ins_ev) and all(x[2] for x in ins_ev)
    n_serve = 0
    for (root0, bid0, bi0, t) in serve:
        from_queue = Slice(F, F.bodies[bid0], through_calls=True).operand(t["args"][1]).has_field("LeaderState", "pending_reads")
        # the function in which the evidence for this serve is (or should be) established
        for (b, bi, ok, wit) in lift_to_guard(F, F.bodies[bid0], bi0, lambda c: evidence(F, c) is not None):
            root = F.root_of[b.id]
            n_serve += 1
            conds = edge_conditions(b)
            kinds = sorted(set(evidence(F, c) for c in conds.values() if evidence(F, c) and guarded_by(b, bi, lambda x: x is c, conds)[0]))
            if not from_queue and b.id != bid0:
                from_queue = any(Slice(F, b, through_calls=True).operand(a).has_field("LeaderState", "pending_reads") for a in b.term(bi)["args"])
            key = "%s#execute_pending_reads#%s" % (fkey(root), "queued" if from_queue else "inline")
            if ok:
                ctx.ok("C11-a", key, "guarded by %s" % (kinds or "a disjunction of single_voter / lease-valid / quorum"), loc(b, bi))
            elif from_queue and all_ins_ok:
                ctx.ok("C11-a", key, "serves the wait queue; every insertion into it is made under leadership evidence", loc(b, bi))
            else:
                unev = [loc(x[0], x[1]) for x in ins_ev if not x[2]]
                ctx.bad("C11-a", key,
                        "linearizable reads are answered with no leadership evidence in this function (no single_voter / is_lease_valid / majority-matched test on "
                        "the path)%s. History: leader L is cut off from the majority, its lease expires, a new leader commits and acknowledges write W; a client "
                        "then sends a linearizable read to L: lease invalid, so it is queued under L's old commit index; an apply that was still in flight on L "
                        "completes (last_index >= read_index) and this site answers from L's state machine, which lacks W"
                        % ("; the queue it serves is filled at %s on paths where the lease is invalid" % unev if from_queue else ""),
                        loc(b, bi), wit and bpath(b, wit))

    ctx.floor("C11-a", n_serve, 3, "serve sites of linearizable reads (inline, quorum ACK, apply completed) after lifting through helpers")
    # ---------------------------------------------------------------- C11-b noop gate / read index / apply gate
    ex = ctx.anchor(F.method, "LeaderState", "execute_and_process_raft_rpc")
    if ex:
        mb = F.main_body(ex)
        conds = edge_conditions(mb)
        # sites that consume the read batch in this function - directly, or inside a LeaderState helper it hands the
        # batch to (one level; the helper is treated as inlined: the gate is checked at the helper's call site, the
        # apply bound and the queue key inside the helper)
        # use = (site block in mb, what, batch locals in mb or None, body of the real site, its block, its terminator)
        uses = [(bi, "serve", Slice(F, mb).operand(t["args"][1]).seen, mb, bi, t) for (bi, t) in calls_matching(mb, r"LeaderState::execute_pending_reads$")]
        uses += [(bi, "queue", None, mb, bi, t) for (b, bi, t) in ins if b.id == mb.id]
        for (hbi, ht) in mb.calls():
            for tg in F.resolve_targets(ht):
                if tg == epr.id or tg == ex.id or not self_type_of(F, tg).endswith("LeaderState") or tg not in F.bodies:
                    continue
                argl = set()
                for a_ in ht["args"][1:]:
                    argl |= Slice(F, mb).operand(a_).seen
                for hb in F.group_bodies(F.bodies[tg]):
                    for (xbi, xt) in calls_matching(hb, r"LeaderState::execute_pending_reads$"):
                        if not Slice(F, hb, through_calls=True).operand(xt["args"][1]).has_field("LeaderState", "pending_reads"):
                            uses.append((hbi, "serve", argl, hb, xbi, xt))
                    for (ib, ibi, it) in ins:
                        if ib.id == hb.id:
                            uses.append((hbi, "queue", argl, hb, ibi, it))
        ctx.floor("C11-b", len(uses), 2, "read-batch consumers in execute_and_process_raft_rpc (inline serve + queue), helpers included")
        gate_edges = [c for c in conds.values() if none_edge(F, c, "LeaderState", "noop_log_id")]
        ctx.floor("C11-b", len(gate_edges), 1, "`noop_log_id is None` test in execute_and_process_raft_rpc")
        takes = calls_matching(mb, r"Option::take$")
        for (bi, what, batch_locals, sb, sbi, t) in uses:
            if batch_locals is None:
                # the value extended into the queue entry: any argument of a VecDeque::extend / push after the entry call
                batch_locals = set()
                for (xb, xt) in calls_matching(mb, r"(::extend|::push_back|::push)$"):
                    if mb.dominates(bi, xb):
                        for a in xt["args"][1:]:
                            batch_locals |= Slice(F, mb).operand(a).seen
            tk = [x for (x, tt) in takes if Slice(F, mb).operand(tt["args"][0]).seen & batch_locals]
            ok = bool(gate_edges) and bool(tk)
            wit = None
            for c in gate_edges:
                if c.edge["dst"] in tk:
                    continue
                w = must_pass(mb, c.edge["dst"], [bi], tk)
                if w:
                    ok, wit = False, w
            ctx.check("C11-b", "%s#noop-gate#%s" % (fkey(ex), what), ok,
                      "on the `noop not committed` edge the read batch is taken (and rejected) before it can be %sd" % what,
                      "while noop_log_id is None the read batch can still reach the %s site: read_index would fall back to a previous term's commit index "
                      "with no quorum check in this term" % what, loc(mb, bi), wit and bpath(mb, wit))
        # every taken batch on the gate edge is answered with an error (not dropped silently)
        for (bi, what, _bl, sb, sbi, t) in uses:
            if what != "serve":
                continue
            ri = lambda s: s.has_call(r"LeaderState::calculate_read_index$")
            la = lambda s: s.has_call(r"StateMachine::last_applied$") and not s.has_call(r"LeaderState::calculate_read_index$")
            ok, wit, _ = guarded_by(sb, sbi, lambda c: cmp_rel(F, c, la, ri) in (">=", ">", "=="), edge_conditions(sb))
            ctx.check("C11-b", "%s#inline-serve#applied>=read_index" % fkey(ex), ok, "inline serve only when last_applied >= read_index",
                      "reads are served inline without last_applied >= read_index: the state machine may not contain a write acknowledged before the read",
                      loc(sb, sbi), wit and bpath(sb, wit))
        for (bi, what, _bl, sb, sbi, t) in uses:
            if what == "queue":
                s = Slice(F, sb).operand(t["args"][1])
                ctx.check("C11-b", "%s#queue-key=read_index" % fkey(ex), s.has_call(r"LeaderState::calculate_read_index$"),
                          "queued reads are keyed by calculate_read_index()", "pending_reads key does not derive from calculate_read_index()", loc(sb, sbi))
    cri = ctx.anchor(F.method, "LeaderState", "calculate_read_index")
    if cri:
        rets = [Slice(F, cri).operand({"p": {"l": 0}})]
        s = rets[0]
        ok = s.has_call(r"cmp::(Ord::)?max$") and s.has_call(r"::commit_index$") and s.has_field("LeaderState", "noop_log_id") and \
            not any(x[0] == "binop" and x[1] in ("Sub", "SubWithOverflow") for x in s.sources)
        ctx.check("C11-b", "LeaderState::calculate_read_index#max(commit,noop)", ok, "read_index = max(commit_index(), noop_log_id)",
                  "calculate_read_index is not max(commit_index(), noop index): %s" % sorted(x for x in s.sources if x[0] in ("call", "field", "binop"))[:8],
                  "%s:%s" % (cri.file, cri.line))
    # queue release: key bound by the applied index
    hac_fn = F.try_method("LeaderState", "handle_apply_completed")
    for (root, bid, bi, t) in serve:
        b = F.bodies[bid]
        s = Slice(F, b, through_calls=True).operand(t["args"][1])
        if not s.has_field("LeaderState", "pending_reads"):
            continue
        rng_calls = [(cbi, ct) for (cbi, ct) in s.call_sites if strip_generics(callee_key(ct) or "").endswith("BTreeMap::range") and len(ct["args"]) >= 2]
        if not rng_calls:
            ctx.bad("C11-b", "%s#queue-release<=applied" % fkey(root), "queued reads are released without a pending_reads.range(..=applied) bound", loc(b, bi))
            continue
        for (cbi, ct) in rng_calls:
            # the bound, followed through helper parameters to the function that knows the applied index
            for (ob, obi, bs) in lifted_arg_sources(F, b, ct["args"][1]):
                oroot = F.root_of[ob.id]
                rngs = sorted(strip_generics(x[1]).split("::")[-1] for x in bs.sources if x[0] == "agg" and "ops::range::Range" in x[1])
                bounded = bool(rngs) and all(r in ("RangeToInclusive", "RangeTo") for r in rngs)
                rb = F.bodies[oroot]
                applied = bs.has_call(r"StateMachine::last_applied$") or (hac_fn is not None and oroot == hac_fn.id and rb.argc >= 2 and bs.has_param(rb.local_name(2)))
                ctx.check("C11-b", "%s#queue-release<=applied" % fkey(oroot), bool(bounded and applied),
                          "released keys come from pending_reads.range(..=applied index)",
                          "queued reads are released with a key not bounded above by the applied index (ranges %s, applied-derived=%s): a read whose read_index "
                          "is not applied yet is served" % (rngs, applied), loc(ob, obi if obi is not None else cbi))

    # ---------------------------------------------------------------- C11-c step-down drains the read queues
    drb = ctx.anchor(F.method, "LeaderState", "drain_read_buffer")
    if drb:
        bodies = F.group_bodies(drb)
        n = 0
        mb = F.main_body(drb)
        conds = edge_conditions(mb)
        for f in READ_QUEUES:
            hit = emptying_blocks(F, mb, f, 2)
            n += 1 if hit else 0
            # every entry->return path passes an emptying call, except along `this queue is empty` edges
            removed = frozenset(eid for eid, c in conds.items() if c.kind == "call" and c.truth is True
                                and strip_generics(c.callee or "").endswith("::is_empty") and cond_reads_field(F, c, "LeaderState", f))
            seen, parent = mb.reach_from(0, removed_edges=removed, avoid_blocks=frozenset(hit))
            esc = [e for e in mb.exits() if e in seen]
            ctx.check("C11-c", "%s#empties:%s" % (fkey(drb), f), bool(hit) and not esc, "queue emptied on every path (up to its own emptiness test)",
                      "drain_read_buffer can return without emptying LeaderState.%s: reads queued there outlive the leadership and are answered later by a "
                      "non-leader or never" % f, "%s:%s" % (drb.file, drb.line), esc and bpath(mb, mb.path_to(parent, 0, esc[0])))
        ctx.floor("C11-c", n, 5, "read queues emptied by drain_read_buffer")
    hie = ctx.anchor(F.method, "Raft", "handle_internal_event")
    if hie:
        mb = F.main_body(hie)
        n = 0
        for (bi, si, st) in assigns_field(mb, "raft::Raft", "role"):
            s = rhs_slice(F, mb, si, st)
            via = sorted(strip_generics(x[1]).split("::")[-1] for x in s.sources if x[0] == "call" and re.search(r"RaftRole::become_\w+$", strip_generics(x[1])))
            if not via or via == ["become_leader"]:
                continue
            n += 1
            dom = dominated_by_call(F, mb, bi, lambda k: k == drb.id if drb else False, D)
            ctx.check("C11-c", "%s#%s#drain-first" % (fkey(hie), "+".join(via)), bool(dom),
                      "drain_read_buffer runs before the role object is replaced", "role replaced via %s without draining the leader's read queues first" % via, loc(mb, bi))
        ctx.floor("C11-c", n, 3, "role-changing arms (follower/candidate/learner) in handle_internal_event")
