"""C36 Merging queued AppendEntries does not change the outcome - merge guard table (DESIGN 4/C36).
Decides for `Raft::merge_append_entries` (first = the request popped first, req = a later queued one):
(a) entries / senders of `req` are appended to the merged request, and `first.leader_commit_index` is
    written, only under `req.term == first.term` and `req.prev_log_index == running_prev`;
(b) `running_prev` is `first.prev_log_index + first.entries.len()` plus `req.entries.len()` of every merged
    request and nothing else, and that length is read before `append` drains `req.entries`;
(c) the merged commit index is `max(first.leader_commit_index, req.leader_commit_index)` and is written
    whenever entries are merged;  (d) senders are appended iff entries are appended (every merged caller is
    answered);  (e) every popped event that is not merged is pushed back to the FRONT of the queue, built
    only from the popped event; the merged request is pushed to the front last, on every path;
(f) `handle_append_entries_request_workflow` answers every sender it was given on every non-error return.
Necessary conditions of 'merged outcome == sequential outcome', not the whole behaviour: the merged senders
all receive the final match index by design, and the size cap `max_merge_entries` is only recorded (exceeding
it does not change the outcome)."""
from .common import *

EXPLANATION = __doc__
REQ = "AppendEntriesRequest"


def run(ctx):
    F = ctx.F
    f = ctx.anchor(F.method, "Raft", "merge_append_entries")
    if f:
        merge_rules(ctx, F, f, F.main_body(f))
    fanout_rule(ctx, F)


def merge_rules(ctx, F, f, b):
    fk = fkey(f)
    conds = edge_conditions(b)
    q = lambda rx: field_receiver_calls(F, b, "raft::Raft", "buffered_inbound_event", rx)
    pops = q(r"VecDeque::pop_front$")
    ctx.floor("C36-e", len(pops), 2, "pop_front on Raft.buffered_inbound_event in merge_append_entries")
    firsts = [x for x, _ in pops if all(b.dominates(x, y) for y, _ in pops)]
    if len(pops) < 2 or len(firsts) != 1:
        ctx.bad("C36-e", "%s#pops" % fk, "cannot tell the first pop from the loop pop (%d pops)" % len(pops))
        return
    first = firsts[0]
    loops = [x for x, _ in pops if x != first]

    def sites(s):
        return set(x for x, _ in s.call_sites)

    def is_first(s):
        return first in sites(s)

    def is_req(s):
        return bool(sites(s) & set(loops)) and first not in sites(s)

    def sl(o):
        return Slice(F, b).operand(o)

    def eq_guard(field, running):
        def pred(c):
            def X(s):
                return is_first(s) and s.has_field(REQ, field) and (("binop", "AddWithOverflow") in s.sources or ("binop", "Add") in s.sources) == running

            def Y(s):
                return is_req(s) and s.has_field(REQ, field) and not any(x[0] in ("binop", "const") for x in s.sources)
            return cmp_rel(F, c, X, Y) == "=="
        return pred
    g_term, g_prev = eq_guard("term", False), eq_guard("prev_log_index", True)

    appends = calls_matching(b, r"Vec::append$")
    a_ent = [(x, t) for x, t in appends if is_req(sl(t["args"][1])) and sl(t["args"][1]).has_field(REQ, "entries")]
    a_snd = [(x, t) for x, t in appends if is_req(sl(t["args"][1])) and sl(t["args"][1]).has_field("InboundEvent", "1")]
    ctx.floor("C36-a", len(a_ent), 1, "append of req.entries to the merged entries")
    ctx.floor("C36-d", len(a_snd), 1, "append of req's senders to the merged senders")
    lci = writes_to_field(b, REQ, "leader_commit_index")
    ctx.floor("C36-c", len(lci), 1, "write of first.leader_commit_index")

    # ---------------------------------------------------------------- C36-a guards of every merge effect
    effects = [("append-entries", x) for x, _ in a_ent] + [("append-senders", x) for x, _ in a_snd] + [("write-leader_commit_index", w[0]) for w in lci]
    for what, x in effects:
        for gname, g, hist in (("same-term", g_term, "queue [AE(term=5,prev=10,[11]), AE(term=6,prev=11,[12])]: merged, the follower handles both under term 5, "
                                "never adopts term 6 and answers the term-6 leader with a term-5 result; one at a time it would step to term 6"),
                               ("contiguous", g_prev, "queue [AE(prev=10,[11,12]), AE(prev=10,[11,12,13])] (retry): merged entries 11,12,11,12,13 are written at "
                                "indexes 11..15; one at a time the log ends 11,12,13")):
            ok, wit, _ = guarded_by(b, x, g, conds)
            ctx.check("C36-a", "%s#%s#%s" % (fk, what, gname), ok, "only under %s" % gname,
                      "%s is reachable without the `%s` test between the queued request and the first one. %s" % (what, gname, hist), loc(b, x), wit and bpath(b, wit))

    # ---------------------------------------------------------------- C36-b running_prev
    prev_edges = [c for c in conds.values() if g_prev(c)]
    ctx.floor("C36-b", len(prev_edges), 1, "comparison running_prev == req.prev_log_index")
    for c in prev_edges:
        sa, sb = sl(c.a), sl(c.b)
        run_s = sa if ("binop", "AddWithOverflow") in sa.sources or ("binop", "Add") in sa.sources else sb
        lens = [(x, t) for (x, t) in run_s.call_sites if re.search(r"Vec::len$", strip_generics(callee_key(t)))]
        len_first = [x for x, t in lens if is_first(sl(t["args"][0])) and sl(t["args"][0]).has_field(REQ, "entries")]
        len_req = [x for x, t in lens if is_req(sl(t["args"][0])) and sl(t["args"][0]).has_field(REQ, "entries")]
        extra = [y for y in run_s.sources if y[0] == "const" or (y[0] == "binop" and y[1] not in ("Add", "AddWithOverflow"))
                 or (y[0] == "field" and ends(y[1], REQ) and y[2] not in ("prev_log_index", "entries", "leader_commit_index"))]
        ctx.check("C36-b", "%s#running_prev" % fk, bool(len_first) and bool(len_req) and not extra,
                  "running_prev = first.prev_log_index + first.entries.len() + sum(req.entries.len())",
                  "running_prev is not first.prev_log_index + first.entries.len() + merged req.entries.len() (first len=%s, req len=%s, other terms=%s): "
                  "queue [AE(prev=10,[11]), AE(prev=11,[12]), AE(prev=11,[12])]: the retry of the second request is merged again and 12 is written twice"
                  % (bool(len_first), bool(len_req), extra), loc(b, c.edge["src"]))
        for x in len_req:
            bad = [a for a, _ in a_ent if must_pass(b, a, [x], loops) is not None]
            ctx.check("C36-b", "%s#len-before-append" % fk, not bad, "req.entries.len() is read before append drains req.entries",
                      "req.entries.len() can be read after `append(&mut req.entries)` emptied it: running_prev does not advance and the next "
                      "contiguous request is left unmerged while a retry of this one is merged twice", loc(b, x))

    # ---------------------------------------------------------------- C36-c commit index = max
    for (wb, si, st) in lci:
        MAX = r"cmp::(Ord::)?max$"
        if si == "term":  # the call result is stored straight into the field
            s = None
            mx = [(wb, st)] if re.search(MAX, strip_generics(callee_key(st) or "")) else []
        else:
            s = Slice(F, b)
            s.rvalue(st["rv"])
            mx = [(x, t) for (x, t) in s.call_sites if re.search(MAX, strip_generics(callee_key(t)))]
        ok = False
        if True:
            for (x, t) in mx:
                sa, sb = sl(t["args"][0]), sl(t["args"][1])
                pair = (is_first(sa) and is_req(sb)) or (is_first(sb) and is_req(sa))
                ok = ok or (pair and sa.has_field(REQ, "leader_commit_index") and sb.has_field(REQ, "leader_commit_index") and not sb.consts() and not sa.consts())
            if not mx and s is not None:  # guarded form: first.lci = req.lci under req.lci > first.lci
                def gt(c):
                    return cmp_rel(F, c, lambda z: is_req(z) and z.has_field(REQ, "leader_commit_index"),
                                   lambda z: is_first(z) and z.has_field(REQ, "leader_commit_index")) in (">", ">=")
                ok = is_req(s) and s.has_field(REQ, "leader_commit_index") and guarded_by(b, wb, gt, conds)[0]
            why = "max calls=%d" % len(mx)
        ctx.check("C36-c", "%s#leader_commit_index=max" % fk, ok, "first.leader_commit_index = max(first, req)",
                  "merged leader_commit_index is not max(first.leader_commit_index, req.leader_commit_index) (%s): queue [AE(commit=7,[8]), "
                  "AE(commit=9,[9])]: one at a time the follower commits 9, merged it stops at another index" % why, loc(b, wb))
    for (x, _t) in a_ent:
        ok = any(together(b, w[0], x, loops) for w in lci)
        ctx.check("C36-c", "%s#commit-updated-when-merged" % fk, ok, "every merge of entries also folds in req.leader_commit_index",
                  "entries of a queued request can be merged without folding in its leader_commit_index: [AE(commit=7,[8]), AE(commit=9,[9])] commits "
                  "only 7 where sequential processing commits 9", loc(b, x))
    # (added after seeded mutant C36-s1) ... and only then: a request that is pushed back un-merged must not leak its commit index
    for w in lci:
        ok = any(together(b, x, w[0], loops) for (x, _t) in a_ent)
        ctx.check("C36-c", "%s#commit-only-when-merged" % fk, ok, "req.leader_commit_index is folded in only when req's entries are merged too",
                  "the commit index of a queued request is folded into the front request on a path that does NOT merge its entries (e.g. before the "
                  "max_merge_entries check pushes it back): the follower handles AE1 with AE2's commit index and can commit a stale tail beyond AE1 that "
                  "AE2 was going to truncate", loc(b, w[0]))
    # ---------------------------------------------------------------- C36-d senders iff entries
    for (x, _t) in a_ent:
        ctx.check("C36-d", "%s#senders-with-entries" % fk, any(together(b, y, x, loops) for y, _ in a_snd), "senders appended whenever entries are",
                  "entries of a queued request can be merged without its reply senders: that leader RPC is never answered", loc(b, x))
    for (y, _t) in a_snd:
        ctx.check("C36-d", "%s#entries-with-senders" % fk, any(together(b, x, y, loops) for x, _ in a_ent), "entries appended whenever senders are",
                  "senders of a queued request can be merged without its entries: the caller is told its entries matched although they were dropped", loc(b, y))

    # ---------------------------------------------------------------- C36-e push back
    pushes = q(r"VecDeque::push_(front|back)$") + q(r"VecDeque::(insert|extend|append)$")
    ctx.floor("C36-e", len(pushes), 4, "pushes into buffered_inbound_event in merge_append_entries")
    fronts = []
    for (x, t) in pushes:
        k = strip_generics(callee_key(t)).split("::")[-1]
        ctx.check("C36-e", "%s#%s#front" % (fk, push_desc(F, b, t, first, loops)), k == "push_front", "pushed to the front",
                  "an event taken from the head of the queue is put back with `%s`: it is reordered behind later events (e.g. a vote request queued "
                  "after it is now handled first)" % k, loc(b, x))
        fronts.append((x, t, sl(t["args"][1])))
    back_req = [x for (x, t, s) in fronts if is_req(s) and not s.consts()]
    back_first = [x for (x, t, s) in fronts if is_first(s)]
    merged_push = [x for (x, t, s) in fronts if is_first(s) and any(y[0] == "agg" and ends(y[1], "InboundEvent") and y[2] == "AppendEntries" for y in s.sources)]
    ctx.floor("C36-e", len(back_req), 2, "push back of an unmerged queued event")
    ctx.floor("C36-e", len(merged_push), 1, "push of the merged AppendEntries")
    for lp in loops:
        some = [c.edge["dst"] for c in conds.values() if c.kind == "discr" and c.variants == {"Some"} and c.edge["src"] in after_call(b, lp)]
        ctx.floor("C36-e", len(some), 1, "Some arm of the loop pop")
        for st in some:
            wit = must_pass(b, st, [lp], [x for x, _ in a_ent] + back_req, treat_exit_as_goal=True)
            ctx.check("C36-e", "%s#unmerged-pushed-back" % fk, wit is None, "a popped event is merged or pushed back",
                      "a queued event can be popped and neither merged nor pushed back: it is lost (e.g. [AE, VoteRequest]: the vote request is never handled)",
                      loc(b, lp), wit and bpath(b, wit))
    some = [c.edge["dst"] for c in conds.values() if c.kind == "discr" and c.variants == {"Some"} and c.edge["src"] in after_call(b, first)]
    for st in some:
        wit = must_pass(b, st, [], back_first, treat_exit_as_goal=True)
        ctx.check("C36-e", "%s#first-pushed-back" % fk, wit is None, "the first event (merged or not) always returns to the queue",
                  "the first popped event can be dropped without being pushed back", loc(b, first), wit and bpath(b, wit))
    for x in merged_push:
        later = must_pass(b, x, [y for (y, _t, _s) in fronts if y != x], [])
        ctx.check("C36-e", "%s#merged-pushed-last" % fk, later is None, "the merged request is the last push (it ends at the head of the queue)",
                  "another event is pushed to the front after the merged request: the merged AppendEntries is no longer handled first", loc(b, x))
    cap = [c for c in conds.values() if c.kind == "cmp" and (sl(c.a).has_field("BatchingConfig", "max_merge_entries") or sl(c.b).has_field("BatchingConfig", "max_merge_entries"))]
    ctx.note("size cap: %d branch edge(s) compare against BatchingConfig.max_merge_entries (recorded only: exceeding the cap does not change the outcome)" % len(cap))


def ends(adt, suffix):
    a = strip_generics(adt)
    return a == suffix or a.endswith("::" + suffix)


def together(b, x, y, loop_heads):
    """x happens whenever y does within one loop iteration: x dominates y, or every path from y to the next
    iteration / function exit passes x"""
    return b.dominates(x, y) or must_pass(b, y, loop_heads, [x], treat_exit_as_goal=True) is None


def after_call(b, bi):
    """blocks from a call up to the first switch that follows it (where its result is tested)"""
    out, x = set(), bi
    for _ in range(8):
        out.add(x)
        if b.term(x)["k"] == "switch" or len(b.succ(x)) != 1:
            break
        x = b.succ(x)[0]
    out.add(x)
    return out


def push_desc(F, b, t, first, loops):
    s = Slice(F, b).operand(t["args"][1])
    st = set(x for x, _ in s.call_sites)
    return "push(%s%s)" % ("first" if first in st else "queued", "-merged" if any(y[0] == "agg" for y in s.sources) and first in st else "")


def fanout_rule(ctx, F):
    # ---------------------------------------------------------------- C36-f every sender is answered
    wf = [x for x in F.find(r"RaftRoleState::handle_append_entries_request_workflow$") if x.parent is None]
    ctx.floor("C36-f", len(wf), 1, "RaftRoleState::handle_append_entries_request_workflow")
    for f in wf:
        b = F.main_body(f)
        names = dict((F.bodies[f.id].local_name(i), i) for i in range(1, F.bodies[f.id].argc + 1))

        def from_senders(s):
            # parameter #3 of the workflow (self, request, senders, ..): position, the name is only the closure link
            return any((x[0] == "param" and x[1] == 3) or (x[0] == "upvar" and names.get(x[1]) == 3) for x in s.sources)
        loops = [(x, t) for x, t in calls_matching(b, r"IntoIterator::into_iter$") if from_senders(Slice(F, b).operand(t["args"][0]))]
        sends = [x for x, t in calls_matching(b, r"MaybeCloneOneshotSender::send$|oneshot::Sender::send$")]
        good = [x for x, t in loops if any(b.dominates(x, y) and must_pass(b, x, [y], []) is not None for y in sends)]
        ctx.floor("C36-f", len(good), 3, "`for sender in senders { sender.send(..) }` loops in the workflow")
        errs = set(bi for (bi, si, st) in return_aggs(b) if st["rv"]["k"] == "agg" and st["rv"].get("v") == "Err")
        errs |= set(x for x, t in b.calls() if "from_residual" in (callee_key(t) or ""))
        # #[async_trait] prepends `if let Some(ret) = None::<Ret> { return ret }` (a type hint, never taken)
        dead = [tb for blk in b.blocks if blk["t"]["k"] == "switch" and "async_trait::async_trait" in (blk["t"].get("exp") or []) for (_v, tb) in blk["t"]["ts"]]
        wit = must_pass(b, 0, [], list(good) + list(errs) + dead, treat_exit_as_goal=True)
        ctx.check("C36-f", "%s#all-senders-answered" % fkey(f), wit is None, "every Ok return iterates over all senders and sends the response",
                  "the workflow can return Ok without replying to the senders it was given: the RPCs of all merged AppendEntries hang until timeout "
                  "where sequential processing answers each", loc(b, 0), wit and bpath(b, wit))
