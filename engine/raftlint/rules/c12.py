"""C12 Lease reads only under a valid leader lease - structural clauses (DESIGN 4/C12).
Decides: (a) a LeaderState can only be replaced by another role object after ReadLease::revoke
(conversion sites dominated by revoke; every write of Raft.role goes through RaftRole::become_*;
all step-down sites listed); (b) on a multi-voter path the deadline handed to ReadLease::renew is
derived from the acknowledged request (per-peer / per-response data), not from a clock read or a
scalar that every send overwrites; (c) every local state-machine read on a LeaseRead route is
dominated by lease-valid / single-voter evidence or by a renewal in the same function; (d) the
numeric form of ReadLease::is_valid{,_for_leader} (`deadline > now`, term equal) and of
revoke/renew; (e) every renewal is guarded by quorum / single-voter evidence, and the quorum
evidence is scoped to a heartbeat round or to time (not a sticky progress predicate).
Necessary conditions, not the whole behaviour (no clock-drift or scheduling argument is made)."""
from .helpers_r1 import *

EXPLANATION = __doc__
TECHNIQUE = "static analysis of rustc MIR facts: dominance/guard and value-provenance rules plus exact symbolic decision tables of loop-free guard functions (exhaustive over weak orderings)"

CLOCK = r"(read_lease::now_ms|Instant::now|Instant::elapsed|SystemTime::now)$"


def run(ctx):
    F = ctx.F
    D = ctx.depth

    def is_revoke(k):
        return ends(k, "ReadLease::revoke")

    # ---------------------------------------------------------------- C12-a revoke before the role object is replaced
    conv = role_conversion_sites(F)
    ctx.floor("C12-a", len(conv), 1, "conversion of &LeaderState into another role state")
    for (b, bi, t) in conv:
        dom = dominated_by_call(F, b, bi, is_revoke, D)
        ctx.check("C12-a", "%s#convert-leader-state" % fkey(F.root_of[b.id]), bool(dom),
                  "ReadLease::revoke dominates the construction of the successor role",
                  "a LeaderState is converted into another role without ReadLease::revoke on every path before it: "
                  "ReadActor/EmbeddedReadHandle check only `deadline > now`, so the ex-leader keeps serving lease reads "
                  "until the old deadline while a new leader accepts writes", loc(b, bi))
    # RaftRole aggregates built by LeaderState methods (any future become_* that returns Ok)
    n_role = 0
    for b in F.find(r"leader_state::LeaderState<T> as .*RaftRoleState>::become_\w+$"):
        for (bi, si, st) in agg_sites(b, "raft_role::RaftRole"):
            n_role += 1
            dom = dominated_by_call(F, b, bi, is_revoke, D)
            ctx.check("C12-a", "%s#RaftRole::%s" % (fkey(b), st["rv"]["v"]), bool(dom),
                      "successor role object built after revoke", "LeaderState builds a successor RaftRole without revoking the lease first", loc(b, bi))
    ctx.floor("C12-a", n_role, 1, "RaftRole aggregate in LeaderState::become_*")
    # chokepoint: Raft.role is only ever replaced by the result of RaftRole::become_*
    writes = all_assigns_field(F, "raft::Raft", "role")
    ctx.floor("C12-a", len(writes), 4, "assignments to Raft.role")
    n_bf = 0
    for (b, bi, si, st) in writes:
        s = rhs_slice(F, b, si, st)
        via = sorted(strip_generics(x[1]).split("::")[-1] for x in s.sources if x[0] == "call" and re.search(r"raft_role::RaftRole::become_\w+$", strip_generics(x[1])))
        ctx.check("C12-a", "%s#Raft.role=%s" % (fkey(F.root_of[b.id]), "+".join(via) or "other"), bool(via),
                  "role replaced by the result of RaftRole::%s" % via, "Raft.role is assigned a value that does not come from RaftRole::become_* "
                  "(the leader's become_follower chokepoint, which revokes the lease, is bypassed)", loc(b, bi))
        if "become_follower" in via:
            n_bf += 1
    ctx.floor("C12-a", n_bf, 1, "Raft.role = role.become_follower()")
    rr = ctx.anchor(F.method, "RaftRole", "become_follower")
    lbf = ctx.anchor(F.method, "LeaderState", "become_follower")
    choke = False
    if rr and lbf:
        choke = bool(F.fn_reaches(rr.id, lambda k: k == lbf.id, 3))
        ctx.check("C12-a", "RaftRole::become_follower#dispatch", choke, "dispatches to LeaderState::become_follower",
                  "RaftRole::become_follower does not reach LeaderState::become_follower")
    choke = choke and all(i["ok"] for i in ctx.instances if i["rule"] == "C12-a")
    # the step-down sites (listed so that a new one is seen; each is covered early or by the chokepoint)
    sites = []
    for bid, b in F.bodies.items():
        if not self_type_of(F, F.root_of[bid]).endswith("leader_state::LeaderState") or b.crate != "d_engine_core":
            continue
        for (bi, si, st) in agg_sites(b, "InternalEvent", "BecomeFollower"):
            if not fkey(F.root_of[bid]).endswith("send_become_follower_event"):
                sites.append((b, bi))
        for (bi, t) in calls_matching(b, r"LeaderState::send_become_follower_event$"):
            sites.append((b, bi))
    ctx.floor("C12-a", len(sites), 5, "step-down sites in LeaderState (7 today; sites that share a helper count once)")
    per = {}
    for (b, bi) in sites:
        early = bool(dominated_by_call(F, b, bi, is_revoke, D))
        k = "%s#step-down" % fkey(F.root_of[b.id])
        cur = per.get(k, (True, 0, 0, loc(b, bi)))
        per[k] = (cur[0] and (early or choke), cur[1] + 1, cur[2] + (1 if early else 0), cur[3])
    for k, (ok, n, ne, l) in sorted(per.items()):
        ctx.check("C12-a", k, ok, "%d site(s), %d revoke before sending BecomeFollower, rest covered by become_follower()" % (n, ne),
                  "step-down site neither revokes the lease nor is covered by a revoking become_follower chokepoint", l)
    if any(ne < n for (_ok, n, ne, _l) in per.values()):
        ctx.note("O12: %s revoke only at the become_follower chokepoint, not at the step-down decision" %
                 sorted(k for k, (_ok, n, ne, _l) in per.items() if ne < n))

    # ---------------------------------------------------------------- renew sites (lifted through helpers)
    renews = [c for c in F.callers_of(lambda k: ends(k, "ReadLease::renew")) if not is_test_body(F.bodies[c[1]])]
    ctx.floor("C12-b", len(renews), 1, "ReadLease::renew call sites")
    lifted = []   # (outer body, outer block, slice of the deadline)
    for (root, bid, bi, t) in renews:
        b = F.bodies[bid]
        for (ob, obi, s) in lifted_arg_sources(F, b, t["args"][2]):
            lifted.append((ob, obi if obi is not None else bi, s))
    ctx.floor("C12-b", len(lifted), 3, "renewal sites after lifting the deadline argument to its callers")
    har = ctx.anchor(F.method, "LeaderState", "handle_append_result")
    har_bodies = F.group_bodies(har) if har else []
    # (follower_id, result) = parameters 2 and 3 of handle_append_result (by position; upvars of the coroutine carry their names)
    ack_params = [har.local_name(l) for l in (2, 3)] if har and har.argc >= 3 else []
    ctx.floor("C12-b", len(ack_params), 2, "peer / response parameters of handle_append_result")

    def sends_append(root):
        return any(agg_sites(b, "ReplicationTask", "Append") for b in F.group_bodies(root))

    def ack_scoped(s):
        """deadline base depends on the acknowledged response: the follower_id / result parameters of
        handle_append_result, or a LeaderState collection that handle_append_result updates per peer"""
        if any(s.has_param(n) for n in ack_params):
            return "parameter"
        for x in s.sources:
            if x[0] == "field" and strip_generics(x[1]).endswith("LeaderState"):
                for hb in har_bodies:
                    for (cbi, ct) in field_receiver_calls(F, hb, "LeaderState", x[2], r"::(insert|entry|get_mut|push|push_back)$"):
                        if any(Slice(F, hb).operand(a).has_param(ack_params[0]) for a in ct["args"][1:]):
                            return "per-peer field %s" % x[2]
        return None
    seen_keys = {}
    guard_sites = []
    for (ob, obi, s) in lifted:
        # the function in which the leadership evidence for this renewal is (or should be) established
        for (gb, gbi, ok, wit) in lift_to_guard(F, ob, obi, lambda c: ev_single_voter(F, c) or ev_quorum(F, c)):
            guard_sites.append((gb, gbi, ok, wit, s))
    for (ob, obi, anyev, wit, s) in guard_sites:
        conds = edge_conditions(ob)
        sv, _w, _ = guarded_by(ob, obi, lambda c: ev_single_voter(F, c), conds)
        qc, _w, _ = guarded_by(ob, obi, lambda c: ev_quorum(F, c), conds)
        key = "%s#renew" % fkey(F.root_of[ob.id])
        n = seen_keys.get(key, 0)
        seen_keys[key] = n + 1
        if n:
            key += "[%s]" % ("single-voter" if sv else "quorum" if qc else "unguarded")
        # C12-e renew only with quorum / as the only voter
        ctx.check("C12-e", key, anyev, "renewal guarded by %s" % ("single_voter" if sv else "quorum_confirmed"),
                  "lease renewed on a path with neither single_voter nor a majority-matched test: a leader that lost its quorum extends its own lease",
                  loc(ob, obi), wit and bpath(ob, wit))
        # C12-b deadline provenance on multi-voter paths
        srcs = sorted("%s.%s" % (strip_generics(x[1]).split("::")[-1], x[2]) for x in s.sources if x[0] == "field" and "d_engine" in x[1] and "::config::" not in x[1]) + \
            sorted(strip_generics(x[1]).split("::")[-1] + "()" for x in s.sources if x[0] == "call" and re.search(CLOCK, strip_generics(x[1])))
        if sv:
            ctx.check("C12-b", key, s.has_call(CLOCK) or bool(ack_scoped(s)), "single-voter renewal anchored at a clock read (self is the quorum)",
                      "single-voter renewal deadline does not derive from a clock read: %s" % srcs, loc(ob, obi))
        else:
            how = ack_scoped(s)
            writers = sorted(set(fkey(r) for x in s.sources if x[0] == "field" and strip_generics(x[1]).endswith("LeaderState")
                                 for (r, _b, _bi) in field_mutation_sites(F, "LeaderState", x[2])))
            ctx.check("C12-b", key, bool(how), "deadline base is tied to the acknowledged request (%s)" % how,
                      "multi-voter lease deadline = %s + lease_duration: none of these identifies the request being acknowledged "
                      "(field written by %s on every send). History: partition at p; heartbeats sent at p+100, p+200 get no answer; an ACK of a "
                      "pre-partition AppendEntries arrives late; the lease is renewed to (p+200)+L although no follower has heard from this leader "
                      "since before p, so a new leader can be elected from p+E_min while lease reads are still served until p+200+L" % (srcs, writers),
                      loc(ob, obi))
            # C12-e freshness of the quorum evidence
            if qc:
                fresh = None
                fields = []
                for eid, c in conds.items():
                    if not ev_quorum(F, c):
                        continue
                    cs = cond_slice(F, c, through_calls=True)
                    if cs.has_call(CLOCK):
                        fresh = "clock"
                    for x in cs.sources:
                        if x[0] == "field" and strip_generics(x[1]).endswith("LeaderState"):
                            ws = set(r for (r, _b, _bi) in field_mutation_sites(F, "LeaderState", x[2]))
                            if any(sends_append(w) for w in ws):
                                fresh = "field %s is reset on the send path" % x[2]
                    fields = sorted(set(fields) | set(x[2] for x in cs.sources if x[0] == "field" and strip_generics(x[1]).endswith("LeaderState")))
                ctx.check("C12-e", key + "#quorum-evidence-is-per-round", bool(fresh), "quorum evidence is round/time scoped (%s)" % fresh,
                          "the predicate guarding the renewal (calculate_majority_matched_index(..).is_some()) reads only LeaderState.%s, none of which is reset "
                          "when a heartbeat round is sent and no clock: once a majority has matched commit_index it stays true, so the ACK of ONE follower "
                          "renews the lease. History (5 voters L,A,B,C,D, all matched at commit): partition {L,A}|{B,C,D}; A keeps acknowledging L's heartbeats; "
                          "every ACK finds the median match index >= commit_index and renews; B,C,D elect a leader and accept writes; L serves stale lease "
                          "(and Path-A linearizable) reads for as long as the partition lasts" % fields, loc(ob, obi))
    # update_lease_timestamp-like helpers: the deadline handed to renew must be base + duration of its own parameters (no widening constant)
    for (root, bid, bi, t) in renews:
        b = F.bodies[bid]
        s = Slice(F, b).operand(t["args"][2])
        big = [c for c in s.consts() if c.isdigit() and int(c) > 1]
        ctx.check("C12-b", "%s#renew-deadline-no-constant" % fkey(root), not big, "deadline has no literal widening term",
                  "deadline passed to renew contains literal constants %s" % big, loc(b, bi))
        st = Slice(F, b).operand(t["args"][1])
        ctx.check("C12-b", "%s#renew-term" % fkey(root), st.has_call(r"::current_term$"), "lease is tagged with current_term()",
                  "term passed to renew does not derive from current_term()", loc(b, bi))

    # ---------------------------------------------------------------- C12-c serve guards on LeaseRead routes
    routes = [("serve_read", ctx.anchor(F.fn, "d_engine_server::read_actor::serve_read")),
              ("get_batch", ctx.anchor(F.method, "EmbeddedReadHandle", "get_batch")),
              ("process_lease_read", ctx.anchor(F.method, "LeaderState", "process_lease_read"))]
    n_c = 0
    for (nm, fn) in routes:
        if not fn:
            continue
        mb = F.main_body(fn)
        conds = edge_conditions(mb)
        for n, (bi, t) in enumerate(calls_matching(mb, SM_READ)):
            n_c += 1

            def covered(c):
                arm = policy_arm(c)
                if arm is not None and arm and "LeaseRead" not in arm:
                    return True     # a non-lease policy arm: not a lease read
                return ev_lease(F, c) or ev_single_voter(F, c)
            ok, wit, _ = guarded_by(mb, bi, covered, conds)
            lease_only, _w, _ = guarded_by(mb, bi, lambda c: ev_lease(F, c), conds)
            sv_only, _w, _ = guarded_by(mb, bi, lambda c: ev_single_voter(F, c), conds)
            tag = "lease-valid" if lease_only else ("single-voter" if sv_only else "lease-valid-or-other-policy")
            ctx.check("C12-c", "%s#sm-read#%s" % (fkey(fn), tag if ok else "unguarded"), ok,
                      "local read on the lease route is under %s" % tag,
                      "a LeaseRead can reach the local state machine without a true lease check (or single-voter evidence): served by a node that is no longer leader",
                      loc(mb, bi), wit and bpath(mb, wit))
    ctx.floor("C12-c", n_c, 5, "state-machine reads in serve_read / EmbeddedReadHandle::get_batch / process_lease_read")
    dpl = ctx.anchor(F.method, "LeaderState", "drain_pending_lease_reads")
    if dpl:
        ctx.floor("C12-c", len(calls_matching(F.main_body(dpl), SM_READ)), 1, "state-machine read in drain_pending_lease_reads")
        callers = [c for c in F.callers_of(lambda k: k == dpl.id) if c[0] != dpl.id]
        ctx.floor("C12-c", len(callers), 2, "callers of drain_pending_lease_reads")
        for (root, bid, bi, t) in callers:
            b = F.bodies[bid]
            dom = dominated_by_call(F, b, bi, lambda k: ends(k, "ReadLease::renew"), D)
            okl, _w, _ = guarded_by(b, bi, lambda c: ev_lease(F, c), edge_conditions(b))
            ctx.check("C12-c", "%s#drain_pending_lease_reads" % fkey(root), bool(dom) or okl,
                      "queued lease reads are served only after a renewal in the same step (renewal guard: C12-e)",
                      "queued lease reads are served without a lease renewal or validity check in the same function", loc(b, bi))

    # ---------------------------------------------------------------- C12-d numeric guard tables
    def packed(s):
        return s.has_field("ReadLease", "packed") or s.has_call(r"Atomic.*::load$")
    for nm, need_term in (("is_valid", False), ("is_valid_for_leader", True)):
        fn = ctx.anchor(F.method, "ReadLease", nm)
        if not fn:
            continue
        conds = edge_conditions(fn)
        rets = return_aggs(fn)
        nontrivial = [(bi, si, st) for (bi, si, st) in rets if not (st["rv"]["k"] == "use" and const_operand(st["rv"]["a"]) in ("false", "0"))]
        ctx.floor("C12-d", len(nontrivial), 1, "non-false result of ReadLease::%s" % nm)
        for (bi, si, st) in nontrivial:
            rv = st["rv"]
            rel = None
            if rv["k"] == "bin" and rv["op"] in SYM:
                sa, sb = Slice(F, fn, through_calls=True).operand(rv["a"]), Slice(F, fn, through_calls=True).operand(rv["b"])
                if packed(sa) and sb.has_param("now_ms") and not packed(sb):
                    rel = SYM[rv["op"]]
                elif packed(sb) and sa.has_param("now_ms") and not packed(sa):
                    rel = FLIP[SYM[rv["op"]]]
            ctx.check("C12-d", "ReadLease::%s#deadline>now" % nm, rel == ">", "result is `stored deadline > now_ms` (strict)",
                      "ReadLease::%s does not return `deadline > now_ms` (found relation %r): a lease is reported valid at or after its deadline" % (nm, rel), loc(fn, bi))
            if need_term:
                ok, wit, _ = guarded_by(fn, bi, lambda c: cmp_rel_tc(F, c, lambda s: packed(s), lambda s: s.has_param("current_term") and not packed(s)) == "==", conds)
                ctx.check("C12-d", "ReadLease::is_valid_for_leader#term-equal", ok, "true only when the stored term equals current_term",
                          "is_valid_for_leader can return true without the stored term being equal to current_term", loc(fn, bi), wit and bpath(fn, wit))
    rv_ = ctx.anchor(F.method, "ReadLease", "revoke")
    if rv_:
        st = calls_matching(rv_, r"Atomic.*::store$")
        ctx.floor("C12-d", len(st), 1, "atomic store in ReadLease::revoke")
        for (bi, t) in st:
            ctx.check("C12-d", "ReadLease::revoke#store-0", const_operand(t["args"][1]) == "0", "revoke stores 0 (deadline 0 < any now)",
                      "revoke does not store the constant 0", loc(rv_, bi))
    rn = ctx.anchor(F.method, "ReadLease", "renew")
    if rn:
        st = calls_matching(rn, r"Atomic.*::store$")
        ctx.floor("C12-d", len(st), 1, "atomic store in ReadLease::renew")
        for (bi, t) in st:
            s = Slice(F, rn, through_calls=True).operand(t["args"][1])
            ctx.check("C12-d", "ReadLease::renew#stores-args", s.has_param("deadline_ms") and s.has_param("term") and s.has_call(r"ReadLease::pack$"),
                      "renew stores pack(term, deadline_ms)", "renew does not store pack(term, deadline_ms) of its own arguments", loc(rn, bi))
    _lease_tables(ctx)


MASK48 = str((1 << 48) - 1)


def _lease_tables(ctx):
    """C12-d exact: decision tables of is_valid / is_valid_for_leader compared with the specification on all orderings
    of (stored deadline, now) and (stored term, current term); bit layout of pack / unpack"""
    F = ctx.F

    def loaded(e):
        return mentions(e, lambda x: x[0] == "call" and re.search(r"atomic::Atomic\w*::load$", strip_generics(x[1])) is not None) and not mentions(e, lambda x: x[0] == "param" and x[1] >= 2)
    for nm, now_idx, term_idx in (("is_valid", 2, None), ("is_valid_for_leader", 3, 2)):
        f = F.try_method("ReadLease", nm)
        if not f:
            continue
        paths = table_of(ctx, "C12-d", f, "ReadLease::" + nm)
        if not paths:
            continue
        cmps = []

        def walk(e):
            if isinstance(e, tuple):
                if e and e[0] == "bin" and e[1] in ("Lt", "Le", "Gt", "Ge", "Eq", "Ne"):
                    cmps.append(e)
                for x in e:
                    walk(x)
        for p in paths:
            walk(p.ret)
            for (c, _t) in p.conds:
                walk(c)
        cmps = list(dict.fromkeys(cmps))
        now = ("param", now_idx, f.local_name(now_idx))
        dead = [x for c in cmps for x in (c[2], c[3]) if loaded(x) and (c[2] == now or c[3] == now)]
        terms = [x for c in cmps for x in (c[2], c[3]) if loaded(x) and term_idx and (mentions(c[2], par(term_idx)) or mentions(c[3], par(term_idx)))]
        curs = [x for c in cmps for x in (c[2], c[3]) if term_idx and mentions(x, par(term_idx)) and not loaded(x)]
        key = "ReadLease::%s#table" % nm
        if len(set(dead)) != 1 or (term_idx and (len(set(terms)) != 1 or len(set(curs)) != 1)) or len(cmps) != (2 if term_idx else 1):
            ctx.bad("C12-d", key, "UNRECOGNISED-FORM: expected exactly one comparison of the stored deadline with now_ms%s, found %s"
                    % (" and one of the stored term with current_term" if term_idx else "", [sym_show(c) for c in cmps]), "%s:%s" % (f.file, f.line))
            continue
        q_dead, q_term, q_cur = dead[0], (terms[0] if term_idx else None), (curs[0] if term_idx else None)
        # which component of the packed word is the deadline / the term
        lay_ok = (mentions(q_dead, lambda x: x == ("const", MASK48)) or (q_dead[0] == "field" and q_dead[2] == "1" and mentions(q_dead, lambda x: x[0] == "call" and x[1].endswith("ReadLease::unpack"))))
        if term_idx:
            lay_ok = lay_ok and q_term[0] == "field" and q_term[2] == "0" and q_cur == ("bin", "BitAnd", ("param", term_idx, f.local_name(term_idx)), ("const", "65535"))
        ctx.check("C12-d", "ReadLease::%s#components" % nm, lay_ok, "deadline = low 48 bits, term = high 16 bits compared with current_term & 0xFFFF",
                  "the compared quantities are not (deadline component, now_ms)%s: %s" % (" / (term component, current_term & 0xFFFF)" if term_idx else "", [sym_show(c) for c in cmps]), "%s:%s" % (f.file, f.line))

        def spec(w):
            v = w.int(q_dead) > w.int(now)
            if term_idx:
                v = v and w.int(q_term) == w.int(q_cur)
            return v
        run_table(ctx, "C12-d", key, paths, lambda p, w: w.truth(p.ret), spec, "%s:%s" % (f.file, f.line), extra_exprs=[c for c in cmps],
                  what="valid iff stored deadline > now_ms%s" % (" and stored term == current_term (16 bit)" if term_idx else ""))
    up = F.try_method("ReadLease", "unpack")
    pk = F.try_method("ReadLease", "pack")
    # fail closed when the packed representation is renamed: if the lease still keeps term and deadline in ONE atomic word
    # (a single AtomicU64 field), the pack / unpack pair must be found
    rl = [a for p_, a in F.adts.items() if p_.endswith("read_lease::ReadLease") or p_.endswith("::ReadLease")]
    n_atomic = sum(1 for a in rl for v in a["variants"] for (_n, t) in v["fields"] if "AtomicU64" in t or "Atomic<u64>" in t)
    if n_atomic == 1:
        ctx.floor("C12-d", (1 if up else 0) + (1 if pk else 0), 2, "ReadLease::pack / ReadLease::unpack (single-word lease representation)")
    if up:
        paths = table_of(ctx, "C12-d", up, "ReadLease::unpack")
        if paths:
            want = ("agg", "tuple", "", (("0", ("bin", "Shr", ("param", 1, up.local_name(1)), ("const", "48"))), ("1", ("bin", "BitAnd", ("param", 1, up.local_name(1)), ("const", MASK48)))))
            ctx.check("C12-d", "ReadLease::unpack#layout", len(paths) == 1 and paths[0].ret == want, "unpack(v) = (v >> 48, v & (2^48-1))",
                      "unpack is not (v >> 48, v & (2^48-1)): %s" % [sym_show(p.ret) for p in paths], "%s:%s" % (up.file, up.line))
    if pk:
        paths = table_of(ctx, "C12-d", pk, "ReadLease::pack")
        if paths:
            t, d = ("param", 1, pk.local_name(1)), ("param", 2, pk.local_name(2))
            want = ("bin", "BitOr", ("bin", "Shl", ("bin", "BitAnd", t, ("const", "65535")), ("const", "48")), ("bin", "BitAnd", d, ("const", MASK48)))
            rets = set(p.ret for p in paths if p.ret is not None)
            ctx.check("C12-d", "ReadLease::pack#layout", rets == {want}, "pack(term, deadline) = ((term & 0xFFFF) << 48) | (deadline & (2^48-1))",
                      "pack is not ((term & 0xFFFF) << 48) | (deadline & (2^48-1)): %s" % [sym_show(r) for r in rets], "%s:%s" % (pk.file, pk.line))


# ---------------------------------------------------------------------------------------------
# C12-f (added after seeded mutant C12-s1): a lease renewal / lease-read release triggered by an
# AppendEntries acknowledgement must be gated on the acknowledging peer being a voter.
def _run_f(ctx):
    from .helpers_r3 import XSlice, excludes_learners
    F = ctx.F
    har = ctx.anchor(F.method, "LeaderState", "handle_append_result")
    if not har:
        return
    mb = F.main_body(har)
    conds = edge_conditions(mb)

    def voter_true(c):
        if c.truth is not True or c.kind != "call" or not re.search(r"iterator::Iterator>?::any$", c.callee or ""):
            return False
        cs = XSlice(F, mb)
        for a in c.call["args"]:
            cs.operand(a)
        return cs.has_field("ClusterMetadata", "replication_targets") and excludes_learners(F, cs.closures())[0]
    TARGET = re.compile(r"LeaderState::(update_lease_timestamp|drain_pending_lease_reads|execute_pending_reads)$")
    sites = []
    for (bi, t) in mb.calls():
        if any(TARGET.search(n) for n in callee_names(t)):
            sites.append((bi, t))
        elif any(tg in F.bodies and self_type_of(F, tg).endswith("LeaderState") for tg in F.resolve_targets(t)) and \
                F.call_reaches(t, lambda k: bool(TARGET.search(strip_generics(k))) or any(TARGET.search(n) for n in core.name_variants(k)), 3):
            sites.append((bi, t))   # an extracted helper that renews / releases
    ctx.floor("C12-f", len(sites), 2, "lease renewal / read release sites in handle_append_result")
    seen = {}
    for (bi, t) in sites:
        nm = callee_names(t)[0].split("::")[-1]
        n = seen.get(nm, 0)
        seen[nm] = n + 1
        ok, wit, _ = guarded_by(mb, bi, voter_true, conds)
        ctx.check("C12-f", "%s#%s[%d]#acknowledged-by-a-voter" % (fkey(har), nm, n), ok,
                  "reached only when the acknowledging peer is a voter (NodeMeta.role != Learner)",
                  "the lease is renewed / lease and linearizable reads are released on an acknowledgement from ANY peer: a learner's ACK (learners are "
                  "not part of any quorum) keeps an isolated leader's lease alive", loc(mb, bi), wit and bpath(mb, wit))


_run_orig = run


def run(ctx):
    _run_orig(ctx)
    _run_f(ctx)
