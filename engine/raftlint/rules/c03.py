"""C03 Sole-voter shortcut depends on the current voter set (DESIGN 4/C03).
Decides by value provenance: the predicate that lets a candidate win an election without collecting
votes must read the live membership table; it must not be determined solely by fields that are
written only at construction time.  Necessary condition: a predicate frozen at boot cannot follow
AddNode/Promote/Remove."""
from .common import *

EXPLANATION = __doc__


def run(ctx):
    F = ctx.F
    bv = ctx.anchor(F.method, "ElectionHandler", "broadcast_vote_requests")
    if not bv:
        return
    mb = F.main_body(bv)
    conds = edge_conditions(mb)
    oks = [x for x in return_aggs(mb) if x[2]["rv"]["k"] == "agg" and x[2]["rv"].get("v") == "Ok"]

    def maj_true(c):
        return c.truth is True and cond_calls(F, c, r"cluster::is_majority$")
    shortcuts = []
    for (bi, si, st) in oks:
        okm, _w, _ = guarded_by(mb, bi, maj_true, conds)
        if not okm:
            shortcuts.append((bi, si, st))
    ctx.floor("C03-a", len(oks), 2, "Ok returns in broadcast_vote_requests (majority + shortcut)")
    if not shortcuts:
        ctx.ok("C03-a", "%s#no-shortcut" % fkey(bv), "every Ok return is guarded by is_majority: no vote-free win exists")
        return
    for (bi, si, st) in shortcuts:
        # predicates controlling this return: true-edges of call-derived bools that dominate it
        preds = []
        for eid, c in conds.items():
            if c.truth is not True:
                continue
            okg, _w, _ = guarded_by(mb, bi, lambda x: x is c, conds)
            if not okg:
                continue
            s = cond_slice(F, c)
            calls = [x[1] for x in s.sources if x[0] == "call" and x[1].startswith("d_engine_")]
            if calls:
                preds.append((c, calls))
        ctx.check("C03-a", "%s#shortcut-has-predicate" % fkey(bv), bool(preds),
                  "vote-free Ok return is controlled by a predicate", "vote-free Ok return is not controlled by any predicate", loc(mb, bi))
        for (c, calls) in preds:
            for callee in calls:
                # class-hierarchy closure of the predicate
                targets = [d for (_s, d) in F.impls_of_method.get(callee, [])]
                if callee in F.bodies:
                    targets.append(callee)
                fns = set()
                for tg in targets:
                    fns |= closure_functions(F, tg, 5)
                reads = set()
                live_calls = []
                for fn in fns:
                    for b in F.group_bodies(fn):
                        reads |= fields_read(b)
                        for (x, t) in calls_matching(b, r"(MembershipGuard::blocking_read|MembershipGuard::blocking_write|Membership::voters|Membership::members|Membership::replication_peers|Membership::get_peers_id_with_condition)$"):
                            live_calls.append(fkey(fn))
                reads = set(r for r in reads if r[0].startswith("d_engine_"))
                frozen = []
                live = []
                for (adt, f) in sorted(reads):
                    ty = field_type(F, adt, f) or ""
                    muts = [m for m in field_mutation_sites(F, adt, f)]
                    if INTERIOR_MUT.search(ty) or muts:
                        live.append("%s.%s" % (adt.split("::")[-1], f))
                    else:
                        frozen.append("%s.%s" % (adt.split("::")[-1], f))
                ok = bool(live_calls) or bool(live)
                name = strip_generics(callee).split("::")[-1]
                ctx.check("C03-a", "%s#shortcut-predicate:%s" % (fkey(bv), name), ok,
                          "predicate reads live membership (%s %s)" % (live_calls[:3], live[:3]),
                          "the vote-free win is decided by `%s`, whose whole call closure (%d fns) reads only construction-time fields %s "
                          "and never the live membership table: a node that started alone and was expanded still elects itself without votes"
                          % (name, len(fns), frozen), loc(mb, bi))
    # C03-b supporting evidence: the leader-side 'alone' flag is derived from voters() at EVERY place that gives it a value
    from .c09 import single_voter_sites
    single_voter_sites(ctx, "C03-b")
