"""C17 Snapshot transfers are all-or-nothing - validation dominates finalize (DESIGN 4/C17).
Decides in `process_snapshot_stream` / `SnapshotAssembler` / `apply_snapshot_stream_from_leader`:
 (a) every `write_chunk` is guarded by `validate_checksum(..) == true` and, once a first chunk fixed
     (leader_term, leader_id), by equality of both with the chunk's; `finalize` is guarded by
     `received_chunks() == total_chunks` and receives the metadata captured from the stream;
 (b) `write_chunk` writes only under `index == expected_index` and advances `expected_index` by one;
 (c) `StateMachine::apply_snapshot_from_file` is called only on the success continuation of
     `process_snapshot_stream` (and of the decompression), with the metadata that function returned, and
     nowhere else in the workspace;
 (d) a file at `final_snapshot_path(..)` comes into existence only as the destination of `fs::rename`:
     no creating/truncating open (`File::create`, `OpenOptions..create`, `fs::write`, `fs::copy`) may
     receive a path derived from `final_snapshot_path`, directly or through a helper parameter.
Necessary conditions; crash atomicity of the rename's parent directory is not decided."""
from .common import *
from .helpers_r2 import *

EXPLANATION = __doc__

CREATE_RX = r"^(std|tokio)::fs::(\w+::)?(File::create|write|copy|OpenOptions::open)$"
RENAME_RX = r"^(std|tokio)::fs::(\w+::)?rename$"


def only(fields, want, banned):
    return want in fields and banned not in fields


def chunk_fields(s):
    return set(x[2] for x in s.sources if x[0] == "field" and strip_generics(x[1]).endswith("SnapshotChunk"))


# creation-side functions that write the archive directly at final_snapshot_path, each triaged by hand (one line of reason);
# any OTHER function that does so is reported
CREATION_SIDE_TRIAGED = {
    "DefaultStateMachineHandler::create_snapshot": "findings/F17d: receivers validate and reject a truncated archive before apply_snapshot_from_file; sender-side availability only",
}


def run(ctx):
    F = ctx.F
    ps = ctx.anchor(F.method, "DefaultStateMachineHandler", "process_snapshot_stream")
    n_w = n_f = 0
    if ps:
        for b in real_bodies(F, ps):
            writes = calls_matching(b, r"SnapshotAssembler::write_chunk$")
            fins = calls_matching(b, r"SnapshotAssembler::finalize$")
            if not writes and not fins:
                continue
            conds = edge_conditions(b)

            def same_leader(c, fld_, other):
                # edge on which chunk.<fld_> == the remembered value
                return cmp_rel(F, c, lambda s: only(chunk_fields(s), fld_, other), lambda s: fld_ in chunk_fields(s)) == "=="

            def first_chunk(c):
                # `term_check` not yet set: the Option that stores the remembered (term, leader) is None
                return c.kind == "discr" and c.variants == {"None"} and {"leader_term", "leader_id"} <= chunk_fields(cond_slice(F, c))

            for (wi, _wt) in writes:
                n_w += 1
                key = "%s#write_chunk" % fkey(ps)
                ok, wit, _ = guarded_by(b, wi, lambda c: c.truth is True and cond_calls(F, c, r"validate_checksum$"), conds)
                ctx.check("C17-a", key + "#checksum", ok, "write_chunk only after validate_checksum == true",
                          "a chunk can be written to the assembly file without a successful checksum validation: a corrupted chunk "
                          "becomes part of the installed snapshot", loc(b, wi), wit and bpath(b, wit))
                for (fld_, other) in (("leader_term", "leader_id"), ("leader_id", "leader_term")):
                    ok, wit, _ = guarded_by(b, wi, lambda c: first_chunk(c) or same_leader(c, fld_, other), conds)
                    ctx.check("C17-a", key + "#same-" + fld_, ok, "after the first chunk, write_chunk only under chunk.%s == remembered value" % fld_,
                              "a chunk whose %s differs from the first chunk's can be written: chunks of two leaders/terms are spliced into "
                              "one snapshot" % fld_, loc(b, wi), wit and bpath(b, wit))
            for (fi, ft) in fins:
                n_f += 1
                key = "%s#finalize" % fkey(ps)
                ok, wit, _ = guarded_by(b, fi, lambda c: cmp_rel(F, c, lambda s: s.has_call(r"SnapshotAssembler::received_chunks$"),
                                                                 lambda s: "total_chunks" in chunk_fields(s)) == "==", conds)
                ctx.check("C17-a", key + "#count", ok, "finalize only under received_chunks() == total_chunks",
                          "finalize is reachable without received_chunks() == total_chunks: a stream that ended early (or ran long) still "
                          "produces a final snapshot file", loc(b, fi), wit and bpath(b, wit))
                ms = Slice(F, b).operand(ft["args"][1])
                ctx.check("C17-a", key + "#metadata", "metadata" in chunk_fields(ms), "finalize receives the metadata captured from the stream",
                          "the metadata given to finalize does not come from the received chunks: %s" % sorted(ms.sources, key=str)[:5], loc(b, fi))
                wpass = [wi for (wi, _t) in writes]
                ctx.check("C17-a", key + "#after-writes", all(path_avoiding(b, fi, [wi]) is None for wi in wpass) and bool(wpass),
                          "no chunk is written after finalize", "write_chunk is reachable after finalize", loc(b, fi))
    ctx.floor("C17-a", n_w, 1, "write_chunk call in process_snapshot_stream")
    ctx.floor("C17-a", n_f, 1, "finalize call in process_snapshot_stream")

    # ---------------------------------------------------------------- C17-b
    wc = ctx.anchor(F.method, "SnapshotAssembler", "write_chunk")
    if wc:
        mb = F.main_body(wc)
        conds = edge_conditions(mb)
        wa = calls_matching(mb, r"AsyncWriteExt::write_all$|io::Write::write_all$")
        ctx.floor("C17-b", len(wa), 1, "write_all in SnapshotAssembler::write_chunk")
        for (bi, _t) in wa:
            ok, wit, _ = guarded_by(mb, bi, lambda c: cmp_rel(F, c, lambda s: any(x[0] in ("param", "upvar") for x in s.sources) and not s.has_field("SnapshotAssembler", "expected_index"),
                                                              lambda s: s.has_field("SnapshotAssembler", "expected_index")) == "==", conds)
            ctx.check("C17-b", "%s#write_all#index==expected" % fkey(wc), ok, "data is written only under index == expected_index",
                      "write_chunk can write a chunk whose index is not the expected one: duplicates / gaps / reordering end up in the file",
                      loc(mb, bi), wit and bpath(mb, wit))
        incs = []
        for (bi, si, st) in writes_to_field(mb, "SnapshotAssembler", "expected_index"):
            if si == "term":
                continue
            s = Slice(F, mb)
            s.rvalue(st["rv"])
            incs.append((bi, s))
        ctx.floor("C17-b", len(incs), 1, "assignment to SnapshotAssembler.expected_index")
        for (bi, s) in incs:
            ok = s.has_field("SnapshotAssembler", "expected_index") and set(s.consts()) <= {"1"} and any(x[0] == "binop" and x[1].startswith("Add") for x in s.sources)
            ctx.check("C17-b", "%s#expected_index+=1" % fkey(wc), ok, "expected_index advances by exactly one per written chunk",
                      "expected_index is not advanced by exactly one: %s" % sorted(s.sources, key=str)[:6], loc(mb, bi))

    # ---------------------------------------------------------------- C17-c
    callers = [x for x in F.callers_of(lambda k: strip_generics(k).endswith("state_machine::StateMachine::apply_snapshot_from_file"))
               if F.bodies[x[1]].crate in ("d_engine_core", "d_engine_server") and not strip_generics(x[0]).endswith("StateMachine::apply_snapshot_from_file")]
    ctx.floor("C17-c", len(callers), 1, "callers of StateMachine::apply_snapshot_from_file")
    for (root, bid, bi, t) in callers:
        b = F.bodies[bid]
        conds = edge_conditions(b)
        key = "%s#apply_snapshot_from_file" % fkey(root)
        in_handler = fkey(root).endswith("DefaultStateMachineHandler::apply_snapshot_stream_from_leader")
        ctx.check("C17-c", key + "#who", in_handler, "called from apply_snapshot_stream_from_leader",
                  "StateMachine::apply_snapshot_from_file is called outside apply_snapshot_stream_from_leader: the state can be replaced by a "
                  "snapshot that never went through stream validation", loc(b, bi))
        ok, wit, _ = guarded_by(b, bi, lambda c: c.kind == "discr" and c.variants == {"Continue"} and cond_calls(F, c, r"process_snapshot_stream$"), conds)
        ctx.check("C17-c", key + "#after-validated-stream", ok, "dominated by the success continuation of process_snapshot_stream",
                  "the state machine can be replaced although process_snapshot_stream did not return Ok", loc(b, bi), wit and bpath(b, wit))
        ms = Slice(F, b).operand(t["args"][1])
        ctx.check("C17-c", key + "#metadata", ms.has_call(r"process_snapshot_stream$"), "metadata argument is the one returned by process_snapshot_stream",
                  "apply_snapshot_from_file is given metadata that does not come from the validated stream", loc(b, bi))

    # ---------------------------------------------------------------- C17-d who may create the final file
    uses = F.callers_of(lambda k: strip_generics(k).endswith("SnapshotPathManager::final_snapshot_path"))
    uses = [x for x in uses if F.bodies[x[1]].crate in ("d_engine_core", "d_engine_server")]
    ctx.floor("C17-d", len(uses), 3, "uses of SnapshotPathManager::final_snapshot_path (create_snapshot, finalize, prepare_transfer_meta)")
    n_ren = 0
    recv = [b for b in F.find(r"apply_snapshot_stream_from_leader$") if b.parent is None]
    receiver_fns = set()
    for rb in recv:
        receiver_fns |= closure_functions(F, rb.id, 6)
    for rb in F.find(r"snapshot_assembler::SnapshotAssembler.*::\w+$"):
        if rb.parent is None:
            receiver_fns.add(rb.id)
    ctx.floor("C17-d", len(recv), 1, "apply_snapshot_stream_from_leader (receiver scope)")
    for (root, bid, bi, t) in uses:
        b = F.bodies[bid]
        fl = t["dest"]["l"]
        creators, renames = [], []
        for (ci, ct) in b.calls():
            if ci == bi or not ct["args"]:
                continue
            k = strip_generics(callee_key(ct) or "")
            for ai, a in enumerate(ct["args"]):
                if fl not in Slice(F, b).operand(a).seen:
                    continue
                if re.search(RENAME_RX, k):
                    if ai == 1:
                        renames.append(ci)
                    else:
                        creators.append((ci, "rename source"))
                elif re.search(CREATE_RX, k) and ai == (1 if k.endswith("OpenOptions::open") else (1 if k.endswith("::copy") else 0)):
                    creators.append((ci, k.split("::")[-1]))
                else:
                    # helper taking the path: does the parameter reach a creating open inside it?
                    for tg in F.resolve_targets(ct):
                        for hb in real_bodies(F, tg):
                            for (hi, ht) in calls_matching(hb, CREATE_RX):
                                hk = strip_generics(callee_key(ht))
                                pa = ht["args"][1 if hk.endswith("OpenOptions::open") or hk.endswith("::copy") else 0]
                                hs = slice_up(F, hb, pa)
                                if any(x[0] == "param" and x[1] == ai + 1 for x in hs):
                                    creators.append((ci, "%s -> %s" % (fkey(tg), hk.split("::")[-1])))
        n_ren += len(renames)
        if root not in receiver_fns and creators and fkey(root) in CREATION_SIDE_TRIAGED:
            # creation side (the property is about transfers): triaged - a truncated archive under the final name is rejected by
            # every receiver before apply_snapshot_from_file (findings/F17d), so this is a sender-side availability issue, not a
            # violation of the all-or-nothing transfer property
            ctx.note("C17-d observation (not armed): %s creates the archive directly at final_snapshot_path (%s) after the snapshot "
                     "metadata was published; receivers reject a truncated archive with their state untouched (findings/F17d)"
                     % (fkey(root), sorted(set(c[1] for c in creators))))
            continue
        ctx.check("C17-d", "%s#final_snapshot_path#no-create" % fkey(root), not creators,
                  "the final path is only %s here" % ("a rename destination" if renames else "read"),
                  "a file is created/truncated directly at final_snapshot_path (%s) instead of being renamed into place: the final snapshot file "
                  "exists while it is still being written. History: generate_snapshot_data has already published the new snapshot metadata; the "
                  "archive is being written at the final path; a crash (or a concurrent load_snapshot_data for a lagging peer) sees a truncated "
                  "file under the final name; peers that fetch it validate every chunk CRC, finalize, and then fail to decompress - on every retry"
                  % sorted(set(c[1] for c in creators)), loc(b, creators[0][0]) if creators else loc(b, bi))
    ctx.floor("C17-d", n_ren, 1, "fs::rename onto final_snapshot_path (SnapshotAssembler::finalize)")


# ---------------------------------------------------------------------------------------------
# C17-e (added after seeded mutant C17-s1, two cooperating sites): the completeness test compares `received_chunks` with
# the announced total, so (1) only chunks that passed the continuity check and are written may be counted, and (2) a chunk
# that write_chunk rejected must abort the transfer - it may not be acknowledged and skipped.
def _run_e(ctx):
    F = ctx.F
    wc = ctx.anchor(F.method, "SnapshotAssembler", "write_chunk")
    if wc:
        mb = F.main_body(wc)
        conds = edge_conditions(mb)
        incs = field_receiver_calls(F, mb, "SnapshotAssembler", "received_chunks", r"atomic::Atomic\w*::(fetch_add|store|swap|fetch_max)$")
        for bi, blk in enumerate(mb.blocks):
            for st in blk["st"]:
                if "lhs" in st and any(f == "received_chunks" for (_a, f, _v) in core.place_fields(st["lhs"])):
                    incs.append((bi, None))
        ctx.floor("C17-e", len(incs), 1, "update of SnapshotAssembler.received_chunks in write_chunk")

        def in_order(c):
            return cmp_rel(F, c, lambda s: any(x[0] in ("param", "upvar") for x in s.sources) and not s.has_field("SnapshotAssembler", "expected_index"),
                           lambda s: s.has_field("SnapshotAssembler", "expected_index")) == "=="
        for n, (bi, _t) in enumerate(incs):
            ok, wit, _ = guarded_by(mb, bi, in_order, conds)
            ctx.check("C17-e", "%s#received_chunks[%d]#counts-only-in-order-chunks" % (fkey(wc), n), ok,
                      "a chunk is counted only after it passed `index == expected_index`",
                      "received_chunks is advanced for a chunk that did not pass the continuity check: duplicates / out-of-order chunks are counted, so "
                      "`received_chunks == total_chunks` can hold for a stream with missing chunks (e.g. 0,1,1,<close> of 3)", loc(mb, bi), wit and bpath(mb, wit))
    ps = ctx.anchor(F.method, "DefaultStateMachineHandler", "process_snapshot_stream")
    if ps:
        n = 0
        for b in real_bodies(F, ps):
            conds = None
            for (bi, t) in calls_matching(b, r"SnapshotAssembler::write_chunk$"):
                n += 1
                if conds is None:
                    conds = edge_conditions(b)
                # everything that follows the call inside the loop (ACK construction, next recv) must lie behind its success edge
                acks = [x for (x, si, st) in agg_sites(b, "SnapshotAck")] + [x for (x, _t) in calls_matching(b, r"SnapshotAssembler::(finalize|flush_to_disk)$")]
                seen, _p = b.reach_from(bi)
                acks = [x for x in acks if x in seen and x != bi]

                def wrote(c):
                    return c.kind == "discr" and (c.variants in ({"Continue"}, {"Ok"})) and cond_slice(F, c).has_call(r"SnapshotAssembler::write_chunk$")
                bad = []
                for x in acks:
                    # reachable from the call without passing the success edge of its result?
                    removed = frozenset(eid for eid, c in conds.items() if wrote(c))
                    seen2, par2 = b.reach_from(bi, removed_edges=removed)
                    if x in seen2:
                        bad.append(x)
                ctx.check("C17-e", "%s#write_chunk-error-aborts" % fkey(ps), bool(acks) and not bad,
                          "an ACK / finalize is reachable from write_chunk only through its Ok result (`?`)",
                          "a chunk rejected by write_chunk (out of order / duplicate) does not abort the transfer: the stream goes on, is acknowledged and "
                          "can be finalized with a missing chunk", loc(b, bi))
        ctx.floor("C17-e", n, 1, "write_chunk call in process_snapshot_stream")


_run_before_e = run


def run(ctx):
    _run_before_e(ctx)
    _run_e(ctx)
