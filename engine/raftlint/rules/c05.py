"""C05 Committed entries are never lost - no log deletion outside the three licences (DESIGN 4/C05).
Decides: (a) WHO-MAY delete log entries: the set of (function, deletion primitive) pairs equals the
confirmed table (conflict truncation, guarded purge, snapshot-install purge/reset, the IO task that
executes them); (b) a full reset of a follower log on the append path must be control dependent on a
term mismatch, not merely on prev_log == (0,0); (d) purges are guarded by can_purge_logs, whose decision
table is `last_included.index < commit_index && (no previous purge || previous.index < last_included.index)`,
or directly follow a successful snapshot install; (e) the index allocator next_id - the index a new leader's
first append REPLACES - is never rewound after entries were (re)inserted in the same function, and the
raise-on-insert write is taken only upwards.  The election restriction half is C01-d."""
from .common import *

EXPLANATION = __doc__
TECHNIQUE = "static analysis of rustc MIR facts: dominance/guard and value-provenance rules plus exact symbolic decision tables of loop-free guard functions (exhaustive over weak orderings)"

PRIMS = r"(RaftLog::(reset|purge_logs_up_to)|BufferedRaftLog::(remove_range|reset|reset_internal|purge_logs_up_to)|LogStore::(truncate|replace_range|purge|reset)|PurgeExecutor::execute_purge)$"

# confirmed by reading (one line of reason each)
ALLOWED = {
    ("BufferedRaftLog::handle_non_write_cmd", "replace_range"): "IO task: executes the ReplaceRange issued by conflict truncation",
    ("BufferedRaftLog::handle_non_write_cmd", "purge"): "IO task: executes a purge requested by purge_logs_up_to",
    ("BufferedRaftLog::handle_non_write_cmd", "reset"): "IO task: executes a reset requested by reset()",
    ("DefaultPurgeExecutor::execute_purge", "purge_logs_up_to"): "purge executor wrapper (callers checked by C05-d)",
    ("FollowerState::handle_inbound_event", "purge_logs_up_to"): "after a successful snapshot install (C05-d)",
    ("FollowerState::handle_snapshot_created", "execute_purge"): "guarded by can_purge_logs (C05-d)",
    ("LeaderState::handle_snapshot_created", "execute_purge"): "scheduled under can_purge_logs (C05-d)",
    ("LearnerState::handle_inbound_event", "purge_logs_up_to"): "after a successful snapshot install (C05-d)",
    ("LearnerState::fetch_initial_snapshot", "purge_logs_up_to"): "after a successful initial snapshot install (C05-d)",
    ("LearnerState::handle_snapshot_created", "execute_purge"): "guarded by can_purge_logs (C05-d)",
    ("BufferedRaftLog::filter_out_conflicts_and_append", "reset"): "append path reset (C05-b decides its guard)",
    ("BufferedRaftLog::filter_out_conflicts_and_append", "remove_range"): "conflict truncation (C04-c licence)",
    ("BufferedRaftLog::purge_logs_up_to", "remove_range"): "purge implementation",
    ("BufferedRaftLog::reset", "reset_internal"): "reset implementation",
    ("LogStore::replace_range", "truncate"): "default replace_range = truncate + append",
}


def run(ctx):
    F = ctx.F
    rx = re.compile(PRIMS)
    found = set()
    for bid, b in F.bodies.items():
        if b.crate not in ("d_engine_core", "d_engine_server"):
            continue
        for bi, t in b.calls():
            ns = callee_names(t)
            hit = [n for n in ns if rx.search(n)]
            if not hit:
                continue
            prim = hit[0].split("::")[-1]
            fn = fkey(F.root_of[bid])
            # storage engines implementing the primitives call each other freely
            if fn.split("::")[0] in ("FileLogStore", "RocksDBLogStore", "MockLogStore") or fn.split("::")[0].endswith("LogStore") and fn.split("::")[0] != "LogStore":
                continue
            keys = [(fn, prim)]
            rootb = F.bodies.get(F.root_of[bid])
            if keys[0] not in ALLOWED and rootb is not None and not rootb.impl_of and getattr(rootb, "vis", "") not in ("pub", "public") and \
                    strip_generics(self_type_of(F, rootb.id) or "").endswith("BufferedRaftLog"):
                # a private inherent helper of the log: the licence is its callers' (the helper is treated as inlined)
                cs = [c for c in F.callers_of(lambda k, r=rootb.id: k == r) if c[0] != rootb.id and not re.search(r"(_test|/tests?/|test_utils|mock)", F.bodies[c[1]].file or "")]
                if cs:
                    keys = sorted(set((fkey(c[0]), prim) for c in cs))
            for key in keys:
                if key in found:
                    continue
                found.add(key)
                ctx.check("C05-a", "%s#%s" % key, key in ALLOWED, ALLOWED.get(key, ""),
                          "log entries are deleted (`%s`) from a function outside the confirmed licence table" % prim, loc(b, bi))
    ctx.floor("C05-a", len(found & set(ALLOWED)), 15, "licensed deletion sites (positive control)")

    # ---------------------------------------------------------------- C05-b
    foc = ctx.anchor(F.method, "BufferedRaftLog", "filter_out_conflicts_and_append")
    if foc:
        mb = F.main_body(foc)
        conds = edge_conditions(mb)
        rs = calls_matching(mb, r"(BufferedRaftLog|RaftLog)::reset$")
        for (bi, t) in rs:
            def mismatch(c):
                # a comparison involving the term of a local entry (entry_term / last_log_id / entry lookups)
                s = cond_slice(F, c)
                return s.has_call(r"(RaftLog|BufferedRaftLog)::(entry_term|entry|last_log_id|first_index_for_term|last_entry_id|is_empty)$")
            ok, wit, _ = guarded_by(mb, bi, mismatch, conds)
            ctx.check("C05-b", "%s#reset" % fkey(foc), ok,
                      "full reset depends on the local log's content",
                      "on the append path the whole local log is wiped (`reset()`) under a guard that only looks at the request "
                      "(prev_log_index == 0 && prev_log_term == 0) and never at the local log: a follower whose log already matches the leader "
                      "loses every entry beyond the request's batch, committed ones included", loc(mb, bi), wit and bpath(mb, wit))

    # ---------------------------------------------------------------- C05-d purge guards
    n_tab = 0
    for ty in ("FollowerState", "LearnerState", "LeaderState"):
        f = ctx.anchor(F.method, ty, "can_purge_logs")
        if not f:
            continue
        paths = table_of(ctx, "C05-d", f, "%s::can_purge_logs" % ty)
        if not paths:
            continue
        n_tab += 1
        tb0 = pathsym.Table(paths, extra_exprs=[p.ret for p in paths if p.ret[0] != "const"])
        last_purge, last_inc = par(2), par(3)
        q_li = pick(tb0.quant, fld(last_inc, "index"), "")
        q_ci = pick(tb0.quant, lambda e: e[0] == "call" and e[1].endswith("commit_index"), "")
        b_mono = pick(tb0.bools, lambda e: e[0] == "unwrap_or" and e[2] == ("const", "true") and e[1][0] == "call" and e[1][1].endswith("Option::map") and last_purge(e[1][2][0]), "")
        # form 2: the monotonic check written inline (match / if let on the previous purge id)
        v_lp = pick(list(tb0.vars), last_purge, "")
        q_lp = pick(tb0.quant, fld(last_purge, "0", "index"), "")
        form = "closure" if b_mono is not None else ("inline" if (v_lp is not None and q_lp is not None) else None)
        expected_q = {q_li, q_ci} | ({q_lp} if form == "inline" else set())
        stray = [sym_show(q) for q in tb0.quant if q not in expected_q] + [sym_show(b) for b in tb0.bools if b != b_mono] + [sym_show(v) for v in tb0.vars if v != v_lp]
        if None in (q_li, q_ci) or form is None or stray:
            ctx.bad("C05-d", "%s#table" % fkey(f), "UNRECOGNISED-FORM: can_purge_logs inputs %s %s %s (unexpected: %s)" % ([sym_show(q) for q in tb0.quant], [sym_show(b) for b in tb0.bools], [sym_show(v) for v in tb0.vars], stray), "%s:%s" % (f.file, f.line))
            continue
        if form == "closure":
            run_table(ctx, "C05-d", "%s#table" % fkey(f), paths, lambda p, w: w.truth(p.ret), lambda w: w.int(q_li) < w.int(q_ci) and w.b[b_mono], "%s:%s" % (f.file, f.line),
                      extra_exprs=[p.ret for p in paths if p.ret[0] != "const"], what="purge allowed iff last_included.index < commit_index and the monotonic check")
            # the monotonic closure: |lid| lid.index < last_included.index
            cl = b_mono[1][2][1]
            cb = F.bodies.get(cl[1]) if cl[0] == "closure" else None
            if cb is None:
                ctx.bad("C05-d", "%s#monotonic-closure" % fkey(f), "monotonic check is not a closure", "%s:%s" % (f.file, f.line))
            else:
                cp = table_of(ctx, "C05-d", cb, "monotonic closure")
                if cp:
                    rets = [p.ret for p in cp]
                    caps = [v for (_n, v) in cl[2]]
                    cap_ok = len(caps) == 1 and (fld(last_inc, "index")(caps[0]) or last_inc(caps[0]))
                    rhs_ok = len(cp) == 1 and rets[0][0] == "bin" and (rets[0][3][0] == "upvar" or (fld(lambda e: e[0] == "upvar", "index")(rets[0][3])))
                    ok = cap_ok and rhs_ok and rets[0][1] == "Lt" and fld(par(2), "index")(rets[0][2])
                    ctx.check("C05-d", "%s#monotonic-closure" % fkey(f), ok, "previous_purge.index < last_included.index",
                              "monotonic closure is not `previous.index < last_included.index`: %s" % [sym_show(r) for r in rets], "%s:%s" % (cb.file, cb.line))
        else:
            run_table(ctx, "C05-d", "%s#table" % fkey(f), paths, lambda p, w: w.truth(p.ret),
                      lambda w: w.int(q_li) < w.int(q_ci) and (w.v[v_lp] == "None" or w.int(q_lp) < w.int(q_li)), "%s:%s" % (f.file, f.line),
                      extra_exprs=[p.ret for p in paths if p.ret[0] != "const"], what="purge allowed iff last_included.index < commit_index and (no previous purge or previous.index < last_included.index)")
            ctx.ok("C05-d", "%s#monotonic-closure" % fkey(f), "monotonic check is written inline and is part of the table")
    ctx.floor("C05-d", n_tab, 3, "can_purge_logs decision tables")

    # execute_purge / purge_logs_up_to call sites
    for ty in ("FollowerState", "LearnerState"):
        f = ctx.anchor(F.method, ty, "handle_snapshot_created")
        if not f:
            continue
        mb = F.main_body(f)
        conds = edge_conditions(mb)
        ep = calls_matching(mb, r"PurgeExecutor::execute_purge$")
        ctx.floor("C05-d", len(ep), 1, "execute_purge in %s::handle_snapshot_created" % ty)
        for (bi, t) in ep:
            ok, wit, _ = guarded_by(mb, bi, lambda c: c.truth is True and cond_calls(F, c, r"%s::can_purge_logs$" % ty), conds)
            cp = [x for x in calls_matching(mb, r"%s::can_purge_logs$" % ty)]
            same = False
            for (cb_, ct) in cp:
                a = Slice(F, mb).operand(ct["args"][2])
                e = Slice(F, mb).operand(t["args"][1])
                same = same or bool(a.seen & e.seen) or bool(set(x for x in a.sources if x[0] == "field") & set(x for x in e.sources if x[0] == "field"))
            ctx.check("C05-d", "%s#execute_purge" % fkey(f), ok and same, "purge guarded by can_purge_logs(.., the same last_included)",
                      "execute_purge is not guarded by can_purge_logs on the same snapshot boundary", loc(mb, bi), wit and bpath(mb, wit))
    lf = ctx.anchor(F.method, "LeaderState", "handle_snapshot_created")
    if lf:
        mb = F.main_body(lf)
        conds = edge_conditions(mb)
        ep = calls_matching(mb, r"PurgeExecutor::execute_purge$")
        ctx.floor("C05-d", len(ep), 1, "execute_purge in LeaderState::handle_snapshot_created")
        for (bi, t) in ep:
            e = Slice(F, mb).operand(t["args"][1])
            from_field = e.has_field("LeaderState", "scheduled_purge_upto")
            ctx.check("C05-d", "%s#execute_purge#from-schedule" % fkey(lf), from_field, "leader purges only what was scheduled",
                      "leader purge boundary does not come from LeaderState.scheduled_purge_upto", loc(mb, bi))
        # writers of the schedule
        muts = field_mutation_sites(F, "LeaderState", "scheduled_purge_upto")
        writers = sorted(set(fkey(r) for (r, b, bi) in muts))
        ctx.check("C05-d", "LeaderState.scheduled_purge_upto#writers", writers == ["LeaderState::scheduled_purge_upto"], "only writer is LeaderState::scheduled_purge_upto",
                  "LeaderState.scheduled_purge_upto is written by %s" % writers)
        sp = calls_matching(mb, r"LeaderState::scheduled_purge_upto$")
        allsp = F.callers_of(lambda k: strip_generics(k).endswith("LeaderState::scheduled_purge_upto"))
        ctx.check("C05-d", "LeaderState::scheduled_purge_upto#callers", len(allsp) == len(sp) and len(sp) >= 1, "scheduled only from handle_snapshot_created",
                  "scheduled_purge_upto is called from %s" % sorted(set(fkey(x[0]) for x in allsp)))
        for (bi, t) in sp:
            ok, wit, _ = guarded_by(mb, bi, lambda c: c.truth is True and cond_calls(F, c, r"LeaderState::can_purge_logs$"), conds)
            ctx.check("C05-d", "%s#schedule" % fkey(lf), ok, "schedule guarded by can_purge_logs", "purge scheduled without can_purge_logs", loc(mb, bi), wit and bpath(mb, wit))
    # snapshot-install purges: dominated by the Ok arm of the snapshot application
    inst = [("FollowerState", "handle_inbound_event"), ("LearnerState", "handle_inbound_event"), ("LearnerState", "fetch_initial_snapshot")]
    for (ty, fnn) in inst:
        f = ctx.anchor(F.method, ty, fnn)
        if not f:
            continue
        mb = F.main_body(f)
        conds = edge_conditions(mb)
        ps = calls_matching(mb, r"RaftLog::purge_logs_up_to$")
        ctx.floor("C05-d", len(ps), 1, "purge_logs_up_to in %s::%s" % (ty, fnn))
        for (bi, t) in ps:
            def installed(c):
                if c.kind != "discr":
                    return False
                s = cond_slice(F, c)
                return (c.variants in ({"Ok"}, {"Continue"})) and s.has_call(r"StateMachineHandler::apply_snapshot_stream_from_leader$")
            ok, wit, _ = guarded_by(mb, bi, installed, conds)
            arg = Slice(F, mb, through_calls=True).operand(t["args"][1])
            from_meta = arg.has_call(r"StateMachineHandler::get_latest_snapshot_metadata$") or arg.has_field("SnapshotMetadata", "last_included")
            ctx.check("C05-d", "%s#purge-after-install" % fkey(f), ok and from_meta,
                      "purge boundary = last_included of the snapshot that was just installed successfully",
                      "purge_logs_up_to on the install path is not dominated by a successful snapshot application, or its boundary is not the installed snapshot's last_included (ok=%s meta=%s)" % (ok, from_meta),
                      loc(mb, bi), wit and bpath(mb, wit))


# ---------------------------------------------------------------------------------------------- C05-e
_run_abd = run


def run(ctx):
    _run_abd(ctx)
    allocator_rewinds(ctx)
    raw_container_removals(ctx)


RAW_REMOVE_OK = {
    "BufferedRaftLog::remove_range": "the one primitive behind conflict truncation and purge (its callers are the C05-a table)",
    "BufferedRaftLog::reset_internal": "the one primitive behind reset (its callers are the C05-a table)",
}


def raw_container_removals(ctx):
    """C05-a (raw form) the in-memory entry map is shrunk only inside the two licensed primitives: a direct
    `self.entries.remove/clear/pop_*` anywhere else deletes log entries behind the back of the who-may-delete table"""
    F = ctx.F
    n = 0
    for bid, b in sorted(F.bodies.items()):
        if b.crate != "d_engine_core" or re.search(r"(_test|/tests?/|test_utils|mock)", b.file or ""):
            continue
        for (bi, t) in field_receiver_calls(F, b, "BufferedRaftLog", "entries", r"SkipMap(::<.*>)?::(remove|clear|pop_front|pop_back|remove_entry)$"):
            n += 1
            fk = fkey(F.root_of[bid])
            m = strip_generics(callee_key(t)).split("::")[-1]
            ctx.check("C05-a", "%s#entries.%s#raw-removal" % (fk, m), fk in RAW_REMOVE_OK,
                      "raw removal inside a licensed primitive: %s" % RAW_REMOVE_OK.get(fk, ""),
                      "BufferedRaftLog.entries is shrunk (%s) outside remove_range / reset_internal: log entries are deleted without passing the who-may-delete table" % m, loc(b, bi))
    ctx.floor("C05-a", n, 2, "raw removals from BufferedRaftLog.entries (remove_range, reset_internal)")


NEXT_ID_WRITE = r"atomic::Atomic\w*::(store|swap|fetch_min|fetch_sub|compare_exchange|compare_exchange_weak|fetch_update)$"
MEM_INSERT = r"(BufferedRaftLog::insert_to_memory|SkipMap::insert|SkipMap::get_or_insert|RaftLog::insert_batch|RaftLog::append_entries|BufferedRaftLog::append_entries|BufferedRaftLog::insert_batch)$"


def allocator_rewinds(ctx):
    """C05-e the index allocator is never rewound below entries that were inserted before the rewind.
    `next_id` is where a leader writes its next entry (pre_allocate_id_range -> insert_batch REPLACES whatever is at
    that index). Inserting entries only ever raises next_id; a plain write of another value (the truncation point,
    1 on reset) after entries have been (re)inserted in the same function leaves next_id at or below an occupied
    index: a follower that repaired a conflict and then wins an election overwrites the repaired - possibly
    committed - entries with its no-op. Rule: in every function of BufferedRaftLog, no in-memory insertion may
    precede (reach, without being dominated by) a non-raising write of next_id. A write is 'raising' when its value is
    (max index of the inserted entries) + 1 and it is taken only under `max >= current next_id`."""
    F = ctx.F
    fns = [b for b in F.bodies.values() if b.parent is None and self_type_of(F, b.id).endswith("buffered_raft_log::BufferedRaftLog") and not re.search(r"(_test|/tests?/|test_utils|mock)", b.file or "")]
    n_writes, n_rewinds = 0, 0
    for fn in fns:
        for b in F.group_bodies(fn):
            writes = field_receiver_calls(F, b, "BufferedRaftLog", "next_id", NEXT_ID_WRITE)
            if not writes:
                continue
            conds = None
            inserts = [x for (x, t) in b.calls() if re.search(MEM_INSERT, strip_generics(callee_key(t) or ""))
                       or F.call_reaches(t, lambda k: re.search(r"(BufferedRaftLog::insert_to_memory|SkipMap::insert)$", strip_generics(k)) is not None, 3)]
            for (bi, t) in writes:
                n_writes += 1
                v = Slice(F, b).operand(t["args"][1])
                ops = set(x[1] for x in v.sources if x[0] == "binop")
                raising = bool(ops & {"Add", "AddWithOverflow"}) and "1" in v.consts() and (v.has_field("Entry", "index") or v.has_call(r"Iterator::max$"))
                if raising:
                    conds = conds or edge_conditions(b)
                    g, _w, _ = guarded_by(b, bi, lambda c: cmp_rel(F, c, lambda s: s.has_field("Entry", "index") or s.has_call(r"Iterator::max$"),
                                                                   lambda s: s.has_field("BufferedRaftLog", "next_id")) in (">=", ">"), conds)
                    ctx.check("C05-e", "%s#next_id-raise#only-upwards" % fkey(fn), g, "next_id = max inserted index + 1 only when that index >= next_id",
                              "next_id is set to (max inserted index + 1) without the test `max index >= next_id`: inserting an overlap below the tail rewinds the allocator", loc(b, bi))
                    continue
                n_rewinds += 1
                before = []
                for x in inserts:
                    if x == bi:
                        continue
                    seen, _p = b.reach_from(x)
                    if bi in seen and not b.dominates(bi, x):
                        before.append(x)
                consts = sorted(c for c in v.consts() if c.lstrip("-").isdigit())
                what = "reset-to-%s" % consts[0] if consts and not [x for x in v.sources if x[0] in ("param", "call", "field")] else "rewind"
                ctx.check("C05-e", "%s#next_id-%s#before-any-insert" % (fkey(fn), what), not before,
                          "the allocator is rewound before the entries are (re)inserted; the insertion raises it past the new tail",
                          "next_id is rewound AFTER entries were inserted in this function (insert at %s): it is left at or below an occupied index, and the next leader "
                          "append (pre_allocate_id_range -> insert_batch) overwrites entries that may be committed" % [loc(b, x) for x in before[:2]], loc(b, bi))
    ctx.floor("C05-e", n_writes, 2, "non-increment writes of BufferedRaftLog.next_id (conflict rewind, reset; raise-on-insert when written as a plain store)")
    ctx.floor("C05-e", n_rewinds, 2, "rewinding writes of next_id (conflict truncation, reset)")
