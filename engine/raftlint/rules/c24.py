"""C24 Watch streams deliver committed changes in order, with no silent gaps (DESIGN 4/C24).
Decides: (a) the RecvError::Lagged arm of WatchDispatcher::run (events were dropped by the broadcast
buffer) reaches a send of make_cancel_event or leaves the loop before the next recv; (b) per-watcher
overflow: the data send in dispatch_to_map happens only when capacity() > 1 (the reserved slot is never
used by data), the channel is created with watcher_buffer_size + 1, the overflow branch sends the cancel
sentinel (except the defensive capacity == 0 case) and queues the watcher for unregistration;
(c) events only for committed mutations: broadcast_watch_events is called only under Ok of
StateMachine::apply_chunk, the CompareAndSwap arm builds an event only under ApplyResult.succeeded, every
event's revision is the entry's log index; (d) the atomic that feeds Progress revisions
(WatchDispatcher.last_applied) has a writer; (e) register_prefix reaches do_register only for prefixes that
start and end with '/'; (f) the fan-out loops (watchers of one key in dispatch_to_map, prefix segments in dispatch)
are left only when their iterator is exhausted - no break / return / `?` inside them.  Necessary conditions, not the whole behaviour (prefix matching semantics and
per-watcher ordering over all schedules are not decided)."""
from .common import *
from .helpers_r3 import *

EXPLANATION = __doc__
ATOMIC_WRITE = r"atomic::Atomic\w*::(store|swap|fetch_max|fetch_add|fetch_update|compare_exchange|compare_exchange_weak)$"


def _is_atomic_ty(ty):
    return bool(re.search(r"Atomic(U64|<u64>)", ty or ""))


def progress_atomic_writers(F, build):
    """Follow the Arc<AtomicU64> that NodeBuilder::build passes to WatchDispatcher::new: which workspace
    functions receive it (or a clone), and is it ever written - directly through the parameter, or through
    the struct field the recipient stores it in?  Returns (writer function keys, recipients)."""
    writers, recipients = [], []
    for bid, b in F.bodies.items():
        if b.crate in ("d_engine_core", "d_engine_server"):
            for (bi, t) in field_receiver_calls(F, b, "WatchDispatcher", "last_applied", ATOMIC_WRITE):
                writers.append(fkey(F.root_of[bid]))
    for b in F.group_bodies(build):
        for (bi, t) in calls_matching(b, r"WatchDispatcher::new$"):
            taint = set(l for l in XSlice(F, b).operand(t["args"][3]).seen if _is_atomic_ty(b.local_ty(l)))
            changed = True
            while changed:            # forward closure over locals whose type still mentions the atomic
                changed = False
                for blk in b.blocks:
                    if blk.get("cleanup"):
                        continue
                    for st in blk["st"]:
                        if "lhs" in st and st["lhs"]["l"] not in taint and _is_atomic_ty(b.local_ty(st["lhs"]["l"])):
                            sl = Slice(F, b)
                            sl.rvalue(st["rv"])
                            if sl.seen & taint:
                                taint.add(st["lhs"]["l"])
                                changed = True
                    tt = blk["t"]
                    if tt["k"] == "call" and tt["dest"]["l"] not in taint and _is_atomic_ty(b.local_ty(tt["dest"]["l"])):
                        if any("p" in a and a["p"]["l"] in taint for a in tt["args"]):
                            taint.add(tt["dest"]["l"])
                            changed = True
            for (cbi, ct) in b.calls():
                k = callee_key(ct)
                targets = [tg for tg in F.resolve_targets(ct) if tg in F.bodies]
                for i, a in enumerate(ct["args"]):
                    if not ("p" in a and a["p"]["l"] in taint and k and targets):
                        continue
                    recipients.append(("::".join(core.name_variants(k)[0].split("::")[-2:]), i))
                    for tg in targets:
                        for gb in F.group_bodies(tg):
                            for (wbi, wt) in calls_matching(gb, ATOMIC_WRITE):
                                if any(x[0] == "rparam" and x[2] == i + 1 for x in XSlice(F, gb).operand(wt["args"][0]).sources):
                                    writers.append(fkey(tg))
                            for blk in gb.blocks:
                                for st in blk["st"]:
                                    rv = st.get("rv")
                                    if not (rv and rv["k"] == "agg" and "adt" in rv):
                                        continue
                                    for fname, o in zip(rv["fs"], rv["ops"]):
                                        if any(x[0] == "rparam" and x[2] == i + 1 for x in XSlice(F, gb).operand(o).sources):
                                            for bid2, b2 in F.bodies.items():
                                                if b2.crate in ("d_engine_core", "d_engine_server"):
                                                    for (w2, _t2) in field_receiver_calls(F, b2, rv["adt"].split("::")[-1], fname, ATOMIC_WRITE):
                                                        writers.append(fkey(F.root_of[bid2]))
    return writers, recipients


def run(ctx):
    F = ctx.F
    # ---------------------------------------------------------------- C24-a no silent gap after a lagged broadcast receiver
    run_fn = ctx.anchor(F.method, "WatchDispatcher", "run")
    if run_fn:
        mb = F.main_body(run_fn)
        conds = edge_conditions(mb)
        lag = [c for c in conds.values() if c.kind == "discr" and c.variants == {"Lagged"} and (c.adt or "").endswith("broadcast::error::RecvError")]
        ctx.floor("C24-a", len(lag), 1, "RecvError::Lagged arm in WatchDispatcher::run")
        recv = [bi for (bi, t) in calls_matching(mb, r"broadcast::Receiver::recv$")]
        ctx.floor("C24-a", len(recv), 1, "broadcast recv in WatchDispatcher::run")
        cancel = [bi for (bi, t) in mb.calls() if call_reaches_rx(F, t, r"watch::make_cancel_event$", ctx.depth)]
        for c in lag:
            start = c.edge["dst"]
            wit = must_pass(mb, start, recv, cancel, treat_exit_as_goal=False)
            ctx.check("C24-a", "%s#RecvError::Lagged" % fkey(run_fn), wit is None,
                      "after Lagged the dispatcher cancels the watchers or stops before receiving again",
                      "the RecvError::Lagged arm goes back to recv() without sending make_cancel_event to any watcher and without ending the dispatcher.  History: "
                      "event_queue_size = N, a burst of N+k committed writes is broadcast while the dispatcher is busy; the broadcast ring drops the k oldest events and recv() "
                      "returns Lagged(k); the arm only logs, so every watcher of those keys sees revisions r, r+k+1, ... with no CANCELED event: a silent gap",
                      loc(mb, start), wit and bpath(mb, wit))

    # ---------------------------------------------------------------- C24-b per-watcher overflow
    dm = ctx.anchor(F.method, "WatchDispatcher", "dispatch_to_map")
    if dm:
        mb = F.main_body(dm)
        conds = edge_conditions(mb)
        sends = calls_matching(mb, r"mpsc::bounded::Sender::(try_send|send|blocking_send|send_timeout)$")
        data = [(bi, t) for (bi, t) in sends if Slice(F, mb).operand(t["args"][1]).has_call(r"manager::proto_to_event$")]
        canc = [(bi, t) for (bi, t) in sends if Slice(F, mb).operand(t["args"][1]).has_call(r"watch::make_cancel_event$")]
        ctx.floor("C24-b", len(data), 1, "data send in dispatch_to_map")
        ctx.floor("C24-b", len(canc), 1, "cancel-sentinel send in dispatch_to_map")

        def is_cap(s):
            return s.has_call(r"mpsc::bounded::Sender::capacity$")

        def is_one(s):
            return s.consts() == ["1"] and not any(x[0] in ("call", "field", "param") for x in s.sources)

        def cap_rel(c):
            return cmp_rel(F, c, is_cap, is_one)
        for n, (bi, t) in enumerate(data):
            ok, wit, _ = guarded_by(mb, bi, lambda c: cap_rel(c) == ">", conds)
            ctx.check("C24-b", "%s#data-send[%d]#capacity>1" % (fkey(dm), n), ok,
                      "a data event is sent only while more than the reserved slot is free",
                      "a data event can be sent when capacity() <= 1: it takes the slot reserved for the CANCELED sentinel, so a later overflow cannot be signalled "
                      "(try_send(cancel) fails with Full and the watcher is unregistered silently)", loc(mb, bi), wit and bpath(mb, wit))
        # ------------------------------------------------------------ C24-f the fan-out visits every watcher
        # the loop that sends the data event iterates the watchers of one key; its only exit is the exhaustion of that
        # iterator: a `break` / `return` / `?` inside it (e.g. in the overflow branch of one slow watcher) leaves the
        # watchers registered after it without this event - a silent one-revision gap in a healthy stream
        for n, (bi, t) in enumerate(data):
            h, early = loop_early_exits(F, mb, bi)
            ctx.check("C24-f", "%s#data-send[%d]#fan-out-loop-single-exit" % (fkey(dm), n), h is not None and not early,
                      "the per-watcher loop around the data send is left only when the watcher iterator is exhausted",
                      ("the data send is not inside an iterator loop over the watchers" if h is None else
                       "the per-watcher fan-out loop can be left early at %s: watchers registered after that one never get the event being dispatched (no CANCELED either): "
                       "their stream has a silent gap" % [loc(mb, x) for (x, _y) in early[:3]]), loc(mb, bi))
        looped, nth = 0, {}
        for (croot, cbid, cbi, ct) in sorted(F.callers_of(lambda k: k == dm.id), key=lambda x: (x[0], x[1], x[2])):
            cb = F.bodies[cbid]
            if re.search(r"(_test|/tests?/)", cb.file or ""):
                continue
            h, early = loop_early_exits(F, cb, cbi)
            if h is None:
                # not in a recognised iterator loop: fine when the call is straight-line code (the exact-key dispatch), but a call
                # that sits on a cycle of another shape (index loop, `loop {}`) is a fan-out the rule cannot read
                again, _p = cb.reach_from(cb.term(cbi)["t"]) if cb.term(cbi).get("t") is not None else (set(), None)
                if cbi in again:
                    ctx.bad("C24-f", "%s#dispatch-loop#unrecognised" % fkey(croot), "UNRECOGNISED-FORM: dispatch_to_map is called inside a loop that is not an iterator / pop loop; "
                            "its exits cannot be checked", loc(cb, cbi))
                continue
            looped += 1
            nth[croot] = nth.get(croot, -1) + 1
            ctx.check("C24-f", "%s#dispatch-loop[%d]-single-exit" % (fkey(croot), nth[croot]), not early, "every key / prefix segment of the loop is dispatched",
                      "the loop over the key's prefix segments can be left early at %s: prefix watchers of the remaining segments miss the event" % [loc(cb, x) for (x, _y) in early[:3]],
                      loc(cb, cbi))
        ctx.floor("C24-f", looped, 2, "dispatch_to_map calls inside key / prefix-segment loops of its callers (3 today)")
        over = [c for c in conds.values() if cap_rel(c) == "<="]
        ctx.floor("C24-b", len(over), 1, "overflow branch (capacity() <= 1) in dispatch_to_map")
        pushes = [bi for (bi, t) in calls_matching(mb, r"Vec::push$")]
        unreg = calls_matching(mb, r"WatchRegistry::unregister$")
        ctx.floor("C24-b", len(unreg), 1, "unregister of dead watchers in dispatch_to_map")
        nxt = [bi for (bi, t) in calls_matching(mb, r"Iterator>?::next$|::next$")]
        # the defensive `capacity() == 0` case (edges that establish capacity != 1 / < 1) may skip the sentinel: no slot is left
        zero_escape = frozenset(eid for eid, c in conds.items() if cap_rel(c) in ("!=", "<"))
        for c in over:
            start = c.edge["dst"]
            # (1) overflow must queue the watcher for unregistration before the next watcher is looked at
            wit = must_pass(mb, start, nxt, pushes, treat_exit_as_goal=True)
            ctx.check("C24-b", "%s#overflow#unregister" % fkey(dm), wit is None, "an overflowing watcher is queued for unregistration",
                      "an overflowing watcher stays registered: it keeps receiving later events after having missed this one (gap without CANCELED)", loc(mb, start), wit and bpath(mb, wit))
            # (2) overflow must send the cancel sentinel before unregistering, unless capacity() != 1 (defensive 0 case)
            seen, parent = mb.reach_from(start, removed_edges=zero_escape, avoid_blocks=frozenset(b for b, _ in canc), stop_blocks=frozenset(pushes))
            hit = [p for p in pushes if p in seen]
            ctx.check("C24-b", "%s#overflow#cancel-before-unregister" % fkey(dm), not hit,
                      "with exactly the reserved slot left the CANCELED sentinel is sent before the watcher is dropped",
                      "on overflow (capacity() == 1) the watcher can be unregistered without the CANCELED sentinel: its stream just stops and the client cannot tell a gap from silence",
                      loc(mb, start), hit and bpath(mb, mb.path_to(parent, start, hit[0])))
    dr = ctx.anchor(F.method, "WatchRegistry", "do_register")
    if dr:
        ch = calls_matching(dr, r"mpsc::bounded::channel$|mpsc::channel$")
        ctx.floor("C24-b", len(ch), 1, "per-watcher channel creation in do_register")
        for (bi, t) in ch:
            s = Slice(F, dr).operand(t["args"][0])
            ctx.check("C24-b", "%s#channel-capacity" % fkey(dr), s.has_field("WatchRegistry", "watcher_buffer_size") and "1" in s.consts() and any(x[0] == "binop" and x[1].startswith("Add") for x in s.sources),
                      "channel capacity = watcher_buffer_size + 1 (one reserved slot)", "per-watcher channel is not created with watcher_buffer_size + 1: %s" % sorted(s.sources, key=str)[:5], loc(dr, bi))

    # ---------------------------------------------------------------- C24-c events only for committed mutations
    ac = ctx.anchor(F.method, "DefaultStateMachineHandler", "apply_chunk")
    if ac:
        mb = F.main_body(ac)
        conds = edge_conditions(mb)
        bw = calls_matching(mb, r"DefaultStateMachineHandler::broadcast_watch_events$")
        ctx.floor("C24-c", len(bw), 1, "broadcast_watch_events call in apply_chunk")
        for (bi, t) in bw:
            ok, wit, _ = guarded_by(mb, bi, lambda c: c.kind == "discr" and c.variants == {"Ok"} and cond_calls(F, c, r"StateMachine::apply_chunk$"), conds)
            ctx.check("C24-c", "%s#broadcast_watch_events#apply-Ok" % fkey(ac), ok, "events are broadcast only when StateMachine::apply_chunk returned Ok",
                      "watch events are broadcast although StateMachine::apply_chunk failed: watchers see a change that was never applied", loc(mb, bi), wit and bpath(mb, wit))
            ap = [b for (b, _t) in calls_matching(mb, r"StateMachine::apply_chunk$")]
            ctx.check("C24-c", "%s#broadcast_watch_events#after-apply" % fkey(ac), any(mb.dominates(a, bi) for a in ap), "broadcast follows the apply",
                      "broadcast_watch_events is not dominated by StateMachine::apply_chunk", loc(mb, bi))
    be = ctx.anchor(F.method, "DefaultStateMachineHandler", "broadcast_watch_events")
    if be:
        conds = edge_conditions(be)
        evs = agg_sites(be, "client::WatchResponse")
        ctx.floor("C24-c", len(evs), 3, "WatchResponse constructions in broadcast_watch_events")
        n_cas = 0
        for n, (bi, si, st) in enumerate(evs):
            s = Slice(F, be).operand(agg_field(st, "revision"))
            ctx.check("C24-c", "%s#WatchResponse[%d].revision" % (fkey(be), n), s.has_field("ApplyEntry", "index"), "revision = ApplyEntry.index",
                      "event revision is not the applied entry's index: %s" % sorted(s.sources, key=str)[:4], loc(be, bi))
            if guarded_by(be, bi, lambda c: c.kind == "discr" and c.variants == {"CompareAndSwap"}, conds)[0]:
                n_cas += 1

                def succeeded(c):
                    # direct form: `Some(r) if r.succeeded` / `if results[i].succeeded`
                    if c.truth is True and c.kind == "bool" and cond_slice(F, c).has_field("ApplyResult", "succeeded"):
                        return True
                    if c.truth is not True or c.kind != "call":
                        return False
                    xs = XSlice(F, be)
                    for a in c.call["args"]:
                        xs.operand(a)
                    reads = set()
                    for cid in xs.closures():
                        for cb in bodies_with_helpers(F, cid, 1):
                            reads |= fields_read(cb)
                    return any(a.endswith("ApplyResult") and f == "succeeded" for (a, f) in reads) and xs.has_param("results") or \
                        (any(a.endswith("ApplyResult") and f == "succeeded" for (a, f) in reads) and any(x[0] == "rparam" and x[2] == 3 for x in xs.sources))
                ok, wit, _ = guarded_by(be, bi, succeeded, conds)
                ctx.check("C24-c", "%s#CompareAndSwap#only-if-succeeded" % fkey(be), ok, "a CAS event is built only under results[i].succeeded",
                          "a CompareAndSwap entry produces a Put event without testing ApplyResult.succeeded: a failed CAS is reported to watchers as a change", loc(be, bi), wit and bpath(be, wit))
        ctx.floor("C24-c", n_cas, 1, "WatchResponse built in the CompareAndSwap arm")

    # ---------------------------------------------------------------- C24-d the progress revision atomic has a writer
    bp = ctx.anchor(F.method, "WatchDispatcher", "broadcast_progress")
    if bp:
        mb = F.main_body(bp)
        pr = [x for x in agg_sites(mb, "client::WatchResponse")]
        ctx.floor("C24-d", len(pr), 1, "Progress WatchResponse in broadcast_progress")
        for (bi, si, st) in pr:
            s = Slice(F, mb, through_calls=True).operand(agg_field(st, "revision"))
            ctx.check("C24-d", "%s#revision-source" % fkey(bp), s.has_field("WatchDispatcher", "last_applied") and s.has_call(r"atomic::Atomic\w*::load$"),
                      "Progress revision is loaded from WatchDispatcher.last_applied",
                      "Progress revision does not come from WatchDispatcher.last_applied: %s" % sorted(s.sources, key=str)[:4], loc(mb, bi))
    build = ctx.anchor(F.method, "NodeBuilder", "build")
    if build:
        writers, recipients = progress_atomic_writers(F, build)
        ctx.floor("C24-d", len([r for r in recipients if r[0].endswith("WatchDispatcher::new")]), 1, "the progress atomic is handed to WatchDispatcher::new in NodeBuilder::build")
        ctx.check("C24-d", "%s#progress-revision-atomic#has-writer" % fkey(build), bool(writers),
                  "the atomic behind Progress revisions is written at %s" % sorted(set(writers))[:3],
                  "the AtomicU64 handed to WatchDispatcher::new is never written: no store/fetch_* on WatchDispatcher.last_applied exists and the only workspace functions that "
                  "receive the Arc are %s (the state-machine handler keeps its own, separate last_applied counter).  History: node boots with last_applied = 100, a watcher "
                  "registers, entries 101..150 are applied and delivered with revisions 101..150, then the heartbeat sends Progress{revision: 100}: the stream's revision goes "
                  "backwards and a client that resumes from the last Progress revision replays 50 events" % sorted(set(recipients)),
                  "%s:%s" % (build.file, build.line))

    # ---------------------------------------------------------------- C24-e prefix format
    rp = ctx.anchor(F.method, "WatchRegistry", "register_prefix")
    if rp:
        conds = edge_conditions(rp)
        regs = calls_matching(rp, r"WatchRegistry::do_register$")
        ctx.floor("C24-e", len(regs), 1, "do_register call in register_prefix")
        for (bi, t) in regs:
            for nm in ("starts_with", "ends_with"):
                ok, wit, _ = guarded_by(rp, bi, lambda c: c.truth is True and cond_calls(F, c, r"::%s$" % nm), conds)
                ctx.check("C24-e", "%s#do_register#%s" % (fkey(rp), nm), ok, "prefix registered only when it %s '/'" % nm.replace("_", " "),
                          "register_prefix registers a prefix without the %s('/') check: prefix_segments only produces '/'-terminated candidates, so such a watcher never matches (or matches sibling keys)" % nm,
                          loc(rp, bi), wit and bpath(rp, wit))
