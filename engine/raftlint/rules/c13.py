"""C13 Read policy routing - structural clauses (DESIGN 4/C13).
Decides: (a) every place where a CLIENT-supplied read policy (ClientReadRequest.consistency_policy, a
`consistency` argument of a read handle, ReadCmd.consistency) selects how a read is served, on a
path that reaches a local state-machine read, is controlled by ReadConsistencyConfig.allow_client_override:
the dispatch is guarded by the flag being true in its own function or at every call site up to the
client-facing entry point (violations are keyed by the entry point's type); (b) the guard tables of
LeaderState::determine_read_policy (a policy constant is returned only under flag==true and the
same client variant; otherwise the server default) and of the non-leader push_client_cmd (local read
only for effective EventualConsistency; Propose/Scan always answered with an error; no other local
read); (c) exactly one override of RaftRoleState::push_client_cmd (LeaderState).
Necessary conditions, not the whole behaviour."""
from .helpers_r1 import *

EXPLANATION = __doc__

POLICY = "config::raft::ReadConsistencyPolicy"
# crate-private helper types (`pub(crate) struct`): a method of theirs that nobody calls is dead code, not an entry point
INTERNAL_TYPES = ("StandaloneReadHandle", "EmbeddedReadHandle")


def flag_true(F, c):
    return c.truth is True and cond_reads_field(F, c, "ReadConsistencyConfig", "allow_client_override")


def origin(F, body, s):
    """where a policy value comes from: request | readcmd | param:<idx> | server"""
    root = F.bodies[F.root_of[body.id]]
    if s.has_field("ReadCmd", "consistency"):
        return "readcmd"
    if s.has_field("ClientReadRequest", "consistency_policy"):
        # the request itself may travel through a parameter of this function
        for x in s.sources:
            if x[0] == "param" and x[1] >= 2 and not body.coroutine:
                return "request:%d" % x[1]
            if x[0] == "upvar":
                l = param_index(root, x[1])
                if l and l >= 2:
                    return "request:%d" % l
        return "request"
    for x in s.sources:
        if x[0] == "param" and x[1] >= 2 and not body.coroutine and body.kind != "Closure":
            return "param:%d" % x[1]
        if x[0] == "upvar":
            l = param_index(root, x[1])
            if l and l >= 2:
                return "param:%d" % l
    return "server"


def reaches_local_read(F, root):
    if "ReadConsistencyPolicy" in (F.bodies[root].local_ty(0) or ""):
        return True     # returns a policy: its callers route by it
    if F.fn_reaches(root, lambda k: re.search(SM_READ, strip_generics(k)) is not None, 5):
        return True
    return any(agg_sites(b, "read_actor::ReadCmd") for b in F.group_bodies(root))


def serves_locally(F, t):
    """the call reads the local state machine or hands the read to the ReadActor"""
    k = strip_generics(callee_key(t) or "")
    if re.search(SM_READ, k):
        return True
    for tg in F.resolve_targets(t):
        if F.fn_reaches(tg, lambda x: re.search(SM_READ, strip_generics(x)) is not None, 4) or any(agg_sites(gb, "read_actor::ReadCmd") for gb in F.group_bodies(tg)):
            return True
    return False


def run(ctx):
    F = ctx.F
    crates = ("d_engine_core", "d_engine_server")
    # ---------------------------------------------------------------- C13-a
    points = {}   # (body id, src block) -> (body, block, slice)
    for bid, b in F.bodies.items():
        if b.crate not in crates or is_test_body(b):
            continue
        root = F.root_of[bid]
        rb = F.bodies[root]
        if rb.impl_of and re.search(r"(Clone::clone|Debug::fmt|Serialize::serialize|From::from|PartialEq::eq|Default::default)$", strip_generics(rb.impl_of)):
            continue
        for eid, c in edge_conditions(b).items():
            if c.kind == "discr" and c.adt and strip_generics(c.adt).endswith(POLICY):
                k = (bid, c.edge["src"])
                if k not in points:
                    points[k] = (b, c.edge["src"], cond_slice(F, c))
    entries = {}     # entry type -> [description]
    guarded = []
    n_client = 0
    table_decided = []
    seen = set()

    def visit(b, bi, s, chain):
        """(b, bi): a site where a policy value with provenance s is consumed. returns nothing; records entries/guarded"""
        root = F.root_of[b.id]
        key = (b.id, bi)
        if key in seen or len(chain) > 6:
            return
        seen.add(key)
        conds = edge_conditions(b)
        ok, _w, _ = guarded_by(b, bi, lambda c: flag_true(F, c), conds)
        if not ok:
            # the order of `policy matches ..` and `flag` in one condition is irrelevant: what matters is that every
            # call in this function that serves locally, downstream of the dispatch, is under flag == true
            reach, _p = b.reach_from(bi)
            cons = [x for x, t in b.calls() if x in reach and x != bi and serves_locally(F, t)]
            ok = bool(cons) and all(guarded_by(b, x, lambda c: flag_true(F, c), conds)[0] for x in cons)
        if ok:
            guarded.append((root, b, bi, chain))
            return
        o = origin(F, b, s)
        if o == "server":
            return
        if o == "readcmd":
            for (ab, abi, asi, ast_) in all_agg_sites(F, "read_actor::ReadCmd", None, crates=crates):
                op = agg_field(ast_, "consistency")
                if op is not None and not is_test_body(ab):
                    visit(ab, abi, Slice(F, ab).operand(op), chain + [fkey(root)])
            return
        callers = [c for c in F.callers_of(lambda k: k == root) if c[0] != root and not is_test_body(F.bodies[c[1]])]
        if o == "request":
            entries.setdefault(self_type_of(F, root).split("::")[-1] or fkey(root), []).append((root, b, bi, chain))
            return
        idx = int(o.split(":")[1])
        lifted = False
        for (croot, cbid, cbi, ct) in callers:
            if idx - 1 >= len(ct["args"]):
                continue
            cb = F.bodies[cbid]
            cs = Slice(F, cb).operand(ct["args"][idx - 1])
            if o.startswith("request:"):
                cs.sources.add(("field", "d_engine_core::client::types::ClientReadRequest", "consistency_policy"))
            if origin(F, cb, cs) != "server" or guarded_by(cb, cbi, lambda c: flag_true(F, c), edge_conditions(cb))[0]:
                lifted = True
                visit(cb, cbi, cs, chain + [fkey(root)])
        if not lifted:
            # top of the chain: the policy parameter of this function is the client-facing input
            if not callers and not F.bodies[root].impl_of and self_type_of(F, root).split("::")[-1] in INTERNAL_TYPES:
                ctx.note("%s has no caller and belongs to a crate-private type: dead code, not an entry point" % fkey(root))
                ctx.assume("%s are pub(crate) types: their uncalled methods are unreachable" % (INTERNAL_TYPES,))
                return
            entries.setdefault(self_type_of(F, root).split("::")[-1] or fkey(root), []).append((root, b, bi, chain))

    for (bid, bi), (b, _bi, s) in sorted(points.items()):
        root = F.root_of[bid]
        if origin(F, b, s) == "server" or not reaches_local_read(F, root):
            continue
        n_client += 1
        if strip_generics(root) in ("d_engine_core::raft_role::role_state::RaftRoleState::push_client_cmd", "d_engine_core::raft_role::leader_state::LeaderState::determine_read_policy"):
            # decided exactly by the routing tables C13-d / C13-b#table (which fail closed when it cannot be built): the table is
            # insensitive to the order in which `policy matches ..` and the flag are tested, this guard analysis is not
            table_decided.append(fkey(root))
            continue
        visit(b, bi, s, [])
    ctx.floor("C13-a", n_client, 5, "dispatch points on a client-supplied read policy that reach a local read")
    if table_decided:
        ctx.note("C13-a: %d dispatch point(s) in %s are decided by the exact routing table C13-d instead of the guard analysis" % (len(table_decided), sorted(set(table_decided))))
    ctx.floor("C13-a", len(set(fkey(g[0]) for g in guarded) | set(table_decided)), 2, "client-policy dispatch points guarded by allow_client_override (positive control)")
    for root in sorted(set(g[0] for g in guarded)):
        g = [x for x in guarded if x[0] == root][0]
        ctx.ok("C13-a", "%s#client-policy-dispatch" % fkey(root), "client policy honoured only under allow_client_override == true"
               + (" (covers %s)" % "<-".join(g[3]) if g[3] else ""), loc(g[1], g[2]))
    for ty, lst in sorted(entries.items()):
        fns = sorted(set(fkey(x[0]) for x in lst))
        via = sorted(set("<-".join(x[3]) for x in lst if x[3]))
        (root, b, bi, chain) = lst[0]
        ctx.bad("C13-a", "%s#client-policy-read" % ty,
                "the client's read policy selects a local state-machine read and ReadConsistencyConfig.allow_client_override is never consulted between the entry "
                "point(s) %s and the read (via %s). Failing input: allow_client_override=false, default_policy=LinearizableRead, client asks "
                "EventualConsistency (or LeaseRead): the read is served from local state under the client's policy - on a follower too for Eventual - "
                "instead of the server default" % (fns, via or "the same function"), loc(b, bi))

    # ---------------------------------------------------------------- C13-b guard tables
    drp = ctx.anchor(F.method, "LeaderState", "determine_read_policy")
    if drp:
        conds = edge_conditions(drp)
        ret = Slice(F, drp).operand({"p": {"l": 0}})
        aggs = [(bi, si, st) for (bi, si, st) in agg_sites(drp, POLICY) if st["lhs"]["l"] in ret.seen or st["lhs"]["l"] == 0]
        ctx.floor("C13-b", len(aggs), 3, "policy constants returned by determine_read_policy")
        ctx.check("C13-b", "%s#default" % fkey(drp), ret.has_field("ReadConsistencyConfig", "default_policy"), "server default is a possible result",
                  "determine_read_policy never returns ReadConsistencyConfig.default_policy", "%s:%s" % (drp.file, drp.line))
        leader_policy_table(ctx, drp)
    dflt = ctx.anchor(F.fn, "d_engine_core::raft_role::role_state::RaftRoleState::push_client_cmd")
    if dflt:
        conds = edge_conditions(dflt)
        reads = [bi for bi, t in dflt.calls() if F.call_reaches(t, lambda k: re.search(SM_READ, strip_generics(k)) is not None, 4)]
        ctx.floor("C13-b", len(reads), 1, "local read in the non-leader push_client_cmd")
        for bi in reads:
            def eff_eventual(c):
                return c.kind == "discr" and c.variants == {"EventualConsistency"} and strip_generics(c.adt or "").endswith(POLICY) \
                    and origin(F, dflt, cond_slice(F, c)) == "server"
            ok, wit, _ = guarded_by(dflt, bi, eff_eventual, conds)
            okr, _w, _ = guarded_by(dflt, bi, lambda c: c.kind == "discr" and c.variants == {"Read"} and strip_generics(c.adt or "").endswith("ClientCmd"), conds)
            ctx.check("C13-b", "%s#local-read-only-eventual" % fkey(dflt), ok and okr, "non-leader reads locally only for effective EventualConsistency",
                      "a non-leader can read its local state machine without the effective policy being EventualConsistency (linearizable/lease read answered by a non-leader)",
                      loc(dflt, bi), wit and bpath(dflt, wit))
        # constants assigned to the effective policy from the client's request are taken only under the flag
        for (bi, si, st) in agg_sites(dflt, POLICY):
            v = st["rv"]["v"]
            okf, wit, _ = guarded_by(dflt, bi, lambda c: flag_true(F, c), conds)
            okv, _w, _ = guarded_by(dflt, bi, lambda c: c.kind == "discr" and c.variants == {v} and strip_generics(c.adt or "").endswith(POLICY)
                                    and cond_reads_field(F, c, "ClientReadRequest", "consistency_policy"), conds)
            ctx.check("C13-b", "%s#effective:%s" % (fkey(dflt), v), okf and okv, "client's %s adopted only under allow_client_override == true" % v,
                      "the non-leader adopts policy %s without allow_client_override == true / for another client policy" % v, loc(dflt, bi), wit and bpath(dflt, wit))
        # Propose / Scan: always an error reply
        errs = []
        for (bi, t) in calls_matching(dflt, r"MaybeCloneOneshotSender::send$"):
            s = Slice(F, dflt).operand(t["args"][1])
            if any(x[0] == "agg" and x[2] == "Err" for x in s.sources) and s.has_call(r"Status::failed_precondition$"):
                errs.append(bi)
        n = 0
        for eid, c in conds.items():
            if c.kind == "discr" and strip_generics(c.adt or "").endswith("ClientCmd") and c.variants and c.variants <= {"Propose", "Scan"}:
                n += 1
                w = must_pass(dflt, c.edge["dst"], [], errs, treat_exit_as_goal=True)
                ctx.check("C13-b", "%s#%s-rejected" % (fkey(dflt), "+".join(sorted(c.variants))), w is None,
                          "non-leader always answers failed_precondition", "a non-leader can return from the %s arm without sending a failed_precondition error" % sorted(c.variants),
                          loc(dflt, c.edge["src"]), w and bpath(dflt, w))
        ctx.floor("C13-b", n, 2, "Propose / Scan arms of the non-leader push_client_cmd")

    # ---------------------------------------------------------------- C13-c siblings
    tm = "d_engine_core::raft_role::role_state::RaftRoleState::push_client_cmd"
    impls = sorted(strip_generics(s).split("::")[-1] for (s, d) in F.impls_of_method.get(tm, []))
    roles = F.impls_of_method.get("d_engine_core::raft_role::role_state::RaftRoleState::become_leader", [])
    ctx.floor("C13-c", len(roles), 4, "RaftRoleState impls")
    ctx.check("C13-c", "RaftRoleState::push_client_cmd#overrides", impls == ["LeaderState"],
              "only LeaderState overrides push_client_cmd; the other roles use the checked default",
              "push_client_cmd is overridden by %s: a third routing implementation exists that these rules do not cover" % impls)


# ---------------------------------------------------------------------------------------------- C13-d
_run_abc = run


def run(ctx):
    _run_abc(ctx)
    non_leader_routing_table(ctx)


def non_leader_routing_table(ctx):
    """C13-d exact routing table of the non-leader push_client_cmd: over every combination of (command kind,
    client policy absent / EventualConsistency / LeaseRead / LinearizableRead, allow_client_override, server
    default) the command is served from the local state machine iff it is a Read whose EFFECTIVE policy is
    EventualConsistency, where effective = client's policy if present and the override flag is true, else the
    server default; every other combination is answered with an error and reads nothing. An explicit strong
    policy that silently falls back to an Eventual server default is a stale read answered as a strong one."""
    from . import common as C
    from .. import pathsym
    F = ctx.F
    dflt = F.fn("d_engine_core::raft_role::role_state::RaftRoleState::push_client_cmd")
    if not dflt:
        return
    mb = F.main_body(dflt)
    paths = C.table_of(ctx, "C13-d", mb, "non-leader push_client_cmd")
    if not paths:
        return
    tb0 = pathsym.Table(paths)
    is_f = lambda name: (lambda e: e[0] == "field" and (e[2] == name or e[2].split(".")[-1] == name))
    v_cmd = C.pick(list(tb0.vars), lambda e: e[0] == "param" and "Read" in tb0.vars[e], "cmd")
    v_cp = C.pick(list(tb0.vars), is_f("consistency_policy"), "request.consistency_policy")
    v_in = C.pick(list(tb0.vars), lambda e: e[0] == "field" and e[2].split(".")[-1] == "0" and is_f("consistency_policy")(e[1]), "client policy")
    v_def = C.pick(list(tb0.vars), is_f("default_policy"), "default_policy")
    b_flag = C.pick(tb0.bools, is_f("allow_client_override"), "allow_client_override")
    missing = [n for n, x in (("cmd", v_cmd), ("request.consistency_policy", v_cp), ("client policy variant", v_in), ("default_policy", v_def), ("allow_client_override", b_flag)) if x is None]
    stray = [C.sym_show(q) for q in tb0.quant] + [C.sym_show(b) for b in tb0.bools if b != b_flag] + [C.sym_show(v) for v in tb0.vars if v not in (v_cmd, v_cp, v_in, v_def)]
    key = "%s#routing-table" % fkey(dflt)
    if missing or stray:
        ctx.bad("C13-d", key, "UNRECOGNISED-FORM: non-leader routing does not depend on exactly (command, client policy, allow_client_override, default_policy): missing %s, unexpected %s"
                % (missing, stray), "%s:%s" % (mb.file, mb.line))
        return
    memo = {}

    def outcome(p, w):
        local = any(_reaches_read(F, e[0], memo) for e in p.effects)
        err = any(strip_generics(e[0]).endswith("Status::failed_precondition") for e in p.effects)
        sent = any(re.search(r"MaybeCloneOneshotSender::send$", strip_generics(e[0])) for e in p.effects)
        return "local" if local and not err else ("reject" if err and sent and not local else "other(local=%s,err=%s,sent=%s)" % (local, err, sent))

    PU = {"EventualConsistency", "LeaseRead", "LinearizableRead"}
    vu = {v_in: PU, v_def: PU, v_cp: {"Some", "None"}}

    def spec(w):
        if w.v[v_cmd] != "Read":
            return "reject"
        client = w.v[v_in] if w.v[v_cp] == "Some" else None
        eff = client if (client is not None and w.b[b_flag]) else w.v[v_def]
        return "local" if eff == "EventualConsistency" else "reject"
    C.run_table(ctx, "C13-d", key, paths, outcome, spec, "%s:%s" % (mb.file, mb.line), variant_universe=vu,
                what="served locally iff Read and effective policy (client's under allow_client_override, else server default) is EventualConsistency; otherwise rejected")


def leader_policy_table(ctx, drp):
    """C13-b exact table of LeaderState::determine_read_policy: the result is the client's own policy iff the request
    carries one AND allow_client_override is true, the server default in every other combination"""
    from . import common as C
    from .. import pathsym
    F = ctx.F
    key = "%s#table" % fkey(drp)
    paths = C.table_of(ctx, "C13-b", drp, "determine_read_policy")
    if not paths:
        return
    tb0 = pathsym.Table(paths)
    is_f = lambda name: (lambda e: e[0] == "field" and (e[2] == name or e[2].split(".")[-1] == name))
    v_cp = C.pick(list(tb0.vars), is_f("consistency_policy"), "request.consistency_policy")
    v_in = C.pick(list(tb0.vars), lambda e: e[0] == "field" and e[2].split(".")[-1] == "0" and is_f("consistency_policy")(e[1]), "client policy")
    b_flag = C.pick(tb0.bools, is_f("allow_client_override"), "allow_client_override")
    missing = [n for n, x in (("request.consistency_policy", v_cp), ("allow_client_override", b_flag)) if x is None]
    stray = [C.sym_show(q) for q in tb0.quant] + [C.sym_show(b) for b in tb0.bools if b != b_flag] + [C.sym_show(v) for v in tb0.vars if v not in (v_cp, v_in)]
    if missing or stray:
        ctx.bad("C13-b", key, "UNRECOGNISED-FORM: determine_read_policy does not depend on exactly (client policy, allow_client_override): missing %s, unexpected %s" % (missing, stray),
                "%s:%s" % (drp.file, drp.line))
        return
    PU = {"EventualConsistency", "LeaseRead", "LinearizableRead"}
    cp_expr = v_cp

    def outcome(p, w):
        r = pathsym.strip_refs(p.ret) if p.ret is not None else None
        if r is None:
            return "diverges"
        if r[0] == "agg":
            return ("policy", r[2])
        if pathsym.mentions(r, is_f("default_policy")):
            return "default"
        if pathsym.mentions(r, lambda e: e == cp_expr):
            return ("policy", w.v.get(v_in)) if v_in is not None else "client"
        return "other:%s" % C.sym_show(r)

    def spec(w):
        if w.v[v_cp] == "Some" and w.b[b_flag]:
            return ("policy", w.v[v_in]) if v_in is not None else "client"
        return "default"
    vu = {v_cp: {"Some", "None"}}
    if v_in is not None:
        vu[v_in] = PU
    C.run_table(ctx, "C13-b", key, paths, outcome, spec, "%s:%s" % (drp.file, drp.line), variant_universe=vu,
                what="leader's effective policy = client's policy iff present and allow_client_override, else the server default")


def _reaches_read(F, callee, memo):
    if callee not in memo:
        k = strip_generics(callee)
        if re.search(SM_READ, k):
            memo[callee] = True
        else:
            tg = [callee] if callee in F.bodies else [d for (_s, d) in F.impls_of_method.get(callee, [])]
            memo[callee] = any(F.fn_reaches(t, lambda x: re.search(SM_READ, strip_generics(x)) is not None, 4) for t in tg)
    return memo[callee]
