"""C16 Snapshot boundary matches content; install + replay reproduces the state (DESIGN 4/C16).
Decides:
 (a) in `create_snapshot` the LogId handed to `StateMachine::generate_snapshot_data` and stored in
     `SnapshotMetadata.last_included` is the state machine's applied id as read (`last_applied()`), with no
     arithmetic and no other source mixed in - the data captured is the CURRENT state, so any other label
     makes the installer apply the difference twice;
 (d) boundary and data come from one view: every lock `create_snapshot` holds from the `last_applied()`
     read to the `generate_snapshot_data` call must also be taken by the apply path (every caller of
     `StateMachine::apply_chunk`), otherwise an apply can land between the label and the copy;
 (b) install: every `apply_snapshot_from_file` impl sets last_applied from `metadata.last_included` and
     REPLACES the data (whole-map assignment / drop+recreate of the column family), never merges; an engine
     with a write-ahead log empties it on every successful install;
 (c) after a successful install the role calls `purge_logs_up_to(last_included)` with the installed
     metadata's boundary.
Necessary conditions, not the whole install/replay equivalence."""
from .common import *
from .helpers_r2 import *

EXPLANATION = __doc__

ARITH_CALL = r"core::num::(.*::)?(saturating|checked|wrapping|overflowing)_(sub|add|mul|div)$|ops::arith::(Sub|Add)::(sub|add)$"
LOCK_RX = r"(rwlock::RwLock|mutex::Mutex)::(read|write|lock)$"


def label_defects(sources):
    bad = []
    if not src_has_call(sources, r"StateMachine::last_applied$"):
        bad.append("does not derive from StateMachine::last_applied()")
    ar = sorted(set(strip_generics(x[1]).split("::")[-1] for x in sources if x[0] == "call" and re.search(ARITH_CALL, strip_generics(x[1]))) |
                set(x[1] for x in sources if x[0] == "binop" and x[1] in ("Sub", "SubWithOverflow", "Add", "AddWithOverflow")))
    if ar:
        bad.append("arithmetic %s" % ar)
    cfg = sorted(set("%s.%s" % (strip_generics(x[1]).split("::")[-1], x[2]) for x in sources if x[0] == "field" and "config" in strip_generics(x[1])))
    if cfg:
        bad.append("configuration value %s" % cfg)
    other = sorted(set(strip_generics(x[1]).split("::")[-1] for x in sources if x[0] == "call" and re.search(r"StateMachine::(entry_term|len|get)$", strip_generics(x[1]))))
    if other:
        bad.append("mixed with %s()" % other)
    return bad


def run(ctx):
    F = ctx.F
    cs = ctx.anchor(F.method, "DefaultStateMachineHandler", "create_snapshot")
    if cs:
        mb = F.main_body(cs)
        gens = calls_matching(mb, r"StateMachine::generate_snapshot_data$")
        reads = calls_matching(mb, r"StateMachine::last_applied$")
        ctx.floor("C16-a", len(gens), 1, "generate_snapshot_data call in create_snapshot")
        ctx.floor("C16-a", len(reads), 1, "last_applied() read in create_snapshot")
        hist = ("History (retained_log_entries=2, validation forces >=1): x=0; applied 1..12 with 11=CAS(x:1->2) [fails], 12=CAS(x:0->1) [x=1]; "
                "snapshot is labelled last_included=10 but contains x=1; a lagging node installs it, sets applied=10 and replays 11,12 "
                "on x=1: CAS(1->2) succeeds, CAS(0->1) fails -> x=2 on that replica, x=1 elsewhere")
        for (gi, gt) in gens:
            s = Slice(F, mb).operand(gt["args"][2]).sources
            d = label_defects(s)
            ctx.check("C16-a", "%s#generate_snapshot_data.last_included" % fkey(cs), not d,
                      "the boundary handed to the state machine is the applied id as read",
                      "the snapshot boundary is not the applied id the captured state corresponds to: %s. %s" % ("; ".join(d), hist), loc(mb, gi))
        metas = agg_sites(mb, "SnapshotMetadata")
        ctx.floor("C16-a", len(metas), 1, "SnapshotMetadata returned by create_snapshot")
        for (bi, _si, st) in metas:
            ms = Slice(F, mb).operand(agg_field(st, "last_included"))
            same = any(shares_value(ms, Slice(F, mb).operand(gt["args"][2])) for (_gi, gt) in gens)
            ctx.check("C16-a", "%s#SnapshotMetadata.last_included" % fkey(cs), same,
                      "returned metadata carries the very LogId that was handed to generate_snapshot_data",
                      "SnapshotMetadata.last_included is not the LogId handed to generate_snapshot_data: the file name / metadata and the "
                      "state machine disagree about the boundary", loc(mb, bi))
        # ------------------------------------------------------------ C16-d one pinned view
        held = []
        for (li, lt) in calls_matching(mb, LOCK_RX):
            fl = [x for x in Slice(F, mb).operand(lt["args"][0]).sources if x[0] == "field" and strip_generics(x[1]).endswith("DefaultStateMachineHandler")]
            if fl and all(mb.dominates(li, ri) for (ri, _t) in reads) and all(mb.dominates(li, gi) for (gi, _t) in gens):
                held.append(fl[0][2])
        appliers = [x for x in F.callers_of(lambda k: strip_generics(k).endswith("state_machine::StateMachine::apply_chunk"))
                    if F.bodies[x[1]].crate in ("d_engine_core", "d_engine_server")]
        ctx.floor("C16-d", len(appliers), 1, "callers of StateMachine::apply_chunk")
        for (root, bid, bi, _t) in appliers:
            b = F.bodies[bid]
            taken = set()
            for (li, lt) in calls_matching(b, LOCK_RX):
                if b.dominates(li, bi):
                    taken |= set(x[2] for x in Slice(F, b).operand(lt["args"][0]).sources if x[0] == "field")
            common = sorted(set(held) & taken)
            ctx.check("C16-d", "%s#excluded-while-snapshotting" % fkey(root), bool(common),
                      "apply takes %s, which create_snapshot holds from the boundary read to the data capture" % common,
                      "create_snapshot holds %s between reading last_applied() and generate_snapshot_data, but this apply path takes none of "
                      "them (create_snapshot runs in a spawned task next to the state-machine worker). History: boundary read = 10; the worker "
                      "applies 11=CAS(x:0->1); generate_snapshot_data copies x=1; the snapshot says 10 and contains 11: an installer replays 11 "
                      "(and whatever follows) on top of it" % (sorted(held) or "no lock"), loc(b, bi))

    # ---------------------------------------------------------------- C16-b install
    impls = trait_impls(F, SM_TRAIT + "apply_snapshot_from_file")
    ctx.floor("C16-b", len(impls), 2, "impls of StateMachine::apply_snapshot_from_file")
    for root in impls:
        ty = strip_generics(root.self_ty or "")
        short_ty = ty.split("::")[-1]
        fns = [f for f in closure_functions(F, root.id, 4) if self_type_of(F, f) == ty]
        sets, whole, inserts, drops, creates = [], [], [], [], []
        for fid in fns:
            for b in real_bodies(F, fid):
                for (bi, t) in calls_matching(b, r"::update_last_applied$"):
                    if len(t["args"]) > 1:
                        sets.append((b, bi, slice_up(F, b, t["args"][1])))
                for bi, blk in enumerate(b.blocks):
                    if blk.get("cleanup"):
                        continue
                    for st in blk["st"]:
                        if "lhs" in st and st["lhs"].get("pj") == ["*"] and st["rv"]["k"] == "use":
                            s = Slice(F, b, through_calls=True).place(st["lhs"])
                            if s.has_field(short_ty, "data"):
                                whole.append((b, bi))
                for (bi, t) in calls_matching(b, r"Map::insert$"):
                    if recv_has_self_field(F, b, t, short_ty, "data"):
                        inserts.append((b, bi))
                drops += [(b, bi) for (bi, _t) in calls_matching(b, r"rust_rocksdb::.*::drop_cf$")]
                creates += [(b, bi) for (bi, _t) in calls_matching(b, r"rust_rocksdb::.*::(create_cf|create_column_family_with_import)$")]
        ok_set = any(src_has_field(s, "SnapshotMetadata", "last_included") for (_b, _bi, s) in sets)
        ctx.check("C16-b", "%s#last_applied=metadata.last_included" % fkey(root), ok_set, "install sets last_applied from metadata.last_included",
                  "apply_snapshot_from_file does not set last_applied from metadata.last_included (%d update_last_applied call(s)): after the "
                  "install the node re-applies or skips entries around the boundary" % len(sets), "%s:%s" % (root.file, root.line))
        if drops or creates:
            ok_rep = bool(drops) and bool(creates) and all(any(b1 is b2 and b1.dominates(d, c) for (b1, d) in drops) for (b2, c) in creates)
            how = "every column-family (re)creation is dominated by a drop_cf"
        else:
            ok_rep = bool(whole) and not inserts
            how = "the map behind self.data is assigned as a whole and never inserted into"
        ctx.check("C16-b", "%s#replace-not-merge" % fkey(root), ok_rep, how,
                  "the install merges the snapshot into the existing data instead of replacing it (whole assignments: %d, inserts into "
                  "self.data: %d, drop_cf: %d, create: %d): keys deleted before the boundary survive on the installing node" %
                  (len(whole), len(inserts), len(drops), len(creates)), "%s:%s" % (root.file, root.line))

        # the install replaces the WAL too: an engine that replays a write-ahead log at start (it has a `replay_wal`) must empty
        # that log as part of the install, after the new data and applied index are persisted - records written BEFORE the
        # install describe entries at or below the boundary; replayed over the snapshot state at the next start they bring back
        # values the snapshot had overwritten or deleted
        has_wal = [f for f in F.bodies.values() if f.parent is None and f.self_ty and strip_generics(f.self_ty) == ty and re.search(r"::replay_wal$", strip_generics(f.id))]
        if has_wal:
            mbi = F.main_body(root)
            clears = [bi for (bi, t) in mbi.calls() if F.call_reaches(t, lambda k: re.search(r"::clear_wal(_async)?$", strip_generics(k)) is not None, 2)]
            # a call of a helper that merely CONTAINS the word in a comment does not count: call_reaches works on resolved callees
            errs = [x for x, tt in mbi.calls() if "from_residual" in (callee_key(tt) or "")]
            errs += [bi for (bi, si, st) in return_aggs(mbi) if st["rv"]["k"] == "agg" and st["rv"].get("v") == "Err"]
            wit = must_pass(mbi, 0, [], clears + errs, treat_exit_as_goal=True) if clears else [0]
            ctx.check("C16-b", "%s#install-empties-the-WAL" % fkey(root), bool(clears) and wit is None,
                      "every successful install empties the write-ahead log",
                      "apply_snapshot_from_file can return Ok without emptying the WAL: the records the node wrote before the install (indexes at or below the boundary, not yet "
                      "checkpointed) survive; the next start loads the snapshot state and replays them on top - overwritten keys revert, deleted keys come back, while "
                      "last_applied stays at the boundary", "%s:%s" % (root.file, root.line), wit and clears and bpath(mbi, wit))

    # ---------------------------------------------------------------- C16-c purge to the boundary after install
    sites = [x for x in F.callers_of(lambda k: strip_generics(k).endswith("StateMachineHandler::apply_snapshot_stream_from_leader"))
             if F.bodies[x[1]].crate == "d_engine_core" and "StateMachineHandler" not in fkey(x[0]).split("::")[0]]
    ctx.floor("C16-c", len(sites), 3, "callers of apply_snapshot_stream_from_leader (follower, learner x2)")
    seen = {}
    for (root, bid, bi, t) in sites:
        b = F.bodies[bid]
        conds = edge_conditions(b)
        good = None
        for (pi, pt) in calls_matching(b, r"RaftLog::purge_logs_up_to$"):
            if path_avoiding(b, bi, [pi]) is None:
                continue
            s = Slice(F, b).operand(pt["args"][1])
            from_meta = s.has_call(r"get_latest_snapshot_metadata$") and s.has_field("SnapshotMetadata", "last_included")
            err_only, _w, _ = guarded_by(b, pi, lambda c: c.kind == "discr" and c.variants == {"Err"} and cond_calls(F, c, r"apply_snapshot_stream_from_leader$"), conds)
            if from_meta and not err_only:
                good = pi
        n = seen.get(fkey(root), 0)
        seen[fkey(root)] = n + 1
        ctx.check("C16-c", "%s#install[%d]#purge_logs_up_to" % (fkey(root), n), good is not None,
                  "a successful install is followed by purge_logs_up_to(installed last_included)",
                  "after apply_snapshot_stream_from_leader succeeds the log boundary is not moved to the installed snapshot's last_included: "
                  "last_log_id() stays behind the state machine and the leader is asked to resend entries the snapshot already contains",
                  loc(b, bi))
