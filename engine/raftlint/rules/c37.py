"""C37 Client writes are applied exactly as submitted - field-flow tables (DESIGN 4/C37).
Decides, by value provenance over the converters a write passes through
(API constructor -> [proto WriteCommand -> core WriteOperation ->] proto WriteCommand -> log bytes ->
WriteCommand -> Command):
(a) in `write_command_to_op`, `write_op_to_proto` and `TryFrom<WriteCommand> for Command` every output data
    field is a pure move/clone of exactly the corresponding input field (key->key, value->value,
    expected->expected_value->expected, new_value->new_value->value): no constant, no other field, no
    computing call;  (b) every output variant is built only in the arm of the same input variant;
(c) the TTL convention is the same in all three: proto 0 <=> core None, any other value is passed unchanged;
(d) `client_command_to_entry_payloads` puts the bytes of `WriteCommand::encode` of its input into
    Payload::Command and `decode_entries` feeds those bytes to `WriteCommand::decode` and the result to
    `Command::try_from` (same message type on both sides); the leader's write path encodes
    `write_op_to_proto(cmd)`;  (e) the API constructors (proto `WriteCommand::{insert,insert_with_ttl,delete,
    compare_and_swap}`, their GrpcClient callers, EmbeddedClient) place each API parameter into the field of
    the same role.  These are necessary conditions (a wrong table entry loses or swaps a field for every
    input), not the whole behaviour: prost's encode/decode and `Bytes` copies are trusted.
Observation (not a rule): Some(0) and None are indistinguishable after encoding."""
from .common import *

EXPLANATION = __doc__
CRATES = ("d_engine_core", "d_engine_server", "d_engine_client", "d_engine_proto")

P_INS, P_DEL, P_CAS = "write_command::Insert", "write_command::Delete", "write_command::CompareAndSwap"
WRAPPERS = (("client::WriteCommand", "operation"), ("write_command::Operation", "0"), ("option::Option", "0"))
COPY = re.compile(r"^(bytes::bytes::Bytes::copy_from_slice|core::convert::AsRef::as_ref|<.* as core::convert::AsRef<.*>>::as_ref)$")
# converter -> out variant -> (input adt holding the fields, input variant tested, {out field: in field})
TABLES = {
    "write_command_to_op": ("WriteOperation", {
        "Insert": (P_INS, "Insert", {"key": "key", "value": "value"}),
        "Delete": (P_DEL, "Delete", {"key": "key"}),
        "CompareAndSwap": (P_CAS, "CompareAndSwap", {"key": "key", "expected": "expected_value", "new_value": "new_value"})}),
    "try_from": ("command::Command", {
        "Insert": (P_INS, "Insert", {"key": "key", "value": "value"}),
        "Delete": (P_DEL, "Delete", {"key": "key"}),
        "CompareAndSwap": (P_CAS, "CompareAndSwap", {"key": "key", "expected": "expected_value", "value": "new_value"})}),
    "write_op_to_proto": (None, {
        "Insert": ("WriteOperation", "Insert", {"key": "key", "value": "value"}),
        "Delete": ("WriteOperation", "Delete", {"key": "key"}),
        "CompareAndSwap": ("WriteOperation", "CompareAndSwap", {"key": "key", "expected_value": "expected", "new_value": "new_value"})}),
}


def ends(adt, suffix):
    a = strip_generics(adt)
    return a == suffix or a.endswith("::" + suffix)


def impurities(s, extra_ok=None, consts_ok=()):
    """sources of a slice that are not a plain move/clone: computing calls, constants, arithmetic"""
    bad = []
    for x in s.sources:
        if x[0] == "call" and not core.TRANSPARENT.match(x[1]) and not (extra_ok and extra_ok.match(x[1])):
            bad.append("call %s" % strip_generics(x[1]).split("::")[-1])
        elif x[0] == "const" and str(x[1]) not in consts_ok:
            bad.append("const %s" % (x[1],))
        elif x[0] in ("binop", "unop"):
            bad.append("%s %s" % (x[0], x[1]))
    return sorted(set(bad))


def data_fields(s):
    return set((strip_generics(x[1]), x[2]) for x in s.sources
               if x[0] == "field" and not any(ends(x[1], a) and x[2] == f for (a, f) in WRAPPERS))


def pure_from(F, body, op, in_adt, in_field, consts_ok=()):
    s = Slice(F, body).operand(op)
    df = data_fields(s)
    imp = impurities(s, consts_ok=consts_ok)
    ok = len(df) == 1 and all(ends(a, in_adt) and f == in_field for (a, f) in df) and not imp
    return ok, "fields=%s impure=%s" % (sorted("%s.%s" % (a.split("::")[-1], f) for a, f in df), imp), s


def site_guarded(F, conv, b, bi, pred):
    """aggregate guarded in its own body, or (extracted helper) every call from the converter reaching it is"""
    if guarded_by(b, bi, pred)[0]:
        return True
    if b is conv:
        return False
    root = F.root_of[b.id]
    sites = [x for x, t in conv.calls() if F.call_reaches(t, lambda k: k == root, 4)]
    return bool(sites) and all(guarded_by(conv, x, pred)[0] for x in sites)


def reach_bodies(F, fn):
    out = []
    for r in closure_functions(F, fn.id, 3):
        if r in F.bodies and F.bodies[r].crate.startswith("d_engine"):
            if "core::clone::Clone" in r or "core::default::Default" in r:
                continue
            out += F.group_bodies(r)
    return out


def zero_rel(F, c, in_adt):
    """'zero' / 'nonzero' / None: what this branch edge establishes about <in_adt>.ttl_secs"""
    def is_t(s):
        return s.has_field(in_adt, "ttl_secs")

    def is_k(s):
        return s.consts() in (["0"], ["1"]) and not any(x[0] in ("field", "param", "call") for x in s.sources)
    r = cmp_rel(F, c, is_t, is_k)
    if r:
        k = (Slice(F, c.body).operand(c.a).consts() + Slice(F, c.body).operand(c.b).consts())
        k = [x for x in k if x in ("0", "1")][0]
        return {("==", "0"): "zero", ("<=", "0"): "zero", ("<", "1"): "zero",
                ("!=", "0"): "nonzero", (">", "0"): "nonzero", (">=", "1"): "nonzero"}.get((r, k))
    if c.kind == "int" and cond_slice(F, c).has_field(in_adt, "ttl_secs"):
        listed = set(v for v, _ in c.body.term(c.edge["src"])["ts"])
        if c.vals == ["0"]:
            return "zero"
        if c.vals == ["else"] and listed == {"0"}:
            return "nonzero"
    return None


def api_flow(F, body, op):
    """(API parameter positions (1-based, receiver excluded) an operand derives from, impurities)"""
    s = Slice(F, body, through_calls=True).operand(op)
    imp = impurities(s, extra_ok=COPY)
    pos = set()
    root = F.bodies[F.root_of[body.id]]
    shift = 1 if root.argc >= 1 and root.local_name(1) == "self" else 0
    names = dict((root.local_name(i), i - shift) for i in range(1, root.argc + 1))
    for x in s.sources:
        if x[0] == "param" and body.parent is None:
            pos.add(x[1] - shift)
        elif x[0] == "upvar":
            pos.add(names.get(x[1], "?%s" % x[1]))
        elif x[0] == "closure":  # per-element closure (Option::map): must itself be a pure copy of its argument
            cb = F.bodies.get(x[1])
            if cb is None:
                imp.append("closure ?")
                continue
            if any(st["rv"]["k"] == "agg" for (bi, si, st) in return_aggs(cb)):
                imp.append("closure builds a value")
            cs = Slice(F, cb, through_calls=True).place({"l": 0})
            imp += impurities(cs, extra_ok=COPY)
            if any(y[0] == "upvar" for y in cs.sources):
                imp.append("closure captures")
    pos.discard(0)  # receiver
    return pos, sorted(set(imp))


def run(ctx):
    F = ctx.F
    convs = {
        "write_command_to_op": ctx.anchor(F.fn, "proto_convert::write_command_to_op"),
        "write_op_to_proto": ctx.anchor(F.fn, "leader_state::write_op_to_proto"),
        "try_from": ctx.anchor(F.method, "command::Command", "try_from"),
    }
    # ------------------------------------------------------------ C37-a / C37-b field tables, variant arms
    sentinel = {}
    for name, fn in convs.items():
        if not fn:
            continue
        out_adt, table = TABLES[name]
        bodies = reach_bodies(F, fn)
        n_fields = 0
        for v, (in_adt, in_var, fmap) in table.items():
            oa = out_adt or in_var_adt(v)
            sites = [(b, bi, si, st) for b in bodies for (bi, si, st) in agg_sites(b, oa, v)]
            ctx.floor("C37-b", len(sites), 1, "%s: construction of %s::%s" % (name, oa, v))
            for (b, bi, si, st) in sites:
                key = "%s#%s" % (fkey(fn), v)
                disc = "Operation" if name != "write_op_to_proto" else "WriteOperation"
                ok = site_guarded(F, fn, b, bi, lambda c: c.kind == "discr" and c.variants == {in_var} and ends(c.adt or "", disc))
                ctx.check("C37-b", key, ok, "built only in the %s arm of the input" % in_var,
                          "output variant %s is constructed outside the `%s` arm of the input: a submitted %s-operation of another kind "
                          "would be applied as %s" % (v, in_var, disc, v), loc(b, bi))
                unknown = [f for f in st["rv"]["fs"] if f not in fmap and f != "ttl_secs"]
                ctx.check("C37-a", key + "#fields", not unknown, "all output fields are covered by the table",
                          "output fields %s have no entry in the field-flow table (new field: extend the rule)" % unknown, loc(b, bi))
                for of, inf in fmap.items():
                    o = agg_field(st, of)
                    if o is None:
                        ctx.bad("C37-a", key + "." + of, "output field %s missing from the aggregate" % of, loc(b, bi))
                        continue
                    n_fields += 1
                    okf, why, _s = pure_from(F, b, o, in_adt, inf)
                    ctx.check("C37-a", key + "." + of, okf, "%s <- %s.%s (move/clone only)" % (of, in_adt.split("::")[-1], inf),
                              "output %s.%s is not exactly the input field %s.%s (%s): e.g. a submitted %s with key=k,value=v,expected=e reaches "
                              "the state machine with a different %s" % (v, of, in_adt.split("::")[-1], inf, why, v, of), loc(b, bi))
                # ---------------------------------------------------- C37-c TTL convention
                if v == "Insert":
                    o = agg_field(st, "ttl_secs")
                    tkey = "%s#Insert.ttl_secs" % fkey(fn)
                    if o is None:
                        ctx.bad("C37-c", tkey, "Insert built without ttl_secs", loc(b, bi))
                        continue
                    if name == "write_op_to_proto":
                        okf, why, s = pure_from(F, b, o, "WriteOperation", "ttl_secs", consts_ok=("0",))
                        sentinel[name] = s.consts() or (["0"] if s.has_call(r"unwrap_or_default$") else [])
                        ctx.check("C37-c", tkey, okf and sentinel[name] == ["0"], "ttl_secs = core ttl or 0 for None",
                                  "proto ttl_secs is not `core ttl_secs, None -> 0` (%s, default=%s): put_with_ttl(k,v,t) would be stored with "
                                  "another expiry" % (why, sentinel[name]), loc(b, bi))
                    else:
                        s = Slice(F, b).operand(o)
                        opts = [(x, y, z) for (x, y, z) in agg_sites(b, "option::Option") if z["lhs"]["l"] in s.seen]
                        somes = [x for x in opts if x[2]["rv"]["v"] == "Some"]
                        nones = [x for x in opts if x[2]["rv"]["v"] == "None"]
                        ctx.floor("C37-c", len(somes), 1, "%s: Some(ttl) feeding Insert.ttl_secs" % name)
                        ctx.floor("C37-c", len(nones), 1, "%s: None feeding Insert.ttl_secs" % name)
                        conds = edge_conditions(b)
                        for (x, y, z) in somes:
                            okp, why, _ = pure_from(F, b, z["rv"]["ops"][0], P_INS, "ttl_secs")
                            okg, wit, _ = guarded_by(b, x, lambda c: zero_rel(F, c, P_INS) == "nonzero", conds)
                            ctx.check("C37-c", tkey + "#Some", okp and okg, "Some(proto ttl) only under proto ttl != 0",
                                      "core ttl Some(..) is not `Some(proto ttl_secs)` under `ttl_secs != 0` (%s, guarded=%s): a put with "
                                      "ttl t>0 gets another expiry, or ttl 0 (= no expiry on the wire) becomes Some" % (why, okg), loc(b, x), wit and bpath(b, wit))
                        for (x, y, z) in nones:
                            okg, wit, _ = guarded_by(b, x, lambda c: zero_rel(F, c, P_INS) == "zero", conds)
                            ctx.check("C37-c", tkey + "#None", okg, "None only under proto ttl == 0",
                                      "core ttl None reachable when proto ttl_secs != 0: put_with_ttl(k,v,t>0) is applied without expiry", loc(b, x), wit and bpath(b, wit))
                        sentinel[name] = ["0"] if somes and nones else []
        ctx.floor("C37-a", n_fields, sum(len(t[2]) for t in table.values()), "%s: data fields checked" % name)
    ctx.check("C37-c", "ttl-sentinel-agrees", len(sentinel) == 3 and all(v == ["0"] for v in sentinel.values()),
              "all three converters use proto 0 <=> core None", "the converters disagree on the TTL sentinel: %s" % sentinel)
    ctx.note("Some(0) and None are indistinguishable after write_op_to_proto (documented: 0 = no expiry); recorded, not a rule")

    # ------------------------------------------------------------ C37-d wire wrap / unwrap
    def self_is_wc(t):
        return ends(t["f"].get("self") or "", "client::WriteCommand")
    enc = ctx.anchor(F.fn, "replication_handler::client_command_to_entry_payloads")
    if enc:
        sites = [(b, bi, si, st) for b in reach_bodies(F, enc) for (bi, si, st) in agg_sites(b, "entry_payload::Payload", "Command")]
        ctx.floor("C37-d", len(sites), 1, "Payload::Command built by client_command_to_entry_payloads")
        for (b, bi, si, st) in sites:
            s = Slice(F, b, through_calls=True).operand(st["rv"]["ops"][0])
            encs = [(x, t) for (x, t) in calls_matching(b, r"prost::message::Message::encode(_to_vec)?$") if self_is_wc(t)]
            ok = False
            why = "no WriteCommand::encode call"
            for (x, t) in encs:
                src = Slice(F, b).operand(t["args"][0])
                from_input = any(y[0] == "param" for y in src.sources)
                if len(t["args"]) > 1:
                    buf = Slice(F, b).operand(t["args"][1]).seen
                    same = bool(buf & s.seen) and b.dominates(x, bi)
                else:
                    same = t["dest"]["l"] in s.seen
                ok = ok or (from_input and same)
                why = "encode input from the mapped command=%s, payload is the encode buffer=%s" % (from_input, same)
            ctx.check("C37-d", "%s#Payload::Command" % fkey(enc), ok and not s.consts(),
                      "payload bytes = WriteCommand::encode(command)", "Payload::Command is not the encoding of the submitted WriteCommand (%s)" % why, loc(b, bi))
    dec = ctx.anchor(F.fn, "command::decode_entries")
    if dec:
        b = dec
        decs = [(x, t) for (x, t) in calls_matching(b, r"prost::message::Message::decode$")]
        ctx.floor("C37-d", len(decs), 1, "Message::decode in decode_entries")
        for (x, t) in decs:
            s = Slice(F, b, through_calls=True).operand(t["args"][0])
            partial = [x for x in s.sources if x[0] == "agg" and "ops::range::Range" in x[1] and not x[1].endswith("RangeFull")]
            ok = self_is_wc(t) and s.has_field("entry_payload::Payload", "0") and not s.consts() and not partial
            g, wit, _ = guarded_by(b, x, lambda c: c.kind == "discr" and c.variants == {"Command"} and ends(c.adt or "", "entry_payload::Payload"))
            ctx.check("C37-d", "%s#decode" % fkey(dec), ok and g, "Payload::Command bytes decoded as WriteCommand (the encoded type)",
                      "decode_entries does not decode the whole Payload::Command bytes as client::WriteCommand (self=%s, from payload=%s, Command arm=%s): "
                      "the applied command differs from the encoded one" % (t["f"].get("self"), s.has_field("entry_payload::Payload", "0"), g), loc(b, x))
        tf = [(x, t) for (x, t) in b.calls() if convs["try_from"] and F.call_reaches(t, lambda k: k == convs["try_from"].id, 3)]
        ctx.floor("C37-d", len(tf), 1, "Command::try_from in decode_entries")
        for (x, t) in tf:
            s = Slice(F, b).operand(t["args"][0])
            ctx.check("C37-d", "%s#try_from" % fkey(dec), s.has_call(r"Message::decode$") and not s.consts(), "Command::try_from(decoded WriteCommand)",
                      "Command::try_from is not fed the decoded WriteCommand", loc(b, x))
        # the ApplyEntry of a Payload::Command entry carries the converted command: either the ApplyEntry is built inside the
        # Command arm, or one ApplyEntry is built after the match from a per-arm `command` value - in both forms the value that
        # reaches ApplyEntry.command from the Command arm is the result of try_from and no Command literal is built in that arm
        cconds = edge_conditions(b)
        arm_entries = [c.edge["dst"] for c in cconds.values() if c.kind == "discr" and c.variants == {"Command"} and ends(c.adt or "", "entry_payload::Payload")]
        ctx.floor("C37-d", len(arm_entries), 1, "Payload::Command arm in decode_entries")
        cmd_aggs = []
        for e in arm_entries:
            nxt = frozenset(x for (x, _t) in calls_matching(b, r"Iterator::next$"))     # stay inside one iteration of `for entry in entries`
            reach, _p = b.reach_from(e, stop_blocks=nxt)
            for (bi, si, st) in agg_sites(b, "command::ApplyEntry"):
                if bi in reach and (bi, si, st, e) not in cmd_aggs:
                    cmd_aggs.append((bi, si, st, e))
        ctx.floor("C37-d", len(cmd_aggs), 1, "ApplyEntry built in (or after) the Payload::Command arm")
        for (bi, si, st, e) in cmd_aggs:
            s = Slice(F, b).operand(agg_field(st, "command"))
            conv = [x for (x, t) in b.calls() if re.search(r"TryFrom.*::try_from$|::try_from$", strip_generics(callee_key(t) or "")) and b.dominates(e, x) and t["dest"]["l"] in s.seen]
            literal = [x for (x, _si, _st) in agg_sites(b, "command::Command") if b.dominates(e, x)]
            ctx.check("C37-d", "%s#ApplyEntry.command" % fkey(dec), bool(conv) and not literal,
                      "ApplyEntry.command = Command::try_from(..)", "the command applied for a Payload::Command entry is not the converted WriteCommand", loc(b, bi))
    # the leader's write path encodes write_op_to_proto(cmd)
    callers = [c for c in F.callers_of(lambda k: enc is not None and k == enc.id) if F.bodies[c[1]].crate != "d_engine_proto" and not is_test_id(c[0])]
    ctx.floor("C37-d", len(callers), 1, "callers of client_command_to_entry_payloads")
    for (root, bid, bi, t) in callers:
        b = F.bodies[bid]
        s = Slice(F, b, through_calls=True).operand(t["args"][0])
        ok = convs["write_op_to_proto"] is not None and any(x[0] == "call" and x[1] == convs["write_op_to_proto"].id for x in s.sources)
        ctx.check("C37-d", "%s#client_command_to_entry_payloads" % fkey(root), ok, "encodes write_op_to_proto(cmd)",
                  "the log payload is not built from write_op_to_proto(<submitted WriteOperation>)", loc(b, bi))

    # ------------------------------------------------------------ C37-e API constructors
    def check_ctor(key, b, bi, fields, expect):
        for f, want in expect.items():
            o = fields.get(f)
            if o is None:
                ctx.bad("C37-e", "%s.%s" % (key, f), "field/argument %s missing" % f, loc(b, bi))
                continue
            pos, imp = api_flow(F, b, o)
            if want in ("none", "zero"):
                s = Slice(F, b).operand(o)
                okc = not pos and ((want == "zero" and s.consts() == ["0"]) or (want == "none" and any(x[0] == "agg" and x[2] == "None" for x in s.sources)))
                ctx.check("C37-e", "%s.%s" % (key, f), okc, "no expiry requested -> %s" % want,
                          "an insert without TTL must carry the `no expiry` encoding (%s); found params %s consts %s" % (want, sorted(pos, key=str), s.consts()), loc(b, bi))
            else:
                ctx.check("C37-e", "%s.%s" % (key, f), pos == {want} and not imp, "<- API parameter #%d (copy only)" % want,
                          "%s is not a plain copy of API parameter #%d (derives from parameters %s, impure: %s): the submitted value is "
                          "replaced or swapped before it is encoded" % (f, want, sorted(pos, key=str), imp), loc(b, bi))
    n = 0
    for fname, adt, expect in (("insert", P_INS, {"key": 1, "value": 2, "ttl_secs": "zero"}), ("insert_with_ttl", P_INS, {"key": 1, "value": 2, "ttl_secs": 3}),
                               ("delete", P_DEL, {"key": 1}), ("compare_and_swap", P_CAS, {"key": 1, "expected_value": 2, "new_value": 3})):
        fn = ctx.anchor(F.fn, "client_ext::%s" % fname)
        if not fn:
            continue
        for (bi, si, st) in agg_sites(fn, adt):
            n += 1
            check_ctor("WriteCommand::%s" % fname, fn, bi, dict(zip(st["rv"]["fs"], st["rv"]["ops"])), expect)
        # callers in the gRPC client pass their own parameters in the same order
        for (root, bid, bi, t) in F.callers_of(lambda k: k == fn.id):
            b = F.bodies[bid]
            if b.crate != "d_engine_client" or is_test_id(root) or "mock" in root.lower():
                continue
            n += 1
            names = sorted(expect, key=lambda f: expect[f] if isinstance(expect[f], int) else 99)
            args = dict((f, t["args"][expect[f] - 1]) for f in names if isinstance(expect[f], int) and expect[f] - 1 < len(t["args"]))
            check_ctor("%s#WriteCommand::%s" % (fkey(root), fname), b, bi, args, dict((f, p) for f, p in expect.items() if isinstance(p, int)))
    ctx.floor("C37-e", n, 8, "proto WriteCommand constructors (4) and their gRPC client call sites (4)")
    n = 0
    for (b, bi, si, st) in all_agg_sites(F, "WriteOperation", None, crates=("d_engine_server", "d_engine_client", "d_engine_core")):
        root = F.root_of[b.id]
        if not self_type_of(F, root).endswith("EmbeddedClient"):
            continue
        n += 1
        v = st["rv"]["v"]
        fields = dict(zip(st["rv"]["fs"], st["rv"]["ops"]))
        if v == "Insert":
            pos, _ = api_flow(F, b, fields["ttl_secs"])
            expect = {"key": 1, "value": 2, "ttl_secs": 3 if pos else "none"}
        elif v == "Delete":
            expect = {"key": 1}
        else:
            expect = {"key": 1, "expected": 2, "new_value": 3}
        check_ctor("%s#WriteOperation::%s" % (fkey(root), v), b, bi, fields, expect)
    ctx.floor("C37-e", n, 4, "WriteOperation constructions in EmbeddedClient")


def in_var_adt(v):
    return "write_command::" + v
