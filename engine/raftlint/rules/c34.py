"""C34 Accepted configurations satisfy the safety timing constraints - exact decision tables of the validators.
Every validator on the chain RaftNodeConfig::validate -> RaftConfig::validate -> {Election, ReadConsistency,
Replication, Batching, Snapshot}Config::validate is loop-free and touches its integer inputs only through
comparisons (plus `rtt/2` and a saturating add), so its decision table is extracted from MIR and evaluated over
every weak ordering of its inputs: on every path that returns Ok the required constraint holds, each sub-validator's
error is propagated (`?`), and the lease is compared against election_timeout_min of the same configuration.
This decides the property completely for in-range values; overflow is covered by requiring the saturating form."""
from .common import *

EXPLANATION = __doc__
LEVEL = "proof"
TECHNIQUE = "static analysis: symbolic decision tables of loop-free validators extracted from rustc MIR, exhaustively evaluated over all weak orderings of their inputs"
LEVEL_NOTE = "Exact for the validators' decision logic. Trusted base: rustc MIR construction, the raftlint extractor and path evaluator, the order-type argument (inputs touched only by comparisons; rtt/2 and saturating_add evaluated on small integers, overflow handled by requiring the saturating form)."


def ok_path(p):
    return variant_of(p.ret) == "Ok"


def implication(ctx, key, f, paths, needed_fields, constraint, what, extra_quant=()):
    """on every world whose selected path returns Ok, constraint(world, q) holds"""
    selfp = par(1)
    ex = []
    q = {}
    for name in needed_fields:
        e = ("field", ("param", 1, f.local_name(1)), name)
        q[name] = e
        ex.append(("bin", "Eq", e, ("const", "0")))
    for (nm, e) in extra_quant:
        q[nm] = e
        ex.append(("bin", "Eq", e, ("const", "0")))
    try:
        tb = pathsym.Table(paths, extra_exprs=ex)
        n = 0
        nok = 0
        bad = []
        for w in tb.worlds():
            n += 1
            sel = tb.select(w)
            if not sel:
                bad.append((w.describe(), "no path"))
                continue
            for p in sel:
                if ok_path(p):
                    nok += 1
                    if not constraint(w, q):
                        bad.append((w.describe(), "accepted"))
        ctx.check("C34", key, not bad and nok > 0, "%s: holds on all %d accepting worlds of %d" % (what, nok, n),
                  "%s: validation ACCEPTS a configuration that violates the constraint, e.g. %s (%d counterexample worlds)" % (what, bad[:2], len(bad)), "%s:%s" % (f.file, f.line))
    except pathsym.TooComplex as e:
        ctx.bad("C34", key, "decision table too large: %s" % e, "%s:%s" % (f.file, f.line))
    except KeyError as e:
        ctx.bad("C34", key, "UNRECOGNISED-FORM: validator uses an expression the rule cannot evaluate: %s" % (sym_show(e.args[0]) if e.args and isinstance(e.args[0], tuple) else e), "%s:%s" % (f.file, f.line))


def propagates(ctx, key, f, paths, subs):
    """every Ok path passed `Continue` of try(validate(self.<sub>)) for each sub"""
    oks = [p for p in paths if ok_path(p)]
    ctx.check("C34", key + "#has-ok", len(oks) >= 1, "validator has an accepting path", "validator never accepts", "%s:%s" % (f.file, f.line))
    for sub in subs:
        good = True
        for p in oks:
            hit = False
            for (e, out) in p.conds:
                if e[0] == "variant" and e[1][0] == "try" and e[1][1][0] == "call" and e[1][1][1].endswith("::validate") and out == frozenset({"Continue"}):
                    a = e[1][1][2]
                    if a and fld(par(1), sub)(a[0]):
                        hit = True
            good = good and hit
        ctx.check("C34", "%s#propagates:%s" % (key, sub), good and bool(oks), "Ok only if %s.validate() succeeded (error propagated with `?`)" % sub,
                  "an accepting path does not depend on %s.validate() succeeding (result ignored?)" % sub, "%s:%s" % (f.file, f.line))
    return oks


def run(ctx):
    F = ctx.F
    # ---- leaf validators
    leaf = [
        ("ElectionConfig", ["election_timeout_min", "election_timeout_max"], lambda w, q: w.int(q["election_timeout_min"]) < w.int(q["election_timeout_max"]), "election_timeout_min < election_timeout_max"),
        ("ReplicationConfig", ["rpc_append_entries_clock_in_ms", "append_entries_max_entries_per_replication"],
         lambda w, q: w.int(q["rpc_append_entries_clock_in_ms"]) != 0 and w.int(q["append_entries_max_entries_per_replication"]) != 0, "heartbeat interval != 0 and per-request entry limit != 0"),
        ("BatchingConfig", ["max_batch_size", "max_merge_entries"], lambda w, q: w.int(q["max_batch_size"]) != 0 and w.int(q["max_merge_entries"]) != 0, "max_batch_size != 0 and max_merge_entries != 0"),
        ("SnapshotConfig", ["retained_log_entries"], lambda w, q: w.int(q["retained_log_entries"]) >= 1, "retained_log_entries >= 1"),
    ]
    for (ty, fields, cons, what) in leaf:
        f = ctx.anchor(F.method, ty, "validate")
        if not f:
            continue
        paths = table_of(ctx, "C34", f, "%s::validate" % ty)
        if paths:
            implication(ctx, "%s#accepts-only:%s" % (fkey(f), what), f, paths, fields, cons, what)
    # ---- lease window
    f = ctx.anchor(F.method, "ReadConsistencyConfig", "validate")
    if f:
        paths = table_of(ctx, "C34", f, "ReadConsistencyConfig::validate")
        if paths:
            emin = ("param", 2, f.local_name(2))

            def cons(w, q):
                lease, rtt, em = w.int(q["lease_duration_ms"]), w.int(q["network_rtt_p99_ms"]), w.int(q["emin"])
                return lease != 0 and lease + rtt // 2 < em
            implication(ctx, "%s#accepts-only:lease+rtt/2<election_min" % fkey(f), f, paths, ["lease_duration_ms", "network_rtt_p99_ms"], cons,
                        "lease_duration_ms != 0 and lease_duration_ms + network_rtt_p99_ms/2 < election_timeout_min", extra_quant=[("emin", emin)])
            # overflow: the sum must be a saturating (or checked) add, never a wrapping/plain one
            sums = []
            for p in paths:
                for (e, out) in p.conds:
                    def visit(x):
                        if isinstance(x, tuple) and x:
                            if x[0] == "arith" and mentions(x, lambda y: y[0] == "field" and y[2] == "lease_duration_ms"):
                                sums.append(x[1])
                            if x[0] == "bin" and x[1] in ("Add",) and mentions(x, lambda y: y[0] == "field" and y[2] == "lease_duration_ms"):
                                sums.append("plain-add")
                            if x[0] == "call" and mentions(x, lambda y: y[0] == "field" and y[2] == "lease_duration_ms") and "wrapping" in x[1]:
                                sums.append("wrapping")
                            for y in x:
                                visit(y)
                    visit(e)
            ctx.check("C34", "%s#lease-sum-saturates" % fkey(f), bool(sums) and all(s in ("saturating_add", "checked_add") for s in sums),
                      "lease + rtt/2 is computed with a saturating add (overflow can only reject)",
                      "lease + rtt/2 is not computed with a saturating/checked add (%s): an overflowing sum could wrap below election_timeout_min and be accepted" % sorted(set(sums)), "%s:%s" % (f.file, f.line))
    # ---- composition
    rc = ctx.anchor(F.method, "RaftConfig", "validate")
    if rc:
        paths = table_of(ctx, "C34", rc, "RaftConfig::validate")
        if paths:
            oks = propagates(ctx, fkey(rc), rc, paths, ["replication", "batching", "election", "snapshot", "read_consistency"])
            # the lease is validated against election_timeout_min of the same config
            good = bool(oks)
            for p in oks:
                hit = False
                for (e, out) in p.conds:
                    if e[0] == "variant" and e[1][0] == "try" and e[1][1][0] == "call" and e[1][1][1].endswith("::validate"):
                        a = e[1][1][2]
                        if a and fld(par(1), "read_consistency")(a[0]):
                            hit = len(a) == 2 and fld(par(1), "election", "election_timeout_min")(a[1])
                good = good and hit
            ctx.check("C34", "%s#lease-vs-same-election-min" % fkey(rc), good, "read_consistency.validate(self.election.election_timeout_min)",
                      "the lease window is not validated against election.election_timeout_min of the same configuration", "%s:%s" % (rc.file, rc.line))
    nc = ctx.anchor(F.method, "RaftNodeConfig", "validate")
    if nc:
        paths = table_of(ctx, "C34", nc, "RaftNodeConfig::validate")
        if paths:
            propagates(ctx, fkey(nc), nc, paths, ["raft"])
    # ---- validation is actually applied when configurations are loaded
    callers = F.callers_of(lambda k: strip_generics(k).endswith("RaftNodeConfig::validate"))
    fns = sorted(set(fkey(x[0]) for x in callers))
    ctx.check("C34", "RaftNodeConfig::validate#callers", len(fns) >= 1, "validate() is called by %s" % fns, "RaftNodeConfig::validate has no caller in the workspace")
