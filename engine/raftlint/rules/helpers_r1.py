"""helpers shared by r1's modules (C10-C14, C29, C30): leadership-evidence predicates, field
assignments, argument lifting through helper functions."""
import re

from .common import *
from .. import core

LEASE_VALID = r"(LeaderState::is_lease_valid|ReadLease::is_valid|ReadLease::is_valid_for_leader)$"
QUORUM = r"::calculate_majority_matched_index$"
SM_READ = r"(StateMachine::get_multi|StateMachine::get|StateMachineHandler::read_from_state_machine)$"


def opt_some(c):
    """edge on which an Option-valued test is Some (is_some()==true / is_none()==false / `Some` arm)"""
    if c.kind == "discr":
        return c.variants == {"Some"}
    if c.kind == "call":
        k = strip_generics(c.callee or "")
        if k.endswith("Option::is_some"):
            return c.truth is True
        if k.endswith("Option::is_none"):
            return c.truth is False
    return False


def ev_single_voter(F, c):
    return (c.truth is True and c.kind == "bool" and cond_reads_field(F, c, "ClusterMetadata", "single_voter")) or _ev_helper(F, c) == "single_voter"


def ev_lease(F, c):
    return (c.truth is True and cond_calls(F, c, LEASE_VALID)) or _ev_helper(F, c) == "lease-valid"


def ev_quorum(F, c):
    return (opt_some(c) and cond_calls(F, c, QUORUM)) or _ev_helper(F, c) == "quorum-confirmed"


# ---- evidence established inside a boolean predicate helper (`let ok = self.quorum_confirmed(ctx); if ok {..}`)
_HELPER_EV = {}


def _expr_evidence(e):
    """kind of leadership evidence a TRUE value of the symbolic boolean expression e establishes (None = none)"""
    from .. import pathsym
    e = pathsym.strip_refs(e) if e is not None else None
    if e is None:
        return None
    if e[0] == "call":
        k = strip_generics(e[1])
        if k.endswith("Option::is_some") and e[2] and pathsym.mentions(e[2][0], lambda x: x[0] == "call" and re.search(QUORUM, strip_generics(x[1]))):
            return "quorum-confirmed"
        if re.search(LEASE_VALID, k):
            return "lease-valid"
    if e[0] == "is" and e[2] == "Some" and pathsym.mentions(e[1], lambda x: x[0] == "call" and re.search(QUORUM, strip_generics(x[1]))):
        return "quorum-confirmed"
    if e[0] == "field" and e[2] == "single_voter":
        return "single_voter"
    if e[0] == "bin" and e[1] == "BitAnd":
        return _expr_evidence(e[2]) or _expr_evidence(e[3])
    return None


def helper_evidence(F, fid):
    """fid: a loop-free bool-returning workspace function. kind of evidence that holds on EVERY path returning true"""
    from .. import pathsym
    if fid in _HELPER_EV:
        return _HELPER_EV[fid]
    _HELPER_EV[fid] = None
    b = F.bodies.get(fid)
    if b is None or (b.local_ty(0) or "") != "bool":
        return None
    try:
        paths, _ev = pathsym.decision_table(F, F.main_body(b))
    except pathsym.TooComplex:
        return None
    kinds = set()
    for p in paths:
        r = pathsym.strip_refs(p.ret) if p.ret is not None else None
        if r is None or (r[0] == "const" and r[1] in ("false", "0")):
            continue
        k = None
        if r[0] == "const":      # `true` under conditions: one of them must be evidence
            for (ce, out) in p.conds:
                if out is True and _expr_evidence(ce):
                    k = _expr_evidence(ce)
                elif isinstance(out, frozenset) and out == frozenset({"Some"}) and ce[0] == "variant" and \
                        pathsym.mentions(ce[1], lambda x: x[0] == "call" and re.search(QUORUM, strip_generics(x[1]))):
                    k = "quorum-confirmed"
        else:
            k = _expr_evidence(r)
        if k is None:
            return None
        kinds.add(k)
    out = kinds.pop() if len(kinds) == 1 else ("+".join(sorted(kinds)) if kinds else None)
    _HELPER_EV[fid] = out
    return out


def _ev_helper(F, c):
    """c is the TRUE edge of a test whose value is exactly the result of one predicate helper"""
    if c.truth is not True or c.kind not in ("bool", "call"):
        return None
    s = cond_slice(F, c)
    if any(x[0] in ("binop", "unop", "agg", "param", "discr") for x in s.sources):
        return None
    calls = [x[1] for x in s.sources if x[0] == "call"]
    if len(calls) != 1:
        return None
    k = calls[0]
    tg = [k] if k in F.bodies else [d for (_s, d) in F.impls_of_method.get(k, [])]
    if len(tg) != 1:
        return None
    ev = helper_evidence(F, tg[0])
    return ev if ev and "+" not in ev else None


def evidence(F, c):
    """a branch edge that establishes leadership evidence for the code it leads to"""
    if ev_single_voter(F, c):
        return "single_voter"
    if ev_lease(F, c):
        return "lease-valid"
    if ev_quorum(F, c):
        return "quorum-confirmed"
    return None


def ends(k, suffix):
    return strip_generics(k or "").endswith(suffix)


def calls_reaching(F, body, pred, depth):
    """blocks of `body` whose call reaches (transitively) a callee satisfying pred"""
    return [bi for bi, t in body.calls() if F.call_reaches(t, pred, depth)]


def dominated_by_call(F, body, bi, pred, depth):
    return [x for x in calls_reaching(F, body, pred, depth) if x != bi and body.dominates(x, bi)]


def assigns_field(body, adt_suffix, field):
    """[(bi, si|'term', stmt|term)] assignments whose lhs place ENDS in (adt, field)"""
    out = []
    for (bi, si, st) in writes_to_field(body, adt_suffix, field):
        pl = st["lhs"] if si != "term" else st["dest"]
        pf = core.place_fields(pl)
        last = pl.get("pj", [])[-1] if pl.get("pj") else None
        if pf and isinstance(last, dict) and last.get("f") == field and strip_generics(pf[-1][0]).endswith(adt_suffix):
            out.append((bi, si, st))
    return out


def all_assigns_field(F, adt_suffix, field, crates=("d_engine_core", "d_engine_server")):
    out = []
    for bid, b in F.bodies.items():
        if b.crate not in crates:
            continue
        for (bi, si, st) in assigns_field(b, adt_suffix, field):
            out.append((b, bi, si, st))
    return out


def rhs_slice(F, body, si, st):
    s = Slice(F, body)
    if si == "term":
        k = callee_key(st)
        if k:
            s.sources.add(("call", k))
        for a in st["args"]:
            s.operand(a)
        return s
    s.rvalue(st["rv"])
    return s


def param_index(body, name):
    for l in range(1, body.argc + 1):
        if body.local_name(l) == name:
            return l
    return None


class SrcSet(object):
    """union of several Slices (same query interface)"""

    def __init__(self):
        self.sources = set()

    def add(self, s):
        self.sources |= s.sources
        return self

    def has_field(self, adt_suffix, field):
        return any(s[0] == "field" and s[2] == field and strip_generics(s[1]).endswith(adt_suffix) for s in self.sources)

    def has_call(self, rx):
        r = re.compile(rx)
        return any(s[0] == "call" and r.search(strip_generics(s[1])) for s in self.sources)

    def has_param(self, name):
        return any(s[0] == "param" and s[2] == name for s in self.sources) or ("upvar", name) in self.sources

    def consts(self):
        return sorted(str(s[1]) for s in self.sources if s[0] == "const")


def lifted_arg_sources(F, body, op, depth=3):
    """Provenance of an argument followed through the parameters of (synchronous) helper functions:
    -> [(outer_body, outer_block, SrcSet)] one per outermost call site.  If the operand does not
    depend on a parameter of `body` (other than self) the result is [(body, None, sources)]."""
    s = Slice(F, body).operand(op)
    here = SrcSet().add(s)
    params = sorted(set(x[1] for x in s.sources if x[0] == "param" and x[1] >= 2))
    if not params or depth <= 0 or body.coroutine:
        return [(body, None, here)]
    root = F.root_of[body.id]
    callers = [c for c in F.callers_of(lambda k: k == root) if c[0] != root and not is_test_body(F.bodies[c[1]])]
    if not callers:
        return [(body, None, here)]
    out = []
    for (croot, cbid, cbi, ct) in callers:
        cb = F.bodies[cbid]
        per_site = {}
        for l in params:
            if l - 1 >= len(ct["args"]):
                continue
            for (ob, obi, os_) in lifted_arg_sources(F, cb, ct["args"][l - 1], depth - 1):
                k = (ob.id, obi if obi is not None else cbi)
                if k not in per_site:
                    per_site[k] = (ob, k[1], SrcSet())
                    per_site[k][2].sources |= set(x for x in here.sources if x[0] != "param")
                per_site[k][2].add(os_)
        out.extend(per_site.values())
    return out or [(body, None, here)]


def cmp_rel_tc(F, c, is_x, is_y):
    """cmp_rel with slices that follow call arguments (for values obtained through small helpers)"""
    if c.kind != "cmp" or c.truth is None:
        return None
    sa = Slice(F, c.body, through_calls=True).operand(c.a)
    sb = Slice(F, c.body, through_calls=True).operand(c.b)
    sym = SYM[c.op if c.truth else NEG[c.op]]
    if is_x(sa) and is_y(sb):
        return sym
    if is_y(sa) and is_x(sb):
        return FLIP[sym]
    return None


def is_test_body(b):
    return bool(re.search(r"(_test|/tests?/|test_utils|mock)", b.file)) or "::tests::" in b.id or re.search(r"::test_\w+", b.id) is not None


def role_conversion_sites(F, from_adt="leader_state::LeaderState"):
    """call sites converting &<from_adt> into another role state object (Into::into / From::from)"""
    out = []
    a = re.escape(from_adt)
    rx = re.compile(r"^<&?(mut )?[\w:]*%s<[^>]*> as core::convert::Into<[\w:]*State<|^<[\w:]*State<[^>]*> as core::convert::From<&?(mut )?[\w:]*%s<" % (a, a))
    for bid, b in F.bodies.items():
        if b.crate != "d_engine_core":
            continue
        for bi, t in b.calls():
            fa = t["f"].get("fa") or ""
            if rx.search(fa):
                out.append((b, bi, t))
    return out


def policy_arm(c, adt_suffix="ReadConsistencyPolicy"):
    """variants of a match arm on a read-consistency policy enum, else None"""
    if c.kind == "discr" and c.adt and strip_generics(c.adt).endswith(adt_suffix):
        return c.variants
    return None


def lift_to_guard(F, body, bi, pred, depth=3, _seen=None):
    """Follow a site up through its (non-test) callers until a function is reached in which the site
    (resp. the call leading to it) is guarded by an edge satisfying pred.
    -> [(outer body, outer block, guarded?, witness path)] ; unguarded entries are reported at the
    outermost function (no callers / depth exhausted)."""
    _seen = _seen if _seen is not None else set()
    if (body.id, bi) in _seen:
        return []
    _seen.add((body.id, bi))
    ok, wit, _ = guarded_by(body, bi, pred, edge_conditions(body))
    if ok:
        return [(body, bi, True, None)]
    root = F.root_of[body.id]
    callers = [c for c in F.callers_of(lambda k: k == root) if c[0] != root and not is_test_body(F.bodies[c[1]])]
    if not callers or depth <= 0 or F.bodies[root].impl_of:
        return [(body, bi, False, wit)]
    out = []
    for (croot, cbid, cbi, ct) in callers:
        out.extend(lift_to_guard(F, F.bodies[cbid], cbi, pred, depth - 1, _seen))
    if not any(x[2] for x in out):
        return [(body, bi, False, wit)]     # no caller establishes the guard either: report the site itself
    return out


def slice_has_field(F, body, s, adt_suffix, field):
    """has_field that also understands the precise closure captures of edition 2021
    (an upvar named `*__self.<field>` inside a closure of a method of <adt>)"""
    if s.has_field(adt_suffix, field):
        return True
    if body.parent:
        st = self_type_of(F, F.root_of[body.id])
        if st.endswith(adt_suffix):
            for x in s.sources:
                if x[0] == "upvar" and re.search(r"(^|\.)self\.%s(\.|$)" % re.escape(field), x[1].replace("*", "").replace("__self", "self")):
                    return True
    return False


def field_calls(F, body, adt_suffix, field, method_rx, arg=0):
    """field_receiver_calls + closure captures: calls matching method_rx whose argument `arg` derives from (adt, field)"""
    r = re.compile(method_rx)
    out = []
    for bi, t in body.calls():
        k = strip_generics(callee_key(t) or "")
        if not r.search(k) or len(t["args"]) <= arg:
            continue
        s = Slice(F, body).operand(t["args"][arg])
        if slice_has_field(F, body, s, adt_suffix, field):
            out.append((bi, t))
    return out


SENDER_TY = re.compile(r"^(d_engine_core::maybe_clone_oneshot::MaybeCloneOneshotSender<|tokio::sync::oneshot::Sender<)")


def is_sender_ty(F, ty):
    """a response sender, or a workspace struct with a response sender as a direct field"""
    ty = ty or ""
    if SENDER_TY.match(ty):
        return True
    a = F.adts.get(strip_generics(ty)) if ty.startswith("d_engine_") else None
    if a and a.get("kind") == "struct":
        return any(SENDER_TY.match(t or "") for v in a["variants"] for (_n, t) in v["fields"])
    return False


def carries_sender(F, body, dst):
    """does the loop item bound at block dst (or its direct successors) include a response sender"""
    for blk in [dst] + list(body.succ(dst)):
        for st in body.stmts(blk):
            if "lhs" in st and not st["lhs"].get("pj") and is_sender_ty(F, body.local_ty(st["lhs"]["l"])):
                return True
    return False
