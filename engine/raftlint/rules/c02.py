"""C02 Votes and terms survive crashes - persist-before-reply and term monotonicity (DESIGN 4/C02).
Decides: (a) every in-memory change of term/vote is followed by a durable save_hard_state before the
node replies or returns to the event loop (Raft: 'persist before responding'), (b) hard_state is
written only inside SharedState, (c) every update_current_term(x) is guarded by x > / >= current term,
(d) the initial role is built from the hard state loaded from storage. (e) at every production call of ElectionCore::handle_vote_request the vote decision is given the role's recorded vote
(voted_for()) and current term.
"""
from .common import *

EXPLANATION = __doc__

MUTATORS = r"RaftRoleState::(update_voted_for|update_current_term|increase_current_term|reset_voted_for)$"
REPLY = r"(MaybeCloneOneshotSender::send|oneshot::Sender::send|Transport::send_vote_requests|ElectionCore::broadcast_vote_requests)$"


def persists(k):
    return strip_generics(k).endswith("::save_hard_state") and "StateMachine" not in k


def relation_arg_vs_cur(F, body, c, arg_slice):
    """for a 'cmp' Cond: relation of (arg) to (current term) implied by taking this edge, or None"""
    if c.kind != "cmp" or c.truth is None:
        return None
    sa = Slice(F, body).operand(c.a)
    sb = Slice(F, body).operand(c.b)

    def is_cur(s):
        return s.has_call(r"::current_term$")

    def is_arg(s):
        common = set(x for x in s.sources if x[0] in ("field", "param", "upvar")) & set(x for x in arg_slice.sources if x[0] in ("field", "param", "upvar"))
        return bool(common) and not is_cur(s)
    op = c.op
    if not c.truth:
        op = {"Lt": "Ge", "Le": "Gt", "Gt": "Le", "Ge": "Lt", "Eq": "Ne", "Ne": "Eq"}[op]
    sym = {"Lt": "<", "Le": "<=", "Gt": ">", "Ge": ">=", "Eq": "==", "Ne": "!="}[op]
    flip = {"<": ">", "<=": ">=", ">": "<", ">=": "<=", "==": "==", "!=": "!="}
    if is_cur(sa) and is_arg(sb):      # cur OP arg  ->  arg flip(OP) cur
        return flip[sym]
    if is_arg(sa) and is_cur(sb):
        return sym
    return None


def caller_sources(F, body, sl):
    """sources of the callers' operands for every parameter the slice depends on (one level up):
    lets a guard keep its meaning when the guarded statement was extracted into a helper"""
    out = set()
    root = F.root_of[body.id]
    params = [x for x in sl.sources if x[0] == "param"]
    if not params:
        return out
    for (croot, cbid, cbi, ct) in F.callers_of(lambda k: k == root):
        cb = F.bodies[cbid]
        for (_p, idx, _n) in params:
            if idx - 1 < len(ct["args"]):
                out |= Slice(F, cb).operand(ct["args"][idx - 1]).sources
    return out


def run(ctx):
    F = ctx.F
    # ---------------------------------------------------------------- C02-a persist before reply / return
    sites = []
    for bid, b in F.bodies.items():
        if b.crate != "d_engine_core":
            continue
        root = F.root_of[bid]
        if strip_generics(root).startswith("d_engine_core::raft_role::role_state::RaftRoleState::") and \
                re.search(MUTATORS, strip_generics(root)):
            continue  # the delegating default methods themselves
        for (bi, t) in calls_matching(b, MUTATORS):
            sites.append((root, b, bi, t))
    ctx.floor("C02-a", len(sites), 16, "in-memory hard-state mutation call sites")
    seen_keys = {}
    for (root, b, bi, t) in sites:
        callee = strip_generics(callee_key(t)).split("::")[-1]
        key = "%s#%s" % (fkey(root), callee)
        persist_blocks = [x for x, tt in b.calls() if F.call_reaches(tt, persists, ctx.depth)]
        reply_blocks = [x for x, _ in calls_matching(b, REPLY)]
        wit = must_pass(b, bi, reply_blocks, persist_blocks, treat_exit_as_goal=True)
        ok = wit is None
        if wit is not None:
            wit = bpath(b, wit)
        if not ok and not reply_blocks:
            # helper without a reply of its own: every caller must persist after the call
            callers = F.callers_of(lambda k: k == root)
            callers = [c for c in callers if c[0] != root]
            if callers:
                ok = True
                for (croot, cbid, cbi, ct) in callers:
                    cb = F.bodies[cbid]
                    pb = [x for x, tt in cb.calls() if F.call_reaches(tt, persists, ctx.depth)]
                    rb = [x for x, _ in calls_matching(cb, REPLY)]
                    w2 = must_pass(cb, cbi, rb, pb, treat_exit_as_goal=True)
                    if w2 is not None:
                        ok = False
                        wit = bpath(cb, w2)
        prev = seen_keys.get(key)
        if prev is None or (prev and not ok):
            seen_keys[key] = ok
            rec = (key, ok, loc(b, bi), wit)
            seen_keys[key + "#rec"] = rec
    for k, v in list(seen_keys.items()):
        if k.endswith("#rec"):
            key, ok, l, w = v
            ctx.check("C02-a", key, ok, "save_hard_state is reached before any reply/return",
                      "term/vote changed in memory and the node can reply or return to the event loop without save_hard_state "
                      "(a crash after the reply forgets the vote/term)", l, w)
    # ---------------------------------------------------------------- C02-b who may write hard_state
    n_in = 0
    for bid, b in F.bodies.items():
        if b.crate not in ("d_engine_core", "d_engine_server"):
            continue
        for (bi, si, st) in writes_to_field(b, "raft_role::SharedState", "hard_state"):
            root = F.root_of[bid]
            inside = self_type_of(F, root).endswith("raft_role::SharedState")
            if inside:
                n_in += 1
            ctx.check("C02-b", "%s#write-hard_state" % fkey(root), inside, "hard_state written inside impl SharedState",
                      "SharedState.hard_state is written outside impl SharedState", loc(b, bi))
    ctx.floor("C02-b", n_in, 4, "writes of SharedState.hard_state inside impl SharedState (positive control)")

    # ---------------------------------------------------------------- C02-c term monotonicity
    ups = [(root, b, bi, t) for (root, b, bi, t) in sites if strip_generics(callee_key(t)).endswith("update_current_term")]
    ctx.floor("C02-c", len(ups), 9, "update_current_term call sites")
    per_fn = {}
    for (root, b, bi, t) in ups:
        arg = Slice(F, b).operand(t["args"][1])
        conds = edge_conditions(b)

        def good(c):
            if c.kind == "cmp":
                return relation_arg_vs_cur(F, b, c, arg) in (">", ">=")
            if c.kind == "call" or c.kind == "bool":
                if c.truth is True and cond_calls(F, c, r"(if_higher_term_found|ElectionCore::check_vote_request_is_legal)$"):
                    return True
            if c.kind == "discr":
                s = cond_slice(F, c)
                if c.variants == {"Some"} and (s.has_field("StateUpdate", "term_update") or
                                               any(x[0] == "field" and x[2] == "term_update" and strip_generics(x[1]).endswith("StateUpdate") for x in caller_sources(F, b, s))):
                    return True
                if c.variants == {"HigherTerm"}:
                    return True
            return False
        ok, wit, _ = guarded_by(b, bi, good, conds)
        if not ok:
            # the update sits in a private helper that receives the new term as a parameter (`step_down_for_higher_term(term)`):
            # the guard is then looked for at every production call site of the helper, on the caller's operand
            outer = F.bodies[root]
            pidx = [x[1] for x in arg.sources if x[0] == "param"]
            if not pidx:
                for x in arg.sources:
                    if x[0] == "upvar":
                        for l in range(1, outer.argc + 1):
                            if outer.local_name(l) == str(x[1]).lstrip("*&"):
                                pidx.append(l)
            csites = [c for c in F.callers_of(lambda k, r=root: k == r) if c[0] != root and not re.search(r"(_test|/tests?/|test_utils|mock)", F.bodies[c[1]].file or "")]
            if pidx and csites and not outer.impl_of:
                lifted = True
                for (croot, cbid, cbi, ct) in csites:
                    cb = F.bodies[cbid]
                    if pidx[0] - 1 >= len(ct["args"]):
                        lifted = False
                        break
                    arg2 = Slice(F, cb).operand(ct["args"][pidx[0] - 1])

                    def good2(c, cb=cb, arg2=arg2):
                        if c.kind == "cmp":
                            return relation_arg_vs_cur(F, cb, c, arg2) in (">", ">=")
                        if c.kind in ("call", "bool"):
                            return c.truth is True and bool(cond_calls(F, c, r"(if_higher_term_found|ElectionCore::check_vote_request_is_legal)$"))
                        if c.kind == "discr":
                            return c.variants == {"HigherTerm"} or (c.variants == {"Some"} and cond_slice(F, c).has_field("StateUpdate", "term_update"))
                        return False
                    g2, w2, _ = guarded_by(cb, cbi, good2, edge_conditions(cb))
                    if not g2:
                        lifted, wit = False, w2
                        break
                ok = lifted
        n = per_fn.get(fkey(root), 0)
        per_fn[fkey(root)] = n + 1
        ctx.check("C02-c", "%s#update_current_term[%d]" % (fkey(root), n), ok,
                  "guarded by `new term > / >= current term` (or a listed idiom)",
                  "update_current_term(x) reachable without a guard establishing x >= current term (term could decrease)",
                  loc(b, bi), wit and bpath(b, wit))
    # producers of the listed idioms
    hv = ctx.anchor(F.method, "ElectionHandler", "handle_vote_request")
    if hv:
        mb = F.main_body(hv)
        conds = edge_conditions(mb)
        su = agg_sites(mb, "StateUpdate")
        flows = set()
        for (_bi, _si, st) in su:
            o = agg_field(st, "term_update")
            if o is not None:
                flows |= Slice(F, mb).operand(o).seen
        tu = [(bi, si, st) for (bi, si, st) in agg_sites(mb, "option::Option", "Some") if st["lhs"]["l"] in flows]
        ctx.floor("C02-c", len(tu), 1, "term_update = Some(request.term) in handle_vote_request")
        for (bi, si, st) in tu:
            arg = Slice(F, mb).operand(st["rv"]["ops"][0])

            def gt(c):
                if c.kind != "cmp" or c.truth is None:
                    return False
                sa = Slice(F, mb).operand(c.a)
                sb = Slice(F, mb).operand(c.b)
                op = c.op if c.truth else {"Lt": "Ge", "Le": "Gt", "Gt": "Le", "Ge": "Lt", "Eq": "Ne", "Ne": "Eq"}[c.op]
                a_req = sa.has_field("VoteRequest", "term")
                b_req = sb.has_field("VoteRequest", "term")
                a_cur = sa.has_param("current_term")
                b_cur = sb.has_param("current_term")
                return (a_req and b_cur and op == "Gt") or (a_cur and b_req and op == "Lt")
            ok, wit, _ = guarded_by(mb, bi, gt, conds)
            ctx.check("C02-c", "%s#term_update" % fkey(hv), ok, "term_update = Some(request.term) only under request.term > current_term",
                      "handle_vote_request can ask for a term update without request.term > current_term", loc(mb, bi), wit and bpath(mb, wit))

    # ---------------------------------------------------------------- C02-d restart load
    build = ctx.anchor(F.method, "NodeBuilder", "build")
    if build:
        n = 0
        for b in F.group_bodies(build):
            for (bi, t) in calls_matching(b, r"raft_role::\w+::(Follower|Candidate|Leader|Learner)State::new$"):
                n += 1
                has = any(Slice(F, b).operand(a).has_call(r"::load_hard_state$") for a in t["args"])
                role = strip_generics(callee_key(t)).split("::")[-2]
                ctx.check("C02-d", "%s#%s::new" % (fkey(build), role), has,
                          "initial role state is built from the persisted hard state",
                          "initial %s is constructed without the hard state loaded from storage (term/vote restart from defaults)" % role, loc(b, bi))
        ctx.floor("C02-d", n, 2, "initial role constructors in NodeBuilder::build")


# ---------------------------------------------------------------------------------------------- C02-b'
_run_c02 = run

SHARED_DIRECT_OK = {
    "RaftRoleState::update_current_term": "the delegating default method (its callers are the C02-a / C02-c sites)",
    "RaftRoleState::increase_current_term": "delegating default method",
    "RaftRoleState::reset_voted_for": "delegating default method",
    "RaftRoleState::update_voted_for": "delegating default method",
    "LeaderState::update_voted_for": "LeaderState's override of the delegating method (a C02-a site through the trait)",
}


def run(ctx):
    _run_c02(ctx)
    F = ctx.F
    # who may call the inherent SharedState mutators directly: only the delegating RaftRoleState methods. A direct
    # `self.shared_state.update_current_term(t)` elsewhere would be neither a persist-before-reply nor a monotonicity site.
    n = 0
    for (croot, cbid, cbi, ct) in F.callers_of(lambda k: re.search(r"SharedState::(update_current_term|increase_current_term|update_voted_for|reset_voted_for)$", strip_generics(k)) is not None):
        cb = F.bodies[cbid]
        if cb.crate not in ("d_engine_core", "d_engine_server") or re.search(r"(_test|/tests?/|test_utils|mock)", cb.file or ""):
            continue
        n += 1
        fk = fkey(croot)
        ctx.check("C02-b", "%s#SharedState::%s#direct-call" % (fk, strip_generics(callee_key(ct)).split("::")[-1]), fk in SHARED_DIRECT_OK,
                  "direct SharedState mutation inside %s" % SHARED_DIRECT_OK.get(fk, ""),
                  "%s mutates term / vote through SharedState directly, bypassing the RaftRoleState methods whose call sites the persist-before-reply (C02-a) and "
                  "monotonicity (C02-c) rules enumerate" % fk, loc(cb, cbi))
    ctx.floor("C02-b", n, 4, "direct calls of the SharedState term/vote mutators (the delegating methods)")


# ---------------------------------------------------------------------------------------------- C02-e
_run_c02b = run


def run(ctx):
    _run_c02b(ctx)
    vote_decision_sees_the_recorded_vote(ctx)


def vote_decision_sees_the_recorded_vote(ctx):
    """C02-e `never grants its vote to two different candidates in the same term` starts with the vote decision being GIVEN the
    vote the node has recorded: at every production call of ElectionCore::handle_vote_request the `voted_for_option` argument
    derives from the role's recorded vote (RaftRoleState::voted_for() / SharedState.hard_state.voted_for) and the `current_term`
    argument from current_term() - not from a constant, and not from a snapshot struct whose voted_for is filled with None."""
    F = ctx.F
    calls = [c for c in F.callers_of(lambda k: re.search(r"ElectionCore::handle_vote_request$", strip_generics(k)) is not None or re.search(r"ElectionHandler<.*>::handle_vote_request$|ElectionCore<.*>>::handle_vote_request$", k) is not None)
             if not re.search(r"(_test|/tests?/|test_utils|mock)", F.bodies[c[1]].file or "")]
    ctx.floor("C02-e", len(calls), 1, "production calls of ElectionCore::handle_vote_request")
    for (croot, cbid, cbi, ct) in calls:
        cb = F.bodies[cbid]
        if len(ct["args"]) < 4:
            ctx.bad("C02-e", "%s#handle_vote_request#args" % fkey(croot), "UNRECOGNISED-FORM: handle_vote_request is called with %d arguments" % len(ct["args"]), loc(cb, cbi))
            continue
        vs = Slice(F, cb).operand(ct["args"][3])
        ts = Slice(F, cb).operand(ct["args"][2])
        okv = (vs.has_call(r"RaftRoleState::voted_for$|SharedState::voted_for$") or vs.has_field("HardState", "voted_for")) and \
            not any(x[0] == "agg" and strip_generics(x[1]).endswith("option::Option") and x[2] == "None" for x in vs.sources)
        okt = ts.has_call(r"RaftRoleState::current_term$|SharedState::current_term$") or ts.has_field("HardState", "current_term")
        ctx.check("C02-e", "%s#handle_vote_request#voted_for=recorded-vote" % fkey(croot), okv and okt,
                  "the vote decision is given the role's recorded vote and current term",
                  "handle_vote_request is not given the node's recorded vote (voted_for argument from %s; term from %s): the `already voted for someone else in this term` test "
                  "never sees the earlier vote and the node grants a second vote to a different candidate in the same term"
                  % (sorted(strip_generics(x[1]).split("::")[-1] if x[0] == "call" else "%s.%s" % (x[1].split("::")[-1], x[2]) for x in vs.sources if x[0] in ("call", "field"))[:4],
                     sorted(strip_generics(x[1]).split("::")[-1] for x in ts.sources if x[0] == "call")[:3]), loc(cb, cbi))
