"""C21 Saved term and vote are never lost or corrupted (DESIGN 4/C21).
Decides for every `MetaStore::save_hard_state` / `load_hard_state` impl:
 (a) atomic replace: nothing reachable from save_hard_state opens, with truncation (`File::create`,
     `fs::write`, `OpenOptions..truncate(true)`), the very path the store's loader opens for reading - a
     crash between the truncation and the end of the write leaves an empty / partial file.  When the save
     writes a file that is not the loaded path, it must `rename` it onto the loaded path after a
     `sync_all`/`sync_data` (write-temp, sync, rename);
 (b) a decode failure while loading must surface as `Err`: from the `Err` outcome of a decode call no path
     may reach a `return Ok(..)` (a swallowed decode error makes the node restart with 'no state', i.e.
     term 1 and no vote).
 (c) observation only (not armed): engines that save through a database `put` rely on that
     database's WAL; without sync write options this survives a process crash (which is all the property
     promises after save returns) but not a power loss.
 (d) every Ok path of a save_hard_state impl passes the write into the store (no `unchanged, skip` shortcut: the cached copy is
     updated before the write);  (e) the database-backed stores keep RocksDB's default of writing the WAL on every put
     (`set_manual_wal_flush(true)` nowhere, or a flush_wal after the put).
Necessary conditions, not the whole crash behaviour."""
from .common import *
from .helpers_r2 import *

EXPLANATION = __doc__

TRUNC_RX = r"^(std|tokio)::fs::(\w+::)?(File::create|write)$"
OPEN_RX = r"^(std|tokio)::fs::(\w+::)?OpenOptions::open$"
READ_RX = r"^(std|tokio)::fs::(\w+::)?(File::open|read|read_to_string)$"
RENAME_RX = r"^(std|tokio)::fs::(\w+::)?rename$"
SYNC_RX = r"::(sync_all|sync_data)$"
DECODE_RX = r"(^bincode::deserialize(_from)?$|prost::message::Message::decode$|serde_json::from_(slice|str|reader)$)"


def path_sig(F, body, op):
    """identity of a filesystem path value: the self fields and constants it is built from"""
    s = Slice(F, body, through_calls=True).operand(op)
    sig = set()
    for x in s.sources:
        if x[0] == "field" and strip_generics(x[1]).startswith("d_engine"):
            sig.add(("field", strip_generics(x[1]).split("::")[-1], x[2]))
        elif x[0] == "const" and (str(x[1]).startswith('"') or "::" in str(x[1])):
            sig.add(("const", str(x[1]).split("::")[-1]))
    return frozenset(sig)


def opts_truncate(F, body, t):
    """OpenOptions::open(opts, path): was `.truncate(true)` applied to opts"""
    s = Slice(F, body, through_calls=True).operand(t["args"][0])
    for (_bi, ct) in s.call_sites:
        if strip_generics(callee_key(ct) or "").endswith("OpenOptions::truncate") and len(ct["args"]) > 1 and const_operand(ct["args"][1]) == "true":
            return True
    return False


def file_ops(F, fn_ids):
    """(truncating opens, reads, renames, syncs) over the body groups of the given functions"""
    tr, rd, rn, sy = [], [], [], []
    for fid in sorted(fn_ids):
        for b in real_bodies(F, fid):
            for (bi, t) in calls_matching(b, TRUNC_RX):
                tr.append((b, bi, t, path_sig(F, b, t["args"][0])))
            for (bi, t) in calls_matching(b, OPEN_RX):
                if opts_truncate(F, b, t):
                    tr.append((b, bi, t, path_sig(F, b, t["args"][1])))
                else:
                    rd.append((b, bi, t, path_sig(F, b, t["args"][1])))
            for (bi, t) in calls_matching(b, READ_RX):
                rd.append((b, bi, t, path_sig(F, b, t["args"][0])))
            for (bi, t) in calls_matching(b, RENAME_RX):
                rn.append((b, bi, t, path_sig(F, b, t["args"][1])))
            for (bi, t) in calls_matching(b, SYNC_RX):
                sy.append((b, bi, t, None))
    return tr, rd, rn, sy


def run(ctx):
    F = ctx.F
    saves = trait_impls(F, META_TRAIT + "save_hard_state")
    loads = trait_impls(F, META_TRAIT + "load_hard_state")
    ctx.floor("C21-a", len(saves), 2, "impls of MetaStore::save_hard_state")
    ctx.floor("C21-b", len(loads), 2, "impls of MetaStore::load_hard_state")
    n_trunc = 0
    n_dec = 0
    for sv in saves:
        ty = strip_generics(sv.self_ty or "")
        # every function of the store type: the loader is whatever of them opens files for reading
        own = set(F.root_of[b.id] for b in F.bodies.values() if b.self_ty and strip_generics(b.self_ty) == ty and b.parent is None)
        _t, reads, _r, _s = file_ops(F, own)
        read_sigs = set(sig for (_b, _bi, _tt, sig) in reads if sig)
        closure = closure_functions(F, sv.id, ctx.depth)
        truncs, _rd, renames, syncs = file_ops(F, closure)
        inplace = False
        for (b, bi, t, sig) in truncs:
            n_trunc += 1
            hit = sig in read_sigs
            inplace = inplace or hit
            name = "::".join(strip_generics(callee_key(t)).split("::")[-2:])
            ctx.check("C21-a", "%s#truncate:%s" % (fkey(F.root_of[b.id]), name), not hit,
                      "truncating open targets a path the loader never reads (%s)" % sorted(sig),
                      "save_hard_state truncates the live hard-state file in place (%s of the path %s that the loader opens). History: "
                      "term/vote (5,n2) are on disk; save_hard_state(6,n3) runs %s, the process dies before write_all completes: the file "
                      "is empty/partial, at restart it fails to decode and the node comes back with no hard state (term 1, may vote again "
                      "in term 5/6)" % (name, sorted(sig), name), loc(b, bi))
        if truncs and not inplace:
            onto = [(b, bi, t) for (b, bi, t, sig) in renames if sig in read_sigs]
            ok = False
            for (b, bi, t) in onto:
                if any(b.dominates(x, bi) and F.call_reaches(tt, key_pred(SYNC_RX), ctx.depth) for (x, tt) in b.calls()):
                    ok = True
            ctx.check("C21-a", "%s#temp-sync-rename" % fkey(sv), ok, "new content is synced and renamed onto the loaded path",
                      "save_hard_state writes a side file but never renames it onto the path the loader reads after a sync_all/sync_data "
                      "(renames onto loaded path: %d, syncs: %d): the saved value is not what a restart loads" % (len(onto), len(syncs)),
                      "%s:%s" % (sv.file, sv.line))
        if not truncs:
            puts = [k for k in F.reach_calls(sv.id, ctx.depth) if re.search(r"rocksdb::.*::put(_cf)?(_opt)?$", strip_generics(k))]
            ctx.check("C21-a", "%s#db-put" % fkey(sv), bool(puts), "hard state is saved through a database put (atomic per key)",
                      "save_hard_state neither writes a file nor a database key", "%s:%s" % (sv.file, sv.line))
            if puts and not any(k.endswith("_opt") for k in puts) and not F.fn_reaches(sv.id, key_pred(r"::flush_wal$"), ctx.depth):
                ctx.note("%s: database put with default write options and no flush_wal(true) before returning - survives a process "
                         "crash (WAL in page cache) but not a power loss (DESIGN C21-c, not armed)" % fkey(sv))
        # ---------------------------------------------------------------- C21-b
        own_closure = set(own)
        for f in own:
            own_closure |= set(x for x in closure_functions(F, f, 3) if F.bodies[x].crate in ("d_engine_core", "d_engine_server"))
        for fid in sorted(own_closure):
            for b in real_bodies(F, fid):
                dec = calls_matching(b, DECODE_RX)
                if not dec:
                    continue
                conds = edge_conditions(b)
                ok_rets = [bi for (bi, _si, st) in return_aggs(b) if st["rv"]["k"] == "agg" and st["rv"].get("v") == "Ok"]
                for (di, dt) in dec:
                    n_dec += 1
                    dl = dt["dest"]["l"]
                    err_edges = []
                    for c in conds.values():
                        if c.kind == "discr" and c.variants and c.variants <= {"Err", "Break"} and b.dominates(di, c.edge["src"]):
                            if dl in cond_slice(F, c).seen:
                                err_edges.append(c)
                    wit = None
                    for c in err_edges:
                        w = path_avoiding(b, c.edge["dst"], ok_rets, ()) if c.edge["dst"] not in ok_rets else [c.edge["dst"]]
                        if w:
                            wit = w
                    name = strip_generics(callee_key(dt)).split("::")[-1]
                    ctx.check("C21-b", "%s#decode-error:%s" % (fkey(fid), name), bool(err_edges) and wit is None,
                              "the Err outcome of the decode never reaches `return Ok`",
                              ("the decode error is swallowed: from the Err outcome of %s the function still returns Ok. History: hard-state file "
                               "is truncated/corrupt (see C21-a); the store opens 'successfully' with an empty map, load_hard_state answers "
                               "None and the node restarts at term 1 without its vote" % name) if err_edges else
                              "the result of the decode call is never tested (no Err/`?` branch found)", loc(b, di), wit and bpath(b, wit))
    ctx.floor("C21-a", n_trunc, 1, "truncating file opens reachable from save_hard_state")
    ctx.floor("C21-b", n_dec, 3, "decode calls in MetaStore impl types (File load_from_file + 2x load_hard_state)")


# ---------------------------------------------------------------------------------------------- C21-d / C21-e
_run_abc21 = run


def run(ctx):
    _run_abc21(ctx)
    save_reaches_the_store_on_every_ok_path(ctx)
    database_wal_leaves_the_process(ctx)


def save_reaches_the_store_on_every_ok_path(ctx):
    """C21-d `Once saving has returned, the new value survives a process crash`: every path of a `MetaStore::save_hard_state` impl
    that returns Ok passes the call that hands the bytes to the store (the file write / rename of the File store, the database
    put of the RocksDB store).  A shortcut such as `if cached == new { return Ok(()) }` is not equivalent: the in-memory copy is
    updated BEFORE the store write, so after a failed write the retry finds cached == new and reports Ok with nothing written."""
    F = ctx.F
    impls = trait_impls(F, "d_engine_core::storage::storage_engine::MetaStore::save_hard_state")
    ctx.floor("C21-d", len(impls), 2, "impls of MetaStore::save_hard_state")
    for root in impls:
        if is_test_id(root.id) or "mock" in root.id.lower():
            continue
        b = F.main_body(root)
        writes = [bi for (bi, t) in b.calls() if F.call_reaches(t, lambda k: re.search(
            r"(fs::(\w+::)?(rename|write)|File::(create|write_all|sync_all|sync_data)|OpenOptions::open|rust_rocksdb::.*::(put_cf|put|write|write_opt|write_wbwi))$", strip_generics(k)) is not None, 4)]
        errs = [x for x, tt in b.calls() if "from_residual" in (callee_key(tt) or "")]
        errs += [bi for bi, blk in enumerate(b.blocks) for st in blk["st"]
                 if st.get("rv", {}).get("k") == "agg" and st["rv"].get("v") == "Err" and strip_generics(st["rv"].get("adt") or "").endswith("result::Result")]
        wit = must_pass(b, 0, [], writes + errs, treat_exit_as_goal=True) if writes else [0]
        ctx.check("C21-d", "%s#every-Ok-path-writes-the-store" % fkey(root), bool(writes) and wit is None,
                  "save_hard_state cannot return Ok without handing the new term/vote to the store",
                  "save_hard_state can return Ok on a path that never writes the store (e.g. `unchanged since the last save`): the in-memory copy is updated before the write, so "
                  "after a write that FAILED the retry of the same value is answered Ok with nothing on disk. History: save A ok; save B -> Err (I/O); retry save B -> Ok; crash; "
                  "restart loads A (the vote for B's term is forgotten)", "%s:%s" % (root.file, root.line), wit and writes and bpath(b, wit))


def database_wal_leaves_the_process(ctx):
    """C21-e the RocksDB stores rely on `put` reaching at least the OS (the database's WAL write) before it returns - that is what
    makes a saved term/vote survive a PROCESS crash without an explicit sync.  `Options::set_manual_wal_flush(true)` breaks exactly
    that: records stay in a user-space buffer until flush_wal() is called.  Rule: no `set_manual_wal_flush` with a value other
    than the constant false anywhere in the workspace - unless every `save_hard_state` impl that writes through the database
    calls `flush_wal` after its put on every Ok path."""
    F = ctx.F
    sites = []
    for bid, b in F.bodies.items():
        if b.crate not in ("d_engine_core", "d_engine_server") or re.search(r"(_test|/tests?/|test_utils|mock)", b.file or ""):
            continue
        for (bi, t) in calls_matching(b, r"Options::set_manual_wal_flush$"):
            v = Slice(F, b).operand(t["args"][1]) if len(t["args"]) > 1 else None
            off = v is not None and v.consts() in (["false"], ["0"]) and not any(x[0] in ("call", "field", "param") for x in v.sources)
            sites.append((b, bi, off))
    opts = [1 for bid, b in F.bodies.items() if b.crate == "d_engine_server" and calls_matching(b, r"rust_rocksdb::.*Options::(set_\w+|create_if_missing)$")]
    ctx.floor("C21-e", len(opts), 1, "functions that configure RocksDB Options (positive control for the disallowed setter)")
    manual = [(b, bi) for (b, bi, off) in sites if not off]
    if not manual:
        ctx.ok("C21-e", "rocksdb::Options#wal-written-on-put", "no Options::set_manual_wal_flush(true): a database put reaches the OS before it returns (%d option-configuring functions examined)" % len(opts))
        return
    ok_all = True
    for root in trait_impls(F, "d_engine_core::storage::storage_engine::MetaStore::save_hard_state"):
        b = F.main_body(root)
        puts = [bi for (bi, t) in b.calls() if F.call_reaches(t, lambda k: re.search(r"rust_rocksdb::.*::(put_cf|put|write|write_opt)$", strip_generics(k)) is not None, 3)]
        if not puts:
            continue
        fl = [bi for (bi, t) in b.calls() if F.call_reaches(t, lambda k: re.search(r"rust_rocksdb::.*::flush_wal$", strip_generics(k)) is not None, 3)]
        errs = [x for x, tt in b.calls() if "from_residual" in (callee_key(tt) or "")]
        ok = all(must_pass(b, p_, [], fl + errs, treat_exit_as_goal=True) is None for p_ in puts) and bool(fl)
        ok_all = ok_all and ok
    (b, bi) = manual[0]
    ctx.check("C21-e", "rocksdb::Options#wal-written-on-put", ok_all,
              "manual WAL flush is on, but every database-backed save_hard_state calls flush_wal after its put",
              "Options::set_manual_wal_flush(true): a put only appends to RocksDB's user-space WAL buffer, and save_hard_state returns without flush_wal - after it returned Ok the new "
              "term/vote exist only in process memory; kill -9 before the next flush_wal and the restart loads the previous vote (the node can vote twice in one term)", loc(b, bi))
