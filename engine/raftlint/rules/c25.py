"""C25 Scan results match their revision (DESIGN 4/C25).
Writers publish data first and the revision (`last_applied_index`) second; a scan must therefore never
report a revision that is NEWER than the data view it returns, or scan-then-watch(revision+1) loses the
entries in between.  Decides for every `StateMachine::scan_prefix` impl:
 (a) view/revision order: when the data view is a point-in-time view taken without excluding the writer
     (RocksDB iterator / snapshot) the revision load must not be reachable from the view creation (load
     first, then pin); when the view is a lock guard on the data, the revision load must happen while the
     guard is held (after the lock call, before any drop of the guard);
 (b) writer order assumed by (a): in every `apply_chunk` impl no data write is reachable from the store of
     `last_applied_index` (data first, revision second);
 (c) `ScanResult.revision` derives from an atomic load of `last_applied_index`;
 (d) every key pushed/collected into the result passed a `starts_with(prefix)` test.
Necessary conditions; `prefix_successor` is a loop, its boundary-byte behaviour is not decided here."""
from .common import *
from .helpers_r2 import *
from .c23 import data_sites, STORE_RX, REMOVE_RX

EXPLANATION = __doc__

VIEW_RX = r"rust_rocksdb::.*::(iterator(_cf)?(_opt)?|raw_iterator(_cf)?(_opt)?|full_iterator(_cf)?|prefix_iterator(_cf)?|snapshot)$"
LOCK_RX = r"(rwlock::RwLock|mutex::Mutex|lock_api::\w+::\w+)::(read|write|lock)$"
LOAD_RX = r"atomic::Atomic\w*::load$"
STORE_ATOMIC_RX = r"atomic::Atomic\w*::(store|fetch_max|swap)$"


def guard_drops(body, guard_local):
    """blocks that end the life of a guard: drop terminators on the local or mem::drop(local)"""
    out = []
    for bi, blk in enumerate(body.blocks):
        if blk.get("cleanup"):
            continue
        t = blk["t"]
        if t["k"] == "drop" and t.get("pl", {}).get("l") == guard_local:
            out.append(bi)
        elif t["k"] == "call" and strip_generics(callee_key(t) or "").endswith("mem::drop") and t["args"] and "p" in t["args"][0]:
            # follow plain moves `tmp = move guard` back to the guard local
            l = t["args"][0]["p"]["l"]
            for _ in range(6):
                if l == guard_local:
                    out.append(bi)
                    break
                ds = body.defs().get(l, [])
                if len(ds) == 1 and ds[0][0] == "assign" and ds[0][3]["rv"]["k"] == "use" and "p" in ds[0][3]["rv"]["a"] and not ds[0][3]["rv"]["a"]["p"].get("pj"):
                    l = ds[0][3]["rv"]["a"]["p"]["l"]
                else:
                    break
    return out


def is_revision_load(F, b, t, short_ty, depth):
    """an atomic load of self.last_applied_index, directly or inside a helper method of the same type"""
    k = strip_generics(callee_key(t) or "")
    if re.search(LOAD_RX, k):
        return recv_has_self_field(F, b, t, short_ty, "last_applied_index")
    for tg in F.resolve_targets(t):
        if not self_type_of(F, tg).endswith(short_ty):
            continue
        for fid in closure_functions(F, tg, 3):
            if not self_type_of(F, fid).endswith(short_ty):
                continue
            for hb in real_bodies(F, fid):
                if any(recv_has_self_field(F, hb, ht, short_ty, "last_applied_index") for (_hi, ht) in calls_matching(hb, LOAD_RX)):
                    return True
    return False


def run(ctx):
    F = ctx.F
    impls = trait_impls(F, SM_TRAIT + "scan_prefix")
    ctx.floor("C25-a", len(impls), 2, "impls of StateMachine::scan_prefix")
    n_res = n_view = n_filter = 0
    for root in impls:
        ty = strip_generics(root.self_ty or "")
        short_ty = ty.split("::")[-1]
        fns = [f for f in closure_functions(F, root.id, 3) if self_type_of(F, f) == ty]
        for fid in sorted(fns):
            for b in real_bodies(F, fid):
                aggs = agg_sites(b, "ScanResult")
                if not aggs:
                    continue
                views = calls_matching(b, VIEW_RX)
                locks = [(bi, t) for (bi, t) in calls_matching(b, LOCK_RX) if recv_has_self_field(F, b, t, short_ty)]
                for (ai, _si, st) in aggs:
                    n_res += 1
                    rs = Slice(F, b).operand(agg_field(st, "revision"))
                    loads = [(bi, t) for (bi, t) in rs.call_sites if is_revision_load(F, b, t, short_ty, ctx.depth)]
                    key = "%s#ScanResult" % fkey(fid)
                    ctx.check("C25-c", key + ".revision", bool(loads), "revision = atomic load of last_applied_index",
                              "ScanResult.revision does not derive from an atomic load of %s.last_applied_index: %s" % (short_ty, sorted(rs.sources, key=str)[:5]),
                              loc(b, ai))
                    # only results that can follow a data view carry entries
                    vs = [(vi, vt, "snapshot") for (vi, vt) in views if path_avoiding(b, vi, [ai]) is not None] + \
                         [(li, lt, "guard") for (li, lt) in locks if path_avoiding(b, li, [ai]) is not None]
                    for (vi, vt, kind) in vs:
                        n_view += 1
                        vname = strip_generics(callee_key(vt)).split("::")[-1]
                        for (ri, _rt) in loads:
                            if kind == "snapshot":
                                w = path_avoiding(b, vi, [ri])
                                ctx.check("C25-a", "%s#%s-then-revision" % (fkey(fid), vname), w is None,
                                          "the revision is loaded before the %s view is created" % vname,
                                          "the revision is loaded after the point-in-time view (%s) was created, with no writer exclusion. History: "
                                          "last_applied=k; scan creates the iterator (sees entries <= k); apply_chunk commits k+1 and stores "
                                          "last_applied=k+1; scan loads revision=k+1 and returns data without k+1; the client resyncs with "
                                          "watch(from k+2) and never sees entry k+1" % vname, loc(b, ri), w and bpath(b, w))
                            else:
                                g = vt["dest"]["l"]
                                drops = guard_drops(b, g)
                                released = any(path_avoiding(b, vi, [d]) is not None and path_avoiding(b, d, [ri]) is not None for d in drops)
                                ok = b.dominates(vi, ri) and not released
                                ctx.check("C25-a", "%s#revision-under-%s-guard" % (fkey(fid), vname), ok,
                                          "the revision is loaded while the data guard is held",
                                          "the revision load is not covered by the data lock (%s): an apply can slip in between the data copy and the "
                                          "revision load, so the reported revision can be newer than the returned data (resync from revision+1 "
                                          "misses an entry)" % ("guard dropped before the load" if released else "load precedes the lock"), loc(b, ri))
                    if not vs:
                        # fail closed: only a result whose entries are a freshly created empty Vec is exempt; entries that come from any
                        # other source (multi_get, a concurrent map, a helper) are a data view the rule cannot order against the revision
                        eo = agg_field(st, "entries")
                        es = Slice(F, b, through_calls=True).operand(eo) if eo is not None else None
                        srcs = [x for x in (es.sources if es else []) if x[0] in ("call", "field", "param", "upvar")]
                        empty = es is not None and all(x[0] == "call" and re.search(r"Vec(::<.*>)?::(new|with_capacity)$|vec::from_elem$", strip_generics(x[1])) for x in srcs)
                        ctx.check("C25-a", "%s#no-data-view" % key, empty, "result built without reading data (empty Vec): any revision is consistent",
                                  "UNRECOGNISED-FORM: ScanResult.entries come from %s, which is neither a RocksDB iterator/snapshot nor a lock guard on the data: the rule cannot "
                                  "order the data view against the revision load" % sorted(set(strip_generics(x[1]).split("::")[-1] if x[0] == "call" else str(x[1:]) for x in srcs))[:5], loc(b, ai))
                # ---------------------------------------------------------------- C25-d prefix filter
                for (pi, pt) in calls_matching(b, r"alloc::vec::Vec::push$"):
                    ps = Slice(F, b).operand(pt["args"][1])
                    if not any(x[0] == "call" and "copy_from_slice" in x[1] for x in ps.sources) and not ps.has_call(r"Bytes"):
                        continue
                    n_filter += 1
                    conds = edge_conditions(b)
                    ok, wit, _ = guarded_by(b, pi, lambda c: c.truth is True and cond_calls(F, c, r"starts_with$"), conds)
                    ctx.check("C25-d", "%s#push-under-starts_with" % fkey(fid), ok, "entries are pushed only under starts_with(prefix) == true",
                              "a key can be pushed into the scan result without passing starts_with(prefix): with an all-0xFF prefix (no upper "
                              "bound) the scan returns keys outside the prefix", loc(b, pi), wit and bpath(b, wit))
                for (fi, ft) in calls_matching(b, r"iterator::Iterator::filter$"):
                    cl = [x[1] for x in Slice(F, b).operand(ft["args"][1]).sources if x[0] == "closure"]
                    hit = any(calls_matching(F.bodies[c], r"starts_with$") for c in cl if c in F.bodies)
                    n_filter += 1
                    ctx.check("C25-d", "%s#filter-starts_with" % fkey(fid), hit, "the collected iterator is filtered by starts_with(prefix)",
                              "the filter closure of the scan does not test starts_with(prefix)", loc(b, fi))
    ctx.floor("C25-c", n_res, 3, "ScanResult constructions (RocksDB empty-prefix + RocksDB scan + File)")
    ctx.floor("C25-a", n_view, 2, "data views feeding a ScanResult (RocksDB iterator, File read guard)")
    ctx.floor("C25-d", n_filter, 2, "prefix filters (RocksDB push, File filter closure)")

    # ---------------------------------------------------------------- C25-b writers: data first, revision second
    n_b = 0
    for root in trait_impls(F, SM_TRAIT + "apply_chunk"):
        ty = strip_generics(root.self_ty or "")
        short_ty = ty.split("::")[-1]
        for b in real_bodies(F, root):
            pubs = []
            for (bi, t) in b.calls():
                k = strip_generics(callee_key(t) or "")
                if (re.search(STORE_ATOMIC_RX, k) and recv_has_self_field(F, b, t, short_ty, "last_applied_index")) or \
                        F.call_reaches(t, key_pred(r"::update_last_applied$"), 2):
                    pubs.append(bi)
            writes = [bi for (bi, _t) in data_sites(F, b, STORE_RX, short_ty) + data_sites(F, b, REMOVE_RX, short_ty)]
            writes += [bi for (bi, _t) in calls_matching(b, r"rust_rocksdb::db::DBCommon::write(_wbwi)?(_opt)?$")]
            if not pubs or not writes:
                continue  # wrapper bodies (async / tracing shells) only forward to the body that does both
            for u in pubs:
                n_b += 1
                w = path_avoiding(b, u, writes)
                ctx.check("C25-b", "%s#revision-published-after-data" % fkey(root), w is None,
                          "no data write is reachable from the last_applied_index store",
                          "apply_chunk publishes last_applied_index and writes data afterwards: a scan in between reports the new revision with "
                          "the old data (resync misses the entry)", loc(b, u), w and bpath(b, w))
    ctx.floor("C25-b", n_b, 2, "last_applied_index publications in apply_chunk impls")
    ctx.note("File engine: apply_chunk stores last_applied_index after releasing the data write lock, so a concurrent scan can return "
             "data that already contains entry k+1 with revision k (data newer than revision). That direction only re-delivers an "
             "event on resync (no missed update), so it is reported as an observation, not armed.")
