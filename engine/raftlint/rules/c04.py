"""C04 Log matching - follower-side consistency check and conflict truncation, leader-side prev-log metadata
(DESIGN 4/C04).  Decides: (a) the follower mutates its log only after the AppendEntries consistency check
succeeded; (b) that check answers success only when the entry at prev_log_index has prev_log_term (or the
(0,0) sentinel) and HigherTerm exactly when my_term > request.term; (c) tail truncation happens only at an
index whose term differs from the incoming entry and is followed by inserting the incoming tail and a
ReplaceRange task for the same index; (d) the leader fills prev_log_term from entry_term(next_index-1); (e) entry_term, which both consistency checks rely on, answers only for indexes inside [min_index, max_index] or the purge boundary (exact table, shared with C19-a).
Necessary conditions; the cross-node invariant itself is not decided."""
from .common import *

EXPLANATION = __doc__
PARTIAL = True


def run(ctx):
    F = ctx.F
    # ---------------------------------------------------------------- C04-a
    hae = ctx.anchor(F.method, "ReplicationHandler", "handle_append_entries")
    if hae:
        mb = F.main_body(hae)
        conds = edge_conditions(mb)
        sites = calls_matching(mb, r"RaftLog::filter_out_conflicts_and_append$")
        ctx.floor("C04-a", len(sites), 1, "filter_out_conflicts_and_append call in handle_append_entries")
        muts = calls_matching(mb, r"RaftLog::(filter_out_conflicts_and_append|append_entries|insert_batch|reset|purge_logs_up_to)$")
        for (bi, t) in muts:
            name = callee_names(t)[0].split("::")[-1]

            def not_x(x):
                return lambda c: c.truth is False and c.kind in ("call", "bool") and cond_calls(F, c, r"replication_ext::%s$" % x) \
                    and cond_calls(F, c, r"check_append_entries_request_is_legal$")
            ok1, w1, _ = guarded_by(mb, bi, not_x("is_conflict"), conds)
            ok2, w2, _ = guarded_by(mb, bi, not_x("is_higher_term"), conds)
            ctx.check("C04-a", "%s#%s" % (fkey(hae), name), ok1 and ok2,
                      "log mutation guarded by !is_conflict && !is_higher_term of the legality check result",
                      "follower log mutation `%s` reachable without the consistency check having succeeded" % name,
                      loc(mb, bi), bpath(mb, (w1 or w2)) if (w1 or w2) else None)
    # ---------------------------------------------------------------- C04-b
    chk = ctx.anchor(F.method, "ReplicationHandler", "check_append_entries_request_is_legal")
    if chk:
        mb = F.main_body(chk)
        conds = edge_conditions(mb)
        succ = calls_matching(mb, r"replication_ext::success$")
        high = calls_matching(mb, r"replication_ext::higher_term$")
        conf = calls_matching(mb, r"replication_ext::conflict$")
        ctx.floor("C04-b", len(succ), 2, "success responses in check_append_entries_request_is_legal")
        ctx.floor("C04-b", len(high), 1, "higher_term responses")
        ctx.floor("C04-b", len(conf), 2, "conflict responses")

        def is_my(s):
            return any(x[0] == "param" and x[1] == 2 for x in s.sources)   # my_term (2nd parameter after self)

        def is_req_term(s):
            return s.has_field("AppendEntriesRequest", "term")

        def my_gt_req(c):
            return cmp_rel(F, c, is_my, is_req_term) == ">"

        def my_le_req(c):
            return cmp_rel(F, c, is_my, is_req_term) == "<="
        for n, (bi, t) in enumerate(high):
            ok, wit, _ = guarded_by(mb, bi, my_gt_req, conds)
            ctx.check("C04-b", "%s#higher_term" % fkey(chk), ok, "HigherTerm only when my_term > request.term",
                      "HigherTerm response not guarded by my_term > request.term", loc(mb, bi), wit and bpath(mb, wit))

        def sentinel(field):
            return lambda c: cmp_rel(F, c, lambda s: s.has_field("AppendEntriesRequest", field), lambda s: s.consts() == ["0"] and not s.sources - {("const", "0")}) == "=="

        def term_match(c):
            # entry_term(prev_log_index) == request.prev_log_term
            return cmp_rel(F, c, lambda s: s.has_call(r"RaftLog::entry_term$"), lambda s: s.has_field("AppendEntriesRequest", "prev_log_term")) == "=="
        kinds = {"sentinel": 0, "match": 0}
        for (bi, t) in succ:
            g1, _w, _ = guarded_by(mb, bi, my_le_req, conds)
            s_idx, _w1, _ = guarded_by(mb, bi, sentinel("prev_log_index"), conds)
            s_trm, _w2, _ = guarded_by(mb, bi, sentinel("prev_log_term"), conds)
            m, wm, _ = guarded_by(mb, bi, term_match, conds)
            kind = "sentinel" if (s_idx and s_trm) else ("match" if m else "unguarded")
            if kind in kinds:
                kinds[kind] += 1
            ctx.check("C04-b", "%s#success#%s" % (fkey(chk), kind), g1 and kind != "unguarded",
                      "success only under my_term <= request.term and (%s)" % ("prev == (0,0)" if kind == "sentinel" else "entry_term(prev_log_index) == prev_log_term"),
                      "success response reachable without the prev-log term match (g_term=%s idx0=%s term0=%s match=%s)" % (g1, s_idx, s_trm, m),
                      loc(mb, bi), wm and bpath(mb, wm))
            if kind == "match":
                # the entry_term lookup is for request.prev_log_index
                et = [x for x in calls_matching(mb, r"RaftLog::entry_term$") if mb.dominates(x[0], bi)]
                okarg = any(Slice(F, mb).operand(tt["args"][1]).has_field("AppendEntriesRequest", "prev_log_index") for (_b, tt) in et)
                ctx.check("C04-b", "%s#success#match#lookup-index" % fkey(chk), okarg, "entry_term is looked up at request.prev_log_index",
                          "the term compared with prev_log_term is not looked up at request.prev_log_index", loc(mb, bi))
        ctx.floor("C04-b", kinds["match"], 1, "success guarded by the term match")
        for n, (bi, t) in enumerate(conf):
            # a conflict answer is never produced where the terms matched
            ok, wit, _ = guarded_by(mb, bi, lambda c: term_match(c), conds)
            ctx.check("C04-b", "%s#conflict[%d]" % (fkey(chk), n), not ok, "conflict not under a term match",
                      "conflict response is produced on the matching branch", loc(mb, bi))
    # ---------------------------------------------------------------- C04-c
    foc = ctx.anchor(F.method, "BufferedRaftLog", "filter_out_conflicts_and_append")
    if foc:
        mb = F.main_body(foc)
        conds = edge_conditions(mb)
        rm = calls_matching(mb, r"BufferedRaftLog::remove_range$")
        ctx.floor("C04-c", len(rm), 1, "remove_range in filter_out_conflicts_and_append")
        # closures of this function that compare entry_term(e.index) with e.term
        mism = []
        for b in F.group_bodies(foc):
            if b.kind != "Closure" or b.coroutine:
                continue
            et = calls_matching(b, r"(RaftLog|BufferedRaftLog)::entry_term$")
            if not et:
                continue
            ne = calls_matching(b, r"(PartialEq::ne|PartialEq::eq)$")
            reads_term = ("d_engine_proto::common::Entry", "term") in fields_read(b)
            reads_index = ("d_engine_proto::common::Entry", "index") in fields_read(b)
            if ne and reads_term and reads_index:
                mism.append(b)
        ctx.floor("C04-c", len(mism), 1, "closure comparing entry_term(e.index) with e.term")
        mism_ids = set(b.id for b in mism)
        for (bi, t) in rm:
            # the truncation point derives from Iterator::position over such a closure
            s = Slice(F, mb, through_calls=True).operand(t["args"][1])
            from_pos = s.has_call(r"Iterator::position$") and any(x[0] == "closure" and x[1] in mism_ids for x in s.sources)
            ctx.check("C04-c", "%s#remove_range#from-term-mismatch" % fkey(foc), from_pos,
                      "truncation index = first incoming entry whose term differs from the local entry at that index",
                      "tail truncation index does not derive from the term-mismatch scan (Iterator::position over entry_term(e.index) != Some(e.term))",
                      loc(mb, bi))
            # truncation only when the diverging index is inside the local log
            okb, wit, _ = guarded_by(mb, bi, lambda c: cmp_rel(F, c, lambda s: s.has_field("Entry", "index") and not s.has_call(r"::last_entry_id$"),
                                                              lambda s: s.has_call(r"(RaftLog|BufferedRaftLog)::last_entry_id$")) in ("<=", "<"), conds)
            ctx.check("C04-c", "%s#remove_range#inside-log" % fkey(foc), okb, "truncation guarded by diverge_index <= last local index",
                      "tail truncation not guarded by a comparison with the last local index", loc(mb, bi), wit and bpath(mb, wit))
            ins = [x for x, _ in calls_matching(mb, r"BufferedRaftLog::insert_to_memory$") if mb.dominates(bi, x)]
            rr = [x for (x, si, st) in agg_sites(mb, "IOTask", "ReplaceRange") if mb.dominates(bi, x)]
            ctx.check("C04-c", "%s#remove_range#then-insert-and-replace" % fkey(foc), bool(ins) and bool(rr),
                      "truncation is followed by insert_to_memory(tail) and an IOTask::ReplaceRange",
                      "tail truncation is not followed by inserting the incoming tail and a ReplaceRange task (ins=%s rr=%s)" % (ins, rr), loc(mb, bi))
            for (x, si, st) in agg_sites(mb, "IOTask", "ReplaceRange"):
                tf = Slice(F, mb).operand(agg_field(st, "truncate_from"))
                ctx.check("C04-c", "%s#ReplaceRange.truncate_from" % fkey(foc), bool(tf.seen & s.seen),
                          "ReplaceRange.truncate_from is the truncation index", "ReplaceRange.truncate_from is not the index the memory log was truncated at", loc(mb, x))
    # ---------------------------------------------------------------- C04-d
    bar = ctx.anchor(F.method, "ReplicationHandler", "build_append_request")
    if bar:
        sites = [(b, bi, si, st) for b in F.group_bodies(bar) for (bi, si, st) in agg_sites(b, "AppendEntriesRequest")]
        ctx.floor("C04-d", len(sites), 1, "AppendEntriesRequest aggregate in build_append_request")
        for (b, bi, si, st) in sites:
            pi = Slice(F, b, through_calls=True).operand(agg_field(st, "prev_log_index"))
            pt = Slice(F, b, through_calls=True).operand(agg_field(st, "prev_log_term"))
            # both derive from the map_or closure over peer_next_indices
            cl = [x[1] for x in pi.sources if x[0] == "closure"]
            okc = False
            for cid in cl:
                cb = F.bodies.get(cid)
                if not cb:
                    continue
                et = calls_matching(cb, r"RaftLog::entry_term$")
                sub = calls_matching(cb, r"saturating_sub$")
                if et and sub:
                    a = Slice(F, cb).operand(et[0][1]["args"][1])
                    okc = a.has_call(r"saturating_sub$") and "1" in a.consts()
            ctx.check("C04-d", "%s#prev_log" % fkey(bar), okc and pi.has_field("ReplicationData", "peer_next_indices") and bool(set(x for x in pt.sources if x[0] == "closure") & set(x for x in pi.sources if x[0] == "closure")),
                      "prev_log_index = next_index - 1 of the peer and prev_log_term = entry_term(prev_log_index)",
                      "prev_log_index/prev_log_term are not (next_index-1, entry_term(next_index-1)) of the same peer", loc(b, bi))


_run_before_e = run


def run(ctx):
    _run_before_e(ctx)
    from .c19 import entry_term_table
    entry_term_table(ctx, "C04-e")
