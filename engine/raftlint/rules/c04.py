"""C04 Log matching - follower-side consistency check and conflict truncation, leader-side prev-log metadata
(DESIGN 4/C04).  Decides: (a) the follower mutates its log only after the AppendEntries consistency check
succeeded; (b) that check answers success only when the entry at prev_log_index has prev_log_term (or the
(0,0) sentinel) and HigherTerm exactly when my_term > request.term; (c) tail truncation happens only at an
index whose term differs from the incoming entry and is followed by inserting the incoming tail and a
ReplaceRange task for the same index; (d) the leader fills prev_log_term from entry_term(next_index-1); (e) entry_term, which both consistency checks rely on, answers only for indexes inside [min_index, max_index] or the purge boundary (exact table, shared with C19-a).
Necessary conditions; the cross-node invariant itself is not decided."""
from .common import *

EXPLANATION = __doc__
PARTIAL = True


def run(ctx):
    F = ctx.F
    # ---------------------------------------------------------------- C04-a
    hae = ctx.anchor(F.method, "ReplicationHandler", "handle_append_entries")
    if hae:
        mb = F.main_body(hae)
        conds = edge_conditions(mb)
        sites = calls_matching(mb, r"RaftLog::filter_out_conflicts_and_append$")
        ctx.floor("C04-a", len(sites), 1, "filter_out_conflicts_and_append call in handle_append_entries")
        muts = calls_matching(mb, r"RaftLog::(filter_out_conflicts_and_append|append_entries|insert_batch|reset|purge_logs_up_to)$")
        for (bi, t) in muts:
            name = callee_names(t)[0].split("::")[-1]

            def not_x(x):
                return lambda c: c.truth is False and c.kind in ("call", "bool") and cond_calls(F, c, r"replication_ext::%s$" % x) \
                    and cond_calls(F, c, r"check_append_entries_request_is_legal$")
            ok1, w1, _ = guarded_by(mb, bi, not_x("is_conflict"), conds)
            ok2, w2, _ = guarded_by(mb, bi, not_x("is_higher_term"), conds)
            ctx.check("C04-a", "%s#%s" % (fkey(hae), name), ok1 and ok2,
                      "log mutation guarded by !is_conflict && !is_higher_term of the legality check result",
                      "follower log mutation `%s` reachable without the consistency check having succeeded" % name,
                      loc(mb, bi), bpath(mb, (w1 or w2)) if (w1 or w2) else None)
    # ---------------------------------------------------------------- C04-b exact decision table of the consistency check
    chk = ctx.anchor(F.method, "ReplicationHandler", "check_append_entries_request_is_legal")
    if chk:
        mb = F.main_body(chk)
        paths = table_of(ctx, "C04-b", mb, "check_append_entries_request_is_legal")
        if paths:
            tb0 = pathsym.Table(paths)
            my, req = par(2), par(3)
            q_my = pick(tb0.quant, my, "")
            q_rt = pick(tb0.quant, fld(req, "term"), "")
            q_pi = pick(tb0.quant, fld(req, "prev_log_index"), "")
            q_pt = pick(tb0.quant, fld(req, "prev_log_term"), "")

            def is_et(e):
                return e[0] == "call" and e[1].endswith("entry_term") and len(e[2]) == 2 and fld(req, "prev_log_index")(e[2][1])
            v_et = pick(list(tb0.vars), is_et, "")
            q_et = pick(tb0.quant, lambda e: e[0] == "field" and e[2].split(".")[-1] == "0" and is_et(e[1]), "")
            known_q = {q_my, q_rt, q_pi, q_pt, q_et}
            stray = [sym_show(q) for q in tb0.quant if q not in known_q] + [sym_show(b) for b in tb0.bools] + [sym_show(v) for v in tb0.vars if v != v_et]
            missing = [n for n, x in (("my_term", q_my), ("request.term", q_rt), ("prev_log_index", q_pi), ("prev_log_term", q_pt), ("entry_term(prev_log_index)", v_et), ("its term", q_et)) if x is None]
            if missing or stray:
                ctx.bad("C04-b", "%s#table" % fkey(chk), "UNRECOGNISED-FORM: the consistency check does not decide on exactly (my_term, request.term, prev_log_index, prev_log_term, "
                        "entry_term(prev_log_index)): missing %s, unexpected %s" % (missing, stray), "%s:%s" % (mb.file, mb.line))
            else:
                def outcome(p, w):
                    r = p.ret
                    if r[0] == "call":
                        nm = r[1].split("::")[-1]
                        if nm in ("success", "higher_term", "conflict"):
                            return nm
                    return "other:" + sym_show(r)[:60]

                def spec(w):
                    if w.int(q_my) > w.int(q_rt):
                        return "higher_term"
                    if w.int(q_pi) == 0 and w.int(q_pt) == 0:
                        return "success"
                    if w.v[v_et] == "Some" and w.int(q_et) == w.int(q_pt):
                        return "success"
                    return "conflict"
                run_table(ctx, "C04-b", "%s#table" % fkey(chk), paths, outcome, spec, "%s:%s" % (mb.file, mb.line),
                          what="HigherTerm iff my_term > request.term; else success iff prev == (0,0) or entry_term(prev_log_index) == Some(prev_log_term); else conflict")
    # ---------------------------------------------------------------- C04-c
    foc = ctx.anchor(F.method, "BufferedRaftLog", "filter_out_conflicts_and_append")
    if foc:
        mb = F.main_body(foc)
        conds = edge_conditions(mb)
        # truncation sites: remove_range called here, or inside a private BufferedRaftLog helper this function hands the
        # truncation to (one level; the helper is treated as inlined: index provenance and the in-log guard are read at the
        # helper's call site, the follow-up insert / ReplaceRange inside the helper)
        # site = (outer block in mb, operand of the truncation index in mb, inner body, inner block, index operand in the inner body)
        sites = [(bi, t["args"][1], mb, bi, t["args"][1]) for (bi, t) in calls_matching(mb, r"BufferedRaftLog::remove_range$")]
        for (cbi, ct) in mb.calls():
            for tg in F.resolve_targets(ct):
                if tg not in F.bodies or tg == foc.id or not strip_generics(self_type_of(F, tg) or "").endswith("BufferedRaftLog"):
                    continue
                if re.search(r"::(remove_range|insert_to_memory|append_entries|reset|purge_logs_up_to)$", strip_generics(tg)):
                    continue
                hb = F.main_body(F.bodies[tg])
                for (hbi, ht) in calls_matching(hb, r"BufferedRaftLog::remove_range$"):
                    hs = Slice(F, hb, through_calls=True).operand(ht["args"][1])
                    ps = [x[1] for x in hs.sources if x[0] == "param"]
                    if not ps:      # async helper: its parameters are captured by the coroutine (upvars named like the parameters)
                        outer = F.bodies[tg]
                        for x in hs.sources:
                            if x[0] == "upvar":
                                for l in range(1, outer.argc + 1):
                                    if outer.local_name(l) == str(x[1]).lstrip("*&"):
                                        ps.append(l)
                    if ps and ps[0] - 1 < len(ct["args"]):
                        sites.append((cbi, ct["args"][ps[0] - 1], hb, hbi, ht["args"][1]))
        ctx.floor("C04-c", len(sites), 1, "remove_range in filter_out_conflicts_and_append (or in the helper it hands the truncation to)")
        # closures of this function that compare entry_term(e.index) with e.term
        mism = []
        for b in F.group_bodies(foc):
            if b.kind != "Closure" or b.coroutine:
                continue
            et = calls_matching(b, r"(RaftLog|BufferedRaftLog)::entry_term$")
            if not et:
                continue
            ne = calls_matching(b, r"(PartialEq::ne|PartialEq::eq)$")
            reads_term = ("d_engine_proto::common::Entry", "term") in fields_read(b)
            reads_index = ("d_engine_proto::common::Entry", "index") in fields_read(b)
            if ne and reads_term and reads_index:
                mism.append(b)
        ctx.floor("C04-c", len(mism), 1, "closure comparing entry_term(e.index) with e.term")
        mism_ids = set(b.id for b in mism)
        for (bi, iop, ib, ibi, iiop) in sites:
            # the truncation point derives from Iterator::position over such a closure
            s = Slice(F, mb, through_calls=True).operand(iop)
            from_pos = s.has_call(r"Iterator::position$") and any(x[0] == "closure" and x[1] in mism_ids for x in s.sources)
            ctx.check("C04-c", "%s#remove_range#from-term-mismatch" % fkey(foc), from_pos,
                      "truncation index = first incoming entry whose term differs from the local entry at that index",
                      "tail truncation index does not derive from the term-mismatch scan (Iterator::position over entry_term(e.index) != Some(e.term))",
                      loc(mb, bi))
            # truncation only when the diverging index is inside the local log
            okb, wit, _ = guarded_by(mb, bi, lambda c: cmp_rel(F, c, lambda s: s.has_field("Entry", "index") and not s.has_call(r"::last_entry_id$"),
                                                              lambda s: s.has_call(r"(RaftLog|BufferedRaftLog)::last_entry_id$")) in ("<=", "<"), conds)
            ctx.check("C04-c", "%s#remove_range#inside-log" % fkey(foc), okb, "truncation guarded by diverge_index <= last local index",
                      "tail truncation not guarded by a comparison with the last local index", loc(mb, bi), wit and bpath(mb, wit))
            ins = [x for x, _ in calls_matching(ib, r"BufferedRaftLog::insert_to_memory$") if ib.dominates(ibi, x)]
            rr = [x for (x, si, st) in agg_sites(ib, "IOTask", "ReplaceRange") if ib.dominates(ibi, x)]
            ctx.check("C04-c", "%s#remove_range#then-insert-and-replace" % fkey(foc), bool(ins) and bool(rr),
                      "truncation is followed by insert_to_memory(tail) and an IOTask::ReplaceRange",
                      "tail truncation is not followed by inserting the incoming tail and a ReplaceRange task (ins=%s rr=%s)" % (ins, rr), loc(ib, ibi))
            si_ = Slice(F, ib).operand(iiop)
            for (x, _si, st) in agg_sites(ib, "IOTask", "ReplaceRange"):
                tf = Slice(F, ib).operand(agg_field(st, "truncate_from"))
                ctx.check("C04-c", "%s#ReplaceRange.truncate_from" % fkey(foc), bool(tf.seen & si_.seen),
                          "ReplaceRange.truncate_from is the truncation index", "ReplaceRange.truncate_from is not the index the memory log was truncated at", loc(ib, x))
    # ---------------------------------------------------------------- C04-d
    bar = ctx.anchor(F.method, "ReplicationHandler", "build_append_request")
    if bar:
        sites = [(b, bi, si, st) for b in F.group_bodies(bar) for (bi, si, st) in agg_sites(b, "AppendEntriesRequest")]
        ctx.floor("C04-d", len(sites), 1, "AppendEntriesRequest aggregate in build_append_request")
        for (b, bi, si, st) in sites:
            pi = Slice(F, b, through_calls=True).operand(agg_field(st, "prev_log_index"))
            pt = Slice(F, b, through_calls=True).operand(agg_field(st, "prev_log_term"))
            # both derive from the map_or closure over peer_next_indices
            cl = [x[1] for x in pi.sources if x[0] == "closure"]
            okc = False
            for cid in cl:
                cb = F.bodies.get(cid)
                if not cb:
                    continue
                et = calls_matching(cb, r"RaftLog::entry_term$")
                sub = calls_matching(cb, r"saturating_sub$")
                if et and sub:
                    a = Slice(F, cb).operand(et[0][1]["args"][1])
                    okc = a.has_call(r"saturating_sub$") and "1" in a.consts()
            ctx.check("C04-d", "%s#prev_log" % fkey(bar), okc and pi.has_field("ReplicationData", "peer_next_indices") and bool(set(x for x in pt.sources if x[0] == "closure") & set(x for x in pi.sources if x[0] == "closure")),
                      "prev_log_index = next_index - 1 of the peer and prev_log_term = entry_term(prev_log_index)",
                      "prev_log_index/prev_log_term are not (next_index-1, entry_term(next_index-1)) of the same peer", loc(b, bi))


_run_before_e = run


def run(ctx):
    _run_before_e(ctx)
    from .c19 import entry_term_table
    entry_term_table(ctx, "C04-e")
