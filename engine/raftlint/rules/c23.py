"""C23 TTL: overwrites and deletes clear an earlier TTL; TTL state is persisted (DESIGN 4/C23).
Decides, for every `StateMachine::apply_chunk` impl and for the File engine's WAL replay:
 (a) every command arm that STORES a value for a key (Insert, successful CompareAndSwap) touches the
     key's lease on every path that performs the store - it either `register`s a TTL or `unregister`s
     the previous one - so an old deadline can never outlive the value it was set for;
 (b) every arm that REMOVES a key `unregister`s it;
 (c) persistence plumbing exists: `Lease::to_snapshot` is reached from `stop` and from
     `generate_snapshot_data`, `Lease::reload` from `start` and from `apply_snapshot_from_file`;
 (d) code that restores TTLs at construction time is not run on an object whose lease is still the
     constant `None` (the restore would be dead).
Paths on which the engine has no lease configured (`self.lease` is None) and `?` error exits are not
witnesses.  Necessary conditions, not the whole TTL behaviour (expiry timing is not decided). (e) a snapshot install REPLACES the TTL registrations: every Ok path of a `Lease::reload` impl first empties the existing
index, and every `apply_snapshot_from_file` of an engine with a lease reaches `Lease::reload`; (f) reader/writer framing of the
File engine's snapshot file: one iteration of the reader's cursor loop, evaluated symbolically, leaves the loop with the cursor
unchanged whenever the cursor stands on the `[lease_len][lease]` trailer the writer appends (bounded: 2400 concrete layouts).
"""
from .common import *
from .helpers_r2 import *

from .. import pathsym

EXPLANATION = __doc__

STORE_RX = r"(rust_rocksdb::.*::put_cf|collections::.*Map::insert|hash::map::HashMap::insert|DashMap::insert)$"
REMOVE_RX = r"(rust_rocksdb::.*::delete_cf|collections::.*Map::remove|hash::map::HashMap::remove|DashMap::remove)$"
is_register = key_pred(r"lease::Lease>?::register$")
is_unregister = key_pred(r"lease::Lease>?::unregister$")
is_touch = lambda k: is_register(k) or is_unregister(k)  # noqa: E731


def data_sites(F, body, rx, sm_suffix):
    """calls that write the key-value data: rocksdb batch/db writes, or map writes on a field of self"""
    out = []
    for (bi, t) in calls_matching(body, rx):
        k = strip_generics(callee_key(t) or "")
        if "rocksdb" in k or recv_has_self_field(F, body, t, sm_suffix):
            out.append((bi, t))
    return out


def check_arms(ctx, rule, root, enum_suffix, store_variants, remove_variants, label):
    """rule (a)/(b) over one function group; returns (#store sites, #remove sites)"""
    F = ctx.F
    sm_suffix = self_type_of(F, root.id).split("::")[-1]
    n_store = n_remove = 0
    for b in real_bodies(F, root):
        conds = edge_conditions(b)
        arms = variant_arms(b, conds, enum_suffix)
        if not arms:
            continue
        arm_entries = set(e for (_c, e) in arms)
        no_lease = none_edges_of_field(F, b, conds, "lease")
        errs = error_exit_blocks(b)
        for (rx, variants, pred, what) in ((STORE_RX, store_variants, is_touch, "store"), (REMOVE_RX, remove_variants, is_unregister, "remove")):
            touch = reaching_calls(F, b, pred, ctx.depth)
            for (bi, t) in data_sites(F, b, rx, sm_suffix):
                arm = arm_of(b, arms, bi)
                if arm is not None and not (arm[0].variants <= (store_variants | remove_variants)) and arm[0].variants:
                    # fail closed: a data write in the arm of a command variant the rule has no TTL policy for
                    ctx.bad(rule, "%s#%s:%s#unclassified-variant" % (fkey(root), what, "|".join(sorted(arm[0].variants))),
                            "UNRECOGNISED-FORM: %s: the %s arm writes key-value data but the rule has no TTL policy for that variant (known: store %s, remove %s)"
                            % (label, "|".join(sorted(arm[0].variants)), sorted(store_variants), sorted(remove_variants)), loc(b, bi))
                    continue
                if arm is None or not (arm[0].variants <= variants):
                    continue
                vname = "|".join(sorted(arm[0].variants))
                if what == "store":
                    n_store += 1
                else:
                    n_remove += 1
                # lease calls on the same key as the data write (key = arg 2 of put_cf/delete_cf(batch, cf, key..), arg 1 of map ops)
                ki = 2 if "rocksdb" in strip_generics(callee_key(t) or "") else 1
                ks = Slice(F, b).operand(t["args"][ki]) if len(t["args"]) > ki else None
                same = [x for (x, tt) in touch if ks is None or len(tt["args"]) < 2 or shares_value(ks, Slice(F, b).operand(tt["args"][1]))]
                avoid = set(same) | set(errs)
                w1 = path_avoiding(b, arm[1], [bi], avoid, no_lease) if arm[1] != bi else [bi]
                w2 = path_avoiding(b, bi, arm_entries | set(b.exits()), avoid, no_lease)
                bad = w1 is not None and w2 is not None
                key = "%s#%s:%s" % (fkey(root), what, vname)
                if what == "store" and "replay" in label:
                    msg = ("%s: the %s arm re-inserts a value on a path that neither registers a TTL nor unregisters the previous one. "
                           "History: the restored lease state (ttl_state.bin or an earlier WAL record) holds a deadline for k; a later WAL "
                           "record k=v2 without TTL is replayed and leaves it in place; cleanup deletes v2 at the old deadline. (Today the "
                           "replay also runs before any lease is injected, see C23-d, so the stale deadline comes back via reload)" % (label, vname))
                elif what == "store":
                    msg = ("%s: the %s arm stores a value for the key on a path that neither registers a TTL nor unregisters the "
                           "previous one. History: put(k,v1,ttl=5); then this command writes k=v2 without a TTL; at t=6s the lease "
                           "cleanup still finds k expired and deletes v2 (the new value dies by the old deadline)" % (label, vname))
                else:
                    msg = ("%s: the %s arm removes the key without unregistering its TTL. History: put(k,v1,ttl=5); delete(k); "
                           "put(k,v2) ... the stale registration later deletes a value it was never set for" % (label, vname))
                ctx.check(rule, key, not bad, "every path of the %s arm through the %s touches the key's lease" % (vname, what), msg,
                          loc(b, bi), bad and bpath(b, (w1 or [])[:-1] + (w2 or [])))
    return n_store, n_remove


def run(ctx):
    F = ctx.F
    # ---------------------------------------------------------------- C23-a / C23-b in apply_chunk
    impls = trait_impls(F, SM_TRAIT + "apply_chunk")
    ctx.floor("C23-a", len(impls), 2, "impls of StateMachine::apply_chunk")
    ns = nr = 0
    for root in impls:
        s, r = check_arms(ctx, "C23-a", root, "command::Command", {"Insert", "CompareAndSwap"}, {"Delete"}, "%s apply_chunk" % engine_of(root))
        ns += s
        nr += r
    ctx.floor("C23-a", ns, 4, "value stores in Insert / CompareAndSwap arms of apply_chunk (2 engines x 2 arms)")
    ctx.floor("C23-a", nr, 2, "key removals in Delete arms of apply_chunk")
    # File WAL replay (successful CAS is logged as Insert)
    rw = ctx.anchor(F.method, "FileStateMachine", "replay_wal")
    if rw:
        s, r = check_arms(ctx, "C23-a", rw, "WalOpCode", {"Insert", "CompareAndSwap"}, {"Delete"}, "File WAL replay")
        ctx.floor("C23-a", s, 2, "value stores in replay_wal (Insert, legacy CompareAndSwap)")
        ctx.floor("C23-a", r, 1, "key removal in replay_wal Delete arm")

    # ---------------------------------------------------------------- C23-c persistence plumbing (call-graph presence)
    to_snap = key_pred(r"lease::Lease>?::to_snapshot$")
    reload_ = key_pred(r"lease::Lease>?::reload$")
    n = 0
    for (meth, pred, what) in (("stop", to_snap, "to_snapshot"), ("generate_snapshot_data", to_snap, "to_snapshot"),
                               ("start", reload_, "reload"), ("apply_snapshot_from_file", reload_, "reload")):
        for root in trait_impls(F, SM_TRAIT + meth):
            n += 1
            hit = F.fn_reaches(root.id, pred, ctx.depth)
            ctx.check("C23-c", "%s#reaches:%s" % (fkey(root), what), bool(hit), "Lease::%s is reached" % what,
                      "%s never reaches Lease::%s: TTL state is not %s here, so deadlines are lost (keys live forever) or stale "
                      "across restart / snapshot install" % (fkey(root), what, "saved" if what == "to_snapshot" else "restored"),
                      "%s:%s" % (root.file, root.line))
    ctx.floor("C23-c", n, 8, "stop/generate_snapshot_data/start/apply_snapshot_from_file impls (2 engines)")

    # ---------------------------------------------------------------- C23-d TTL restore must not run while lease is the constant None
    n_ctor = 0
    sm_types = set(strip_generics(r.self_ty or "") for r in impls)
    for ty in sorted(sm_types):
        short_ty = ty.split("::")[-1]
        for (b, bi, si, st) in all_agg_sites(F, short_ty, None, crates=("d_engine_server",)):
            o = agg_field(st, "lease")
            if o is None:
                continue
            s = Slice(F, b).operand(o)
            if not (("agg", "core::option::Option", "None") in s.sources and not any(x[0] in ("param", "upvar", "call", "field") for x in s.sources)):
                continue
            n_ctor += 1
            obj = st["lhs"]["l"]
            dead = []
            for (ci, t) in b.calls():
                if not t["args"] or not b.dominates(bi, ci):
                    continue
                rs = Slice(F, b).operand(t["args"][0])
                if obj in rs.seen and F.call_reaches(t, is_register, ctx.depth):
                    dead.append((ci, t))
            root = F.root_of[b.id]
            ctx.check("C23-d", "%s#ttl-restore-with-lease-None" % fkey(root), not dead,
                      "no TTL restore runs on the freshly built object (lease == None)",
                      "%s builds the state machine with lease = None and then runs %s on it, whose Lease::register calls are therefore "
                      "dead: TTLs recorded in the WAL are never re-registered. History: put(k,v,ttl=5); kill -9; restart: WAL replay "
                      "re-inserts k but registers nothing (lease is injected later and ttl_state.bin is only written on graceful stop), "
                      "so k never expires" % (fkey(root), [strip_generics(callee_key(t)).split("::")[-1] for (_c, t) in dead]),
                      loc(b, dead[0][0]) if dead else loc(b, bi))
    ctx.floor("C23-d", n_ctor, 3, "state-machine constructors that start with lease = None")


# ---------------------------------------------------------------------------------------------- C23-e
_run_abcd23 = run


def run(ctx):
    _run_abcd23(ctx)
    lease_reload_replaces(ctx)
    snapshot_trailer_reachable(ctx)


def snapshot_trailer_reachable(ctx):
    """C23-f reader/writer framing of the File engine's snapshot file.  generate_snapshot_data writes `[record]* [lease_len u64][lease]`
    with no record count and no terminator, and apply_snapshot_from_file parses records in a cursor loop and hands what follows
    the loop to Lease::reload.  Decided by evaluating ONE iteration of the reader's loop symbolically (pathsym.run_region: every
    path from the loop header to the header again or out of the loop, with exact linear conditions over cursor, buffer length
    and the lengths read) and checking it on every concrete trailer position of a bounded domain: when the cursor stands on the
    trailer (cursor + 8 + L == buffer.len(), L = the u64 read at the cursor) the iteration must LEAVE the loop with the cursor
    UNCHANGED.  If it consumes bytes first, the code after the loop finds no trailer and Lease::reload is never reached: TTL
    registrations do not travel with the snapshot (and the ones the installing node held are not cleared).
    The writer side is anchored: after its record loop it appends to_be_bytes(len(lease snapshot)) and then the lease snapshot."""
    import itertools
    F = ctx.F
    n = 0
    for root in trait_impls(F, SM_TRAIT + "apply_snapshot_from_file"):
        for b in real_bodies(F, root):
            reloads = [bi for (bi, t) in b.calls() if re.search(r"Lease>?::reload$", callee_key(t) or "") or re.search(r"Lease>?::reload$", callee_decl(t) or "")]
            inserts = [bi for (bi, t) in calls_matching(b, r"HashMap(::<.*>)?::insert$")]
            if not reloads or not inserts:
                continue
            H, loop = natural_loop_of(b, inserts[0])
            if H is None or any(r in loop for r in reloads):
                continue
            n += 1
            key = "%s#record-loop-leaves-the-trailer" % fkey(root)
            where = loc(b, inserts[0])
            exits = set(y for x in loop for y in b.succ(x) if y not in loop and not b.blocks[y].get("cleanup") and b.blocks[y]["t"]["k"] != "unreachable")
            env = dict((l, ("sym", "l%d" % l)) for l in range(1, 4000))
            try:
                paths = pathsym.Evaluator(F, b).run_region(H, list(exits) + [H], env)
            except pathsym.TooComplex as e:
                ctx.bad("C23-f", key, "UNRECOGNISED-FORM: one iteration of the record loop cannot be evaluated: %s" % e, where)
                continue
            cont = [p for p in paths if p.ret == ("stop", H)]
            cur = [l for l in env if cont and cont[0].env.get(l) != env[l] and cont[0].env.get(l, ("x",))[0] == "bin" and pathsym.mentions(cont[0].env[l], lambda e, l=l: e == env[l])
                   and (b.local_ty(l) or "") in ("usize", "u64")]
            tb = pathsym.Table(paths)
            lens = [q for q in tb.quant if q[0] == "call" and re.search(r"::len$", q[1])]
            # lengths read from the buffer: opaque quantities that depend on the buffer (from_be_bytes over an index range, or a
            # `read_u64(&buffer, pos)` helper) - everything that is neither a plain symbol nor the buffer length
            reads = [q for q in tb.quant if q not in lens and not (q[0] == "sym") and
                     (pathsym.mentions(q, lambda e: e[0] == "call" and "from_be_bytes" in e[1]) or
                      (q[0] == "call" and pathsym.mentions(q, lambda e: e[0] == "sym" and e != q)))]
            if len(cur) != 1 or len(lens) != 1 or not reads or tb.bools or tb.vars:
                ctx.bad("C23-f", key, "UNRECOGNISED-FORM: record loop does not have the shape (one cursor, one buffer length, u64 lengths read from the buffer): cursors %s, "
                        "lengths %d, reads %d, other atoms %d" % ([b.local_name(l) for l in cur], len(lens), len(reads), len(tb.bools) + len(tb.vars)), where)
                continue
            c0 = env[cur[0]]
            # the length read AT the cursor: its index range starts at the cursor itself
            at_cursor = [q for q in reads if pathsym.mentions(q, lambda e: e[0] == "agg" and "Range" in str(e[1]) and any(f == "start" and v == c0 for (f, v) in e[3]))]
            if not at_cursor:
                # helper form: the read is a call one of whose arguments is the cursor itself
                at_cursor = [q for q in reads if q[0] == "call" and any(pathsym.strip_refs(a) == c0 for a in q[2])]
            if len(at_cursor) > 1:
                # later reads are positioned after the first one and therefore contain it as a sub-expression: take the innermost
                inner = [q for q in at_cursor if all(q2 == q or pathsym.mentions(q2, lambda e, q=q: e == q) for q2 in at_cursor)]
                at_cursor = inner if len(inner) == 1 else at_cursor
            if len(at_cursor) != 1:
                ctx.bad("C23-f", key, "UNRECOGNISED-FORM: cannot identify the length prefix read at the cursor (%d candidates)" % len(at_cursor), where)
                continue
            K, LEN = at_cursor[0], lens[0]
            others = [q for q in tb.quant if q not in (c0, K, LEN)]
            bad_w, n_w = None, 0
            for pos in range(0, 12):
                for L in range(0, 40):
                    for vals in itertools.product((0, 1, 8, 16, 100), repeat=len(others)):
                        q = {c0: pos, K: L, LEN: pos + 8 + L}
                        q.update(dict(zip(others, vals)))
                        w = pathsym.World(q, {}, {})
                        n_w += 1
                        try:
                            sel = [p for p in paths if all(w.holds(c) for c in p.conds if not pathsym._is_unknown(c[0]))]
                        except KeyError as e:
                            bad_w = ("unevaluable", str(e)[:80])
                            break
                        for p in sel:
                            try:
                                end = w.int(p.env[cur[0]])
                            except KeyError:
                                end = None
                            if p.ret == ("stop", H) or end != pos:
                                bad_w = bad_w or ({"cursor": pos, "lease_len": L, "buffer_len": pos + 8 + L}, "continues" if p.ret == ("stop", H) else "leaves with cursor=%s" % end)
                        if not sel:
                            bad_w = bad_w or ({"cursor": pos, "lease_len": L}, "no path")
                    if bad_w:
                        break
                if bad_w:
                    break
            ctx.check("C23-f", key, bad_w is None,
                      "on every trailer position (cursor + 8 + L == buffer.len(); %d concrete layouts) one iteration leaves the loop with the cursor unchanged: the lease section is left for Lease::reload" % n_w,
                      "with the cursor on the lease trailer the record loop %s (layout %s): generate_snapshot_data appends [lease_len][lease] right after the records with no count "
                      "or terminator, the reader takes the lease length for a key length, consumes the section and reaches the end of the buffer, so the Lease::reload after the loop "
                      "never runs. History: leader put(k,v,ttl=1h), snapshot, follower installs: data has k, the follower's lease has 0 registrations - k expires on the leader and "
                      "lives for ever on the follower; TTLs the follower held before the install are not cleared either" % ((bad_w or ("", ""))[1], (bad_w or ("", ""))[0]), where)
    ctx.floor("C23-f", n, 1, "apply_snapshot_from_file impls that parse records in a cursor loop and reload a lease trailer after it (File engine)")
    # writer anchor
    gens = [r for r in trait_impls(F, SM_TRAIT + "generate_snapshot_data") if "FileStateMachine" in r.id]
    for g in gens:
        okw = False
        for gb in real_bodies(F, g):
            ext = [(bi, t) for (bi, t) in calls_matching(gb, r"Vec(::<.*>)?::extend_from_slice$")]
            for i, (bi, t) in enumerate(ext):
                s1 = Slice(F, gb, through_calls=True).operand(t["args"][1])
                if s1.has_call(r"to_be_bytes$") and s1.has_call(r"Lease>?::to_snapshot$|::to_snapshot$"):
                    later = [(x, tt) for (x, tt) in ext if x != bi and gb.dominates(bi, x)]
                    okw = okw or any(Slice(F, gb, through_calls=True).operand(tt["args"][1]).has_call(r"::to_snapshot$") and
                                     not Slice(F, gb, through_calls=True).operand(tt["args"][1]).has_call(r"to_be_bytes$") for (x, tt) in later)
        ctx.check("C23-f", "%s#writes-[lease_len][lease]-trailer" % fkey(g), okw, "the writer appends to_be_bytes(len(lease snapshot)) and then the lease snapshot",
                  "UNRECOGNISED-FORM: generate_snapshot_data no longer ends with a [lease_len][lease] trailer: the reader check C23-f assumes that layout", "%s:%s" % (g.file, g.line))


def lease_reload_replaces(ctx):
    """C23-e a snapshot install REPLACES the TTL registrations: (1) every `Lease::reload` impl empties its key->expiry index on
    every path that returns Ok - an early `return Ok(())` before the clear (e.g. "the snapshot holds no TTL, nothing to do")
    leaves registrations of the pre-install state alive: a key put with a TTL and later overwritten without one keeps its old
    deadline on a node that catches up by snapshot, and the local cleanup deletes the new value; (2) every
    `apply_snapshot_from_file` impl of an engine that has a lease reaches `Lease::reload`."""
    F = ctx.F
    impls = [F.bodies[d] for (_s, d) in F.impls_of_method.get("d_engine_core::storage::lease::Lease::reload", []) if d in F.bodies and not is_test_id(d) and "mock" not in d.lower()]
    ctx.floor("C23-e", len(impls), 1, "impls of Lease::reload")
    for f in impls:
        ty = strip_generics(f.self_ty or "").split("::")[-1]
        b = F.main_body(f)
        clears = [bi for (bi, t) in b.calls() if re.search(r"::(clear|retain)$", strip_generics(callee_key(t) or "")) and t["args"]
                  and any(x[0] == "field" and strip_generics(x[1]).endswith(ty) for x in Slice(F, b).operand(t["args"][0]).sources)]
        clears += [bi for (bi, si, st) in writes_to_field(b, ty, "key_to_expiry")]
        errs = [x for x, tt in b.calls() if "from_residual" in (callee_key(tt) or "")]
        errs += [bi for bi, blk in enumerate(b.blocks) for st in blk["st"]
                 if st.get("rv", {}).get("k") == "agg" and st["rv"].get("v") == "Err" and strip_generics(st["rv"].get("adt") or "").endswith("result::Result")]
        wit = must_pass(b, 0, [], clears + errs, treat_exit_as_goal=True) if clears else [0]
        ctx.check("C23-e", "%s#replaces-registrations" % fkey(f), bool(clears) and wit is None,
                  "every Ok path of reload first empties the existing key->expiry index",
                  "%s::reload can return Ok without emptying the existing registrations: TTLs of the pre-install state survive a snapshot install. History: put(k,v1,ttl) on leader and "
                  "follower; put(k,v2) without TTL reaches the leader only; the leader snapshots with no live TTL; the follower installs it and keeps k's old deadline; its cleanup "
                  "deletes v2 at that deadline" % ty, "%s:%s" % (f.file, f.line), wit and clears and bpath(b, wit))
    n = 0
    for root in trait_impls(F, SM_TRAIT + "apply_snapshot_from_file"):
        ty = strip_generics(root.self_ty or "")
        has_lease = any(n_ == "lease" for p_, a in F.adts.items() if p_ == ty for v in a["variants"] for (n_, _t) in v["fields"])
        if not has_lease:
            continue
        n += 1
        r = F.fn_reaches(root.id, lambda k: re.search(r"Lease>?::reload$", k) is not None, 7)
        ctx.check("C23-e", "%s#reaches-Lease::reload" % fkey(root), r is not None, "the install hands the snapshot's lease section to Lease::reload",
                  "apply_snapshot_from_file of an engine with a lease never calls Lease::reload: TTL registrations do not travel with the snapshot", "%s:%s" % (root.file, root.line))
    ctx.floor("C23-e", n, 2, "apply_snapshot_from_file impls of engines that hold a lease")
