"""C23 TTL: overwrites and deletes clear an earlier TTL; TTL state is persisted (DESIGN 4/C23).
Decides, for every `StateMachine::apply_chunk` impl and for the File engine's WAL replay:
 (a) every command arm that STORES a value for a key (Insert, successful CompareAndSwap) touches the
     key's lease on every path that performs the store - it either `register`s a TTL or `unregister`s
     the previous one - so an old deadline can never outlive the value it was set for;
 (b) every arm that REMOVES a key `unregister`s it;
 (c) persistence plumbing exists: `Lease::to_snapshot` is reached from `stop` and from
     `generate_snapshot_data`, `Lease::reload` from `start` and from `apply_snapshot_from_file`;
 (d) code that restores TTLs at construction time is not run on an object whose lease is still the
     constant `None` (the restore would be dead).
Paths on which the engine has no lease configured (`self.lease` is None) and `?` error exits are not
witnesses.  Necessary conditions, not the whole TTL behaviour (expiry timing is not decided)."""
from .common import *
from .helpers_r2 import *

EXPLANATION = __doc__

STORE_RX = r"(rust_rocksdb::.*::put_cf|collections::.*Map::insert|hash::map::HashMap::insert|DashMap::insert)$"
REMOVE_RX = r"(rust_rocksdb::.*::delete_cf|collections::.*Map::remove|hash::map::HashMap::remove|DashMap::remove)$"
is_register = key_pred(r"lease::Lease>?::register$")
is_unregister = key_pred(r"lease::Lease>?::unregister$")
is_touch = lambda k: is_register(k) or is_unregister(k)  # noqa: E731


def data_sites(F, body, rx, sm_suffix):
    """calls that write the key-value data: rocksdb batch/db writes, or map writes on a field of self"""
    out = []
    for (bi, t) in calls_matching(body, rx):
        k = strip_generics(callee_key(t) or "")
        if "rocksdb" in k or recv_has_self_field(F, body, t, sm_suffix):
            out.append((bi, t))
    return out


def check_arms(ctx, rule, root, enum_suffix, store_variants, remove_variants, label):
    """rule (a)/(b) over one function group; returns (#store sites, #remove sites)"""
    F = ctx.F
    sm_suffix = self_type_of(F, root.id).split("::")[-1]
    n_store = n_remove = 0
    for b in real_bodies(F, root):
        conds = edge_conditions(b)
        arms = variant_arms(b, conds, enum_suffix)
        if not arms:
            continue
        arm_entries = set(e for (_c, e) in arms)
        no_lease = none_edges_of_field(F, b, conds, "lease")
        errs = error_exit_blocks(b)
        for (rx, variants, pred, what) in ((STORE_RX, store_variants, is_touch, "store"), (REMOVE_RX, remove_variants, is_unregister, "remove")):
            touch = reaching_calls(F, b, pred, ctx.depth)
            for (bi, t) in data_sites(F, b, rx, sm_suffix):
                arm = arm_of(b, arms, bi)
                if arm is not None and not (arm[0].variants <= (store_variants | remove_variants)) and arm[0].variants:
                    # fail closed: a data write in the arm of a command variant the rule has no TTL policy for
                    ctx.bad(rule, "%s#%s:%s#unclassified-variant" % (fkey(root), what, "|".join(sorted(arm[0].variants))),
                            "UNRECOGNISED-FORM: %s: the %s arm writes key-value data but the rule has no TTL policy for that variant (known: store %s, remove %s)"
                            % (label, "|".join(sorted(arm[0].variants)), sorted(store_variants), sorted(remove_variants)), loc(b, bi))
                    continue
                if arm is None or not (arm[0].variants <= variants):
                    continue
                vname = "|".join(sorted(arm[0].variants))
                if what == "store":
                    n_store += 1
                else:
                    n_remove += 1
                # lease calls on the same key as the data write (key = arg 2 of put_cf/delete_cf(batch, cf, key..), arg 1 of map ops)
                ki = 2 if "rocksdb" in strip_generics(callee_key(t) or "") else 1
                ks = Slice(F, b).operand(t["args"][ki]) if len(t["args"]) > ki else None
                same = [x for (x, tt) in touch if ks is None or len(tt["args"]) < 2 or shares_value(ks, Slice(F, b).operand(tt["args"][1]))]
                avoid = set(same) | set(errs)
                w1 = path_avoiding(b, arm[1], [bi], avoid, no_lease) if arm[1] != bi else [bi]
                w2 = path_avoiding(b, bi, arm_entries | set(b.exits()), avoid, no_lease)
                bad = w1 is not None and w2 is not None
                key = "%s#%s:%s" % (fkey(root), what, vname)
                if what == "store" and "replay" in label:
                    msg = ("%s: the %s arm re-inserts a value on a path that neither registers a TTL nor unregisters the previous one. "
                           "History: the restored lease state (ttl_state.bin or an earlier WAL record) holds a deadline for k; a later WAL "
                           "record k=v2 without TTL is replayed and leaves it in place; cleanup deletes v2 at the old deadline. (Today the "
                           "replay also runs before any lease is injected, see C23-d, so the stale deadline comes back via reload)" % (label, vname))
                elif what == "store":
                    msg = ("%s: the %s arm stores a value for the key on a path that neither registers a TTL nor unregisters the "
                           "previous one. History: put(k,v1,ttl=5); then this command writes k=v2 without a TTL; at t=6s the lease "
                           "cleanup still finds k expired and deletes v2 (the new value dies by the old deadline)" % (label, vname))
                else:
                    msg = ("%s: the %s arm removes the key without unregistering its TTL. History: put(k,v1,ttl=5); delete(k); "
                           "put(k,v2) ... the stale registration later deletes a value it was never set for" % (label, vname))
                ctx.check(rule, key, not bad, "every path of the %s arm through the %s touches the key's lease" % (vname, what), msg,
                          loc(b, bi), bad and bpath(b, (w1 or [])[:-1] + (w2 or [])))
    return n_store, n_remove


def run(ctx):
    F = ctx.F
    # ---------------------------------------------------------------- C23-a / C23-b in apply_chunk
    impls = trait_impls(F, SM_TRAIT + "apply_chunk")
    ctx.floor("C23-a", len(impls), 2, "impls of StateMachine::apply_chunk")
    ns = nr = 0
    for root in impls:
        s, r = check_arms(ctx, "C23-a", root, "command::Command", {"Insert", "CompareAndSwap"}, {"Delete"}, "%s apply_chunk" % engine_of(root))
        ns += s
        nr += r
    ctx.floor("C23-a", ns, 4, "value stores in Insert / CompareAndSwap arms of apply_chunk (2 engines x 2 arms)")
    ctx.floor("C23-a", nr, 2, "key removals in Delete arms of apply_chunk")
    # File WAL replay (successful CAS is logged as Insert)
    rw = ctx.anchor(F.method, "FileStateMachine", "replay_wal")
    if rw:
        s, r = check_arms(ctx, "C23-a", rw, "WalOpCode", {"Insert", "CompareAndSwap"}, {"Delete"}, "File WAL replay")
        ctx.floor("C23-a", s, 2, "value stores in replay_wal (Insert, legacy CompareAndSwap)")
        ctx.floor("C23-a", r, 1, "key removal in replay_wal Delete arm")

    # ---------------------------------------------------------------- C23-c persistence plumbing (call-graph presence)
    to_snap = key_pred(r"lease::Lease>?::to_snapshot$")
    reload_ = key_pred(r"lease::Lease>?::reload$")
    n = 0
    for (meth, pred, what) in (("stop", to_snap, "to_snapshot"), ("generate_snapshot_data", to_snap, "to_snapshot"),
                               ("start", reload_, "reload"), ("apply_snapshot_from_file", reload_, "reload")):
        for root in trait_impls(F, SM_TRAIT + meth):
            n += 1
            hit = F.fn_reaches(root.id, pred, ctx.depth)
            ctx.check("C23-c", "%s#reaches:%s" % (fkey(root), what), bool(hit), "Lease::%s is reached" % what,
                      "%s never reaches Lease::%s: TTL state is not %s here, so deadlines are lost (keys live forever) or stale "
                      "across restart / snapshot install" % (fkey(root), what, "saved" if what == "to_snapshot" else "restored"),
                      "%s:%s" % (root.file, root.line))
    ctx.floor("C23-c", n, 8, "stop/generate_snapshot_data/start/apply_snapshot_from_file impls (2 engines)")

    # ---------------------------------------------------------------- C23-d TTL restore must not run while lease is the constant None
    n_ctor = 0
    sm_types = set(strip_generics(r.self_ty or "") for r in impls)
    for ty in sorted(sm_types):
        short_ty = ty.split("::")[-1]
        for (b, bi, si, st) in all_agg_sites(F, short_ty, None, crates=("d_engine_server",)):
            o = agg_field(st, "lease")
            if o is None:
                continue
            s = Slice(F, b).operand(o)
            if not (("agg", "core::option::Option", "None") in s.sources and not any(x[0] in ("param", "upvar", "call", "field") for x in s.sources)):
                continue
            n_ctor += 1
            obj = st["lhs"]["l"]
            dead = []
            for (ci, t) in b.calls():
                if not t["args"] or not b.dominates(bi, ci):
                    continue
                rs = Slice(F, b).operand(t["args"][0])
                if obj in rs.seen and F.call_reaches(t, is_register, ctx.depth):
                    dead.append((ci, t))
            root = F.root_of[b.id]
            ctx.check("C23-d", "%s#ttl-restore-with-lease-None" % fkey(root), not dead,
                      "no TTL restore runs on the freshly built object (lease == None)",
                      "%s builds the state machine with lease = None and then runs %s on it, whose Lease::register calls are therefore "
                      "dead: TTLs recorded in the WAL are never re-registered. History: put(k,v,ttl=5); kill -9; restart: WAL replay "
                      "re-inserts k but registers nothing (lease is injected later and ttl_state.bin is only written on graceful stop), "
                      "so k never expires" % (fkey(root), [strip_generics(callee_key(t)).split("::")[-1] for (_c, t) in dead]),
                      loc(b, dead[0][0]) if dead else loc(b, bi))
    ctx.floor("C23-d", n_ctor, 3, "state-machine constructors that start with lease = None")
