"""C06 State-machine safety - apply-pipeline discipline (DESIGN 4/C06).
Decides for the path  commit notification -> DefaultCommitHandler::process_batch -> sm_apply_tx ->
StateMachineWorker -> DefaultStateMachineHandler::apply_chunk -> decode_entries -> StateMachine::apply_chunk:
(a) process_batch reads exactly `pending_range()`, iterates the entries in the order `get_entries_range`
    returned them, and every `Payload` variant arm pushes the entry into the batch handed to the worker;
(b) at-most-once dispatch: the start of `pending_range()` is computed from handler fields; between two reads
    of it the dispatcher must advance one of those fields (or wait for the apply) on every path that sent
    entries to the worker, or the consumer must compare `entry.index` with `last_applied` before applying;
(c) `last_applied` is stored only after a successful `StateMachine::apply_chunk`, with the last index of the
    applied chunk, and - unless (b) holds - monotonically (`fetch_max` / guarded by `>`);
(d) `decode_entries` turns every `Payload` variant into exactly one `ApplyEntry` carrying the entry's own
    index and term;  (e) each hop hands the received batch on unchanged.
Necessary conditions, not the whole behaviour: equality of the applied sequences across nodes and
`state == fold(log)` are not decided."""
from .common import *

EXPLANATION = __doc__
CRATES = ("d_engine_core", "d_engine_server", "d_engine_client", "d_engine_proto")  # proto: variant list of entry_payload::Payload
DSMH = "DefaultStateMachineHandler"
WRITE = r"atomic::Atomic\w*::(store|swap|fetch_max|fetch_add|compare_exchange\w*)$"
REORDER = re.compile(r"^(?!core::mem::).*::(rev|filter|filter_map|skip|skip_while|take|take_while|step_by|sort\w*|reverse|dedup\w*|retain|truncate|split_off|drain|pop|remove|swap_remove)$")


def ends(adt, suffix):
    a = strip_generics(adt)
    return a == suffix or a.endswith("::" + suffix)


def err_blocks(b):
    """blocks on error exits: `?` residuals and explicit `Err(..)` results"""
    out = set(x for x, t in b.calls() if "from_residual" in (callee_key(t) or ""))
    out |= set(bi for (bi, si, st) in return_aggs(b) if st["rv"]["k"] == "agg" and st["rv"].get("v") == "Err")
    return out


def deep_sources(F, body, op):
    """provenance of an operand, resolving variables captured by a closure in the enclosing body"""
    s = Slice(F, body, through_calls=True).operand(op)
    srcs = set(s.sources)
    pb = F.bodies.get(body.parent) if body.parent else None
    if pb is not None:
        for x in list(s.sources):
            if x[0] != "upvar":
                continue
            for blk in pb.blocks:
                for st in blk["st"]:
                    rv = st.get("rv") or {}
                    if rv.get("k") == "agg" and rv.get("closure") == body.id:
                        for fs, o in zip(rv.get("fs", []), rv["ops"]):
                            if fs.lstrip("*&") == x[1].lstrip("*&"):
                                srcs |= Slice(F, pb, through_calls=True).operand(o).sources
    return srcs


def payload_variants(F):
    for p, a in F.adts.items():
        if ends(p, "entry_payload::Payload"):
            return [v["name"] for v in a["variants"]]
    return []


def loop_over(F, b, pred):
    """(into_iter block, next block, local-set of the yielded element) of `for x in <value satisfying pred>`"""
    out = []
    for (x, t) in calls_matching(b, r"IntoIterator::into_iter$"):
        if not pred(Slice(F, b).operand(t["args"][0])):
            continue
        for (y, t2) in calls_matching(b, r"Iterator::next$"):
            if b.dominates(x, y) and t["dest"]["l"] in Slice(F, b).operand(t2["args"][0]).seen:
                out.append((x, y, t2["dest"]["l"]))
    return out


def per_variant_push(ctx, F, rule, fn, b, nxt, elem_local, is_pushed, what, hist):
    """every Payload variant arm reaches a push (satisfying is_pushed) before the next iteration / Ok return"""
    conds = edge_conditions(b)
    pushes = [x for x, t in calls_matching(b, r"Vec::push$") if elem_local in Slice(F, b).operand(t["args"][1]).seen and is_pushed(t)]
    # extracted helper: a workspace function that is handed the element and pushes it
    for x, t in b.calls():
        k = callee_key(t) or ""
        takes_vec = any("p" in a and re.match(r"^&mut alloc::vec::Vec<", b.local_ty(a["p"]["l"])) for a in t["args"])
        if k.startswith("d_engine_") and takes_vec and any(elem_local in Slice(F, b).operand(a).seen for a in t["args"]) \
                and F.call_reaches(t, lambda c: strip_generics(c).endswith("Vec::push"), 3):
            pushes.append(x)
    errs = err_blocks(b)
    variants = payload_variants(F)
    ctx.floor(rule, len(variants), 3, "variants of entry_payload::Payload")
    for v in variants:
        # an arm may cover several variants (`Payload::Noop(_) | Payload::Config(_) => ..`)
        arms = [c.edge["dst"] for c in conds.values() if c.kind == "discr" and c.variants and v in c.variants and ends(c.adt or "", "entry_payload::Payload")]
        if not arms:
            ctx.bad(rule, "%s#%s-arm" % (fkey(fn), v), "no arm for Payload::%s: %s" % (v, hist % v), "%s:%s" % (b.file, b.line))
            continue
        for a in arms:
            wit = must_pass(b, a, [nxt], pushes + list(errs), treat_exit_as_goal=True)
            ctx.check(rule, "%s#%s-arm" % (fkey(fn), v), wit is None, "Payload::%s -> %s" % (v, what),
                      "the Payload::%s arm can finish without %s: %s" % (v, what, hist % v), loc(b, a), wit and bpath(b, wit))
    return pushes


def run(ctx):
    F = ctx.F
    pb = ctx.anchor(F.method, "DefaultCommitHandler", "process_batch")
    ssw = ctx.anchor(F.method, "DefaultCommitHandler", "send_to_sm_worker")
    pr = ctx.anchor(F.method, DSMH, "pending_range")
    ac = ctx.anchor(F.method, DSMH, "apply_chunk")
    dec = ctx.anchor(F.fn, "command::decode_entries")
    wk = ctx.anchor(F.method, "StateMachineWorker", "apply_and_notify")
    if not (pb and ssw and pr and ac and dec and wk):
        return
    b = F.main_body(pb)

    def sm_send(body):
        return field_receiver_calls(F, body, "DefaultCommitHandler", "sm_apply_tx", r"mpsc::\w+::\w*Sender::send$")
    send_roots = set(F.root_of[x.id] for x in F.bodies.values() if x.crate == "d_engine_core" and not is_test_id(x.id) and sm_send(x))
    dispatch = [x for x, t in b.calls() if F.call_reaches(t, lambda k: k in send_roots, 3)] + [x for x, _ in sm_send(b)]
    ctx.floor("C06-b", len(dispatch), 3, "dispatch sites (send on sm_apply_tx, via send_to_sm_worker) in process_batch")

    # ---------------------------------------------------------------- C06-a fetch + order + exhaustive push
    prs = calls_matching(b, r"StateMachineHandler::pending_range$")
    ger = calls_matching(b, r"RaftLog::get_entries_range$")
    ctx.floor("C06-a", len(prs), 1, "pending_range() read in process_batch")
    ctx.floor("C06-a", len(ger), 1, "get_entries_range() in process_batch")
    for (x, t) in ger:
        s = Slice(F, b).operand(t["args"][1])
        ctx.check("C06-a", "%s#get_entries_range(pending_range)" % fkey(pb), s.has_call(r"::pending_range$") and not s.consts() and not any(y[0] == "binop" for y in s.sources),
                  "fetches exactly the pending range", "the fetched range is not exactly pending_range() (%s): entries are skipped or re-read" % sorted(s.sources, key=str)[:6], loc(b, x))
    loops = loop_over(F, b, lambda s: s.has_call(r"::get_entries_range$"))
    ctx.floor("C06-a", len(loops), 1, "`for entry in entries` over the fetched range")
    for (it, nxt, el) in loops:
        s = Slice(F, b).operand(b.term(it)["args"][0])
        reo = sorted(strip_generics(y[1]).split("::")[-1] for y in s.sources if y[0] == "call" and REORDER.search(strip_generics(y[1])))
        ctx.check("C06-a", "%s#log-order" % fkey(pb), not reo, "entries are iterated as returned by get_entries_range",
                  "the fetched entries pass through %s before dispatch: indexes are applied out of order or skipped" % reo, loc(b, it))
        per_variant_push(ctx, F, "C06-a", pb, b, nxt, el, lambda t: True, "a push of the entry into the batch for the SM worker",
                         "a committed Payload::%s entry is never handed to the worker, last_applied stops below it (ReadIndex / wait_applied hang) and later entries are applied over a gap")
    sb = F.main_body(ssw)
    for (x, t) in sm_send(sb):
        s = Slice(F, sb, through_calls=True).operand(t["args"][1])
        root = F.bodies[ssw.id]
        whole = (s.has_param("batch") or any(y[0] == "param" and y[1] == 2 for y in s.sources)) and not any(y[0] == "call" and REORDER.search(strip_generics(y[1])) for y in s.sources)
        ctx.check("C06-e", "%s#send(whole batch)" % fkey(ssw), whole and root.argc == 2, "sends the whole batch it was given",
                  "send_to_sm_worker does not forward its whole batch argument unchanged", loc(sb, x))

    # ---------------------------------------------------------------- C06-b at-most-once dispatch
    starts = set()
    for (x, t) in calls_matching(pr, r"RangeInclusive::new$"):
        s = Slice(F, pr, through_calls=True).operand(t["args"][0])
        starts |= set(y[2] for y in s.sources if y[0] == "field" and ends(y[1], DSMH))
    for (bi, si, st) in agg_sites(pr, "RangeInclusive") + agg_sites(pr, "ops::range::Range"):
        s = Slice(F, pr, through_calls=True).operand(st["rv"]["ops"][0])
        starts |= set(y[2] for y in s.sources if y[0] == "field" and ends(y[1], DSMH))
    ctx.floor("C06-b", len(starts), 1, "handler fields the start of pending_range() is computed from")
    writer_roots = {}
    for x in F.bodies.values():
        if x.crate != "d_engine_core" or is_test_id(x.id):
            continue
        for f in starts:
            for (bi, t) in field_receiver_calls(F, x, DSMH, f, WRITE):
                writer_roots.setdefault(F.root_of[x.id], []).append((f, x, bi, t))
    ctx.floor("C06-b", len(writer_roots), 1, "functions writing the range-start fields %s" % sorted(starts))

    def advances(k):
        return k in writer_roots or strip_generics(k).endswith("StateMachineHandler::wait_applied")
    adv = [x for x, t in b.calls() if F.call_reaches(t, advances, ctx.depth)]
    errs = err_blocks(b)
    undone = []
    for d in dispatch:
        if d in adv:
            continue
        wit = must_pass(b, d, [x for x, _ in prs], [a for a in adv if a != d] + list(errs), treat_exit_as_goal=True)
        if wit is not None:
            undone.append((d, wit))
    # consumer-side filter: entry.index compared with last_applied before the apply
    consumer = set([wk.id, ac.id, dec.id])
    for m in ("d_engine_core::state_machine_handler::StateMachineHandler::apply_chunk", "d_engine_core::storage::state_machine::StateMachine::apply_chunk"):
        consumer |= set(d for (_s, d) in F.impls_of_method.get(m, []) if d in F.bodies and not is_test_id(d) and "mock" not in d.lower())
    for r in list(consumer):
        for (k, tg, _bid, _bi) in F.callees(r):
            consumer |= set(x for x in tg if x.startswith("d_engine_") and x in F.bodies and k == x)
    filters = []
    for r in consumer:
        for x in F.group_bodies(r):
            for bi, blk in enumerate(x.blocks):
                for st in blk["st"]:
                    rv = st.get("rv") or {}
                    if rv.get("k") != "bin" or rv.get("op") not in ("Gt", "Ge", "Lt", "Le") or blk.get("cleanup"):
                        continue
                    sa, sb_ = deep_sources(F, x, rv["a"]), deep_sources(F, x, rv["b"])
                    for (i, j) in ((sa, sb_), (sb_, sa)):
                        idx = any(y[0] == "field" and y[2] == "index" and (ends(y[1], "common::Entry") or ends(y[1], "command::ApplyEntry")) for y in i)
                        la = any((y[0] == "field" and ((ends(y[1], DSMH) and y[2] == "last_applied") or y[2] == "last_applied_index"))
                                 or (y[0] == "call" and strip_generics(y[1]).endswith("::last_applied")) for y in j)
                        if idx and la:
                            filters.append((x, bi))
    filter_roots = set(F.root_of[x.id] for (x, _bi) in filters)
    at_most_once = (not undone) or bool(filters)
    wit = undone[0][1] if undone else None
    ctx.check("C06-b", "%s#dispatch-at-most-once" % fkey(pb), at_most_once,
              "every dispatch is followed by an advance of the range start %s (or a wait), or the consumer drops applied indexes" % sorted(starts),
              "process_batch sends the entries of pending_range() to the SM worker and returns without advancing the range start: pending_range() starts at "
              "%s+1 and %s is written only by %s, which runs later on the worker task; no consumer compares entry.index with last_applied. "
              "History: last_applied=0; commit 2 is notified -> process_batch dispatches [1,2]; commit 3 is notified before the worker has run -> "
              "process_batch reads pending_range()=1..=3 again and dispatches [1,2,3]; the worker applies 1,2,1,2,3: indexes 1 and 2 are applied twice "
              "(a CAS or a TTL put gives a different result the second time), and with a Noop/Config split ([1,2],[3..5] then [1,2],[3..6]) last_applied "
              "is stored 2,5,2,6." % ("/".join(sorted(starts)), "/".join(sorted(starts)), sorted(fkey(r) for r in writer_roots)),
              loc(b, undone[0][0]) if undone else None, wit and bpath(b, wit))

    # ---------------------------------------------------------------- C06-c last_applied stores
    ab = F.main_body(ac)
    conds = edge_conditions(ab)
    stores = []
    for r, lst in writer_roots.items():
        stores += [(f, x, bi, t) for (f, x, bi, t) in lst if f == "last_applied"]
    ctx.floor("C06-c", len(stores), 1, "writes of %s.last_applied" % DSMH)
    for (f, x, bi, t) in stores:
        key = "%s#last_applied" % fkey(F.root_of[x.id])
        name = strip_generics(callee_key(t)).split("::")[-1]
        xc = edge_conditions(x)
        val = Slice(F, x).operand(t["args"][1])

        def grows(c):
            return cmp_rel(F, c, lambda s: bool(s.seen & val.seen) and not s.has_field(DSMH, "last_applied"), lambda s: s.has_field(DSMH, "last_applied")) in (">", ">=")
        mono = name == "fetch_max" or guarded_by(x, bi, grows, xc)[0]
        ctx.check("C06-c", key + "#monotone", mono or at_most_once, "monotone (%s)" % ("fetch_max / guarded" if mono else "plain store, dispatch is at-most-once"),
                  "last_applied is written with a plain `%s` of a batch's last index while batches can be dispatched twice (C06-b): after [1,2],[3..5] are "
                  "re-dispatched as [1,2],[3..6] it goes 5 -> 2, pending_range() then restarts at 3 and wait_applied/ReadIndex observers see it move back" % name,
                  loc(x, bi))
        okg, wit, _ = guarded_by(x, bi, lambda c: c.kind == "discr" and c.variants == {"Ok"} and cond_calls(F, c, r"StateMachine::apply_chunk$"), xc)
        ctx.check("C06-c", key + "#after-Ok", okg, "stored only in the Ok arm of StateMachine::apply_chunk",
                  "last_applied can advance although StateMachine::apply_chunk failed: the failed indexes are never applied (gap)", loc(x, bi), wit and bpath(x, wit))
        v = Slice(F, x, through_calls=True).operand(t["args"][1])
        clos = [F.bodies[y[1]] for y in v.sources if y[0] == "closure" and y[1] in F.bodies]
        idx = any(Slice(F, cb).place({"l": 0}).has_field("common::Entry", "index") for cb in clos) or v.has_field("common::Entry", "index")
        last = any(y[0] == "call" and re.search(r"::(last|last_mut|max|max_by_key)$", strip_generics(y[1])) for y in v.sources)
        chunk = v.has_param("chunk") or any(y[0] == "param" and y[1] == 2 for y in v.sources)
        ctx.check("C06-c", key + "#value", idx and last and chunk and not v.consts(), "value = index of the last entry of the applied chunk",
                  "the value stored into last_applied is not the index of the last entry of the chunk (index=%s last=%s chunk=%s consts=%s): pending_range() "
                  "then skips or repeats entries" % (idx, last, chunk, v.consts()), loc(x, bi))

    # ---------------------------------------------------------------- C06-d decode exhaustiveness
    loops = loop_over(F, dec, lambda s: any(y[0] == "param" and y[1] == 1 for y in s.sources))
    ctx.floor("C06-d", len(loops), 1, "`for entry in entries` in decode_entries")
    aggs = agg_sites(dec, "command::ApplyEntry")
    ctx.floor("C06-d", len(aggs), 1, "ApplyEntry constructions in decode_entries (one per arm, or one after the match)")
    for (it, nxt, el) in loops:
        def is_apply_entry(t):
            s = Slice(F, dec).operand(t["args"][1])
            return any(y[0] == "agg" and ends(y[1], "command::ApplyEntry") for y in s.sources)
        pushes = per_variant_push(ctx, F, "C06-d", dec, dec, nxt, el, is_apply_entry, "a push of its ApplyEntry",
                                  "a committed Payload::%s entry yields no ApplyEntry: the state machine never sees its index and last_applied jumps over it")
        for p in pushes:
            again = must_pass(dec, p, [q for q in pushes], [nxt])
            ctx.check("C06-d", "%s#one-per-entry" % fkey(dec), again is None, "at most one ApplyEntry per log entry",
                      "one log entry can produce two ApplyEntry values: its command is applied twice", loc(dec, p), again and bpath(dec, again))
        for n, (bi, si, st) in enumerate(aggs):
            for fld in ("index", "term"):
                s = Slice(F, dec).operand(agg_field(st, fld))
                fs = set((strip_generics(y[1]).split("::")[-1], y[2]) for y in s.sources if y[0] == "field" and strip_generics(y[1]).startswith("d_engine_"))
                ok = fs == {("Entry", fld)} and el in s.seen and not s.consts() and not any(y[0] == "binop" for y in s.sources)
                variants = [v for v in payload_variants(F) if guarded_by(dec, bi, lambda c: c.kind == "discr" and c.variants and v in c.variants and ends(c.adt or "", "entry_payload::Payload"))[0]]
                ctx.check("C06-d", "%s#ApplyEntry(%s).%s" % (fkey(dec), "|".join(variants) or n, fld), ok, "%s = entry.%s" % (fld, fld),
                          "ApplyEntry.%s is not the %s of the entry being decoded (%s): the state machine records a wrong applied position" % (fld, fld, sorted(fs)), loc(dec, bi))

    # ---------------------------------------------------------------- C06-e hops hand the batch on unchanged
    hops = [(F.main_body(wk), r"StateMachineHandler::apply_chunk$", 1, lambda s: s.has_param("entries") or any(y[0] == "param" and y[1] == 4 for y in s.sources), "apply_and_notify -> handler.apply_chunk(entries)"),
            (ab, r"command::decode_entries$", 0, lambda s: s.has_param("chunk") or any(y[0] == "param" and y[1] == 2 for y in s.sources), "apply_chunk -> decode_entries(chunk)"),
            (ab, r"StateMachine::apply_chunk$", 1, lambda s: s.has_call(r"command::decode_entries$"), "apply_chunk -> sm.apply_chunk(decoded)")]
    for (hb, rx, argi, src_ok, what) in hops:
        cs = calls_matching(hb, rx)
        ctx.floor("C06-e", len(cs), 1, what)
        for (x, t) in cs:
            s = Slice(F, hb).operand(t["args"][argi])
            reo = [y[1] for y in s.sources if y[0] == "call" and REORDER.search(strip_generics(y[1]))]
            if F.root_of[hb.id] in filter_roots:  # the already-applied filter of C06-b is the one permitted drop
                reo = [y for y in reo if not re.search(r"::(filter|retain|skip_while)$", strip_generics(y))]
            ctx.check("C06-e", "%s#%s" % (fkey(F.root_of[hb.id]), what.split(" -> ")[1]), src_ok(s) and not reo, "passes the received batch on unchanged",
                      "%s does not pass the received batch on unchanged (%s): entries are dropped or reordered before the apply" % (what, reo or sorted(s.sources, key=str)[:5]), loc(hb, x))
    wr = ctx.anchor(F.method, "StateMachineWorker", "run")
    if wr:
        rb = F.main_body(wr)
        n = 0
        for xb in F.group_bodies(wr):
            for (x, t) in calls_matching(xb, r"StateMachineWorker::apply_and_notify$"):
                n += 1
                s = Slice(F, xb).operand(t["args"][3])
                ok = s.has_call(r"Receiver::(recv|try_recv)$") or s.has_field("StateMachineWorker", "sm_apply_rx") or ("yield",) in s.sources or any(y[0] == "upvar" for y in s.sources)
                reo = [y[1] for y in s.sources if y[0] == "call" and REORDER.search(strip_generics(y[1]))]
                ctx.check("C06-e", "%s#apply_and_notify(received)" % fkey(wr), ok and not reo and not s.consts(), "applies each received batch as received",
                          "the worker does not apply the batch it received unchanged", loc(xb, x))
        ctx.floor("C06-e", n, 2, "apply_and_notify calls in StateMachineWorker::run (normal + drain)")
        _ = rb
