"""C33 Log compaction never discards needed entries (DESIGN 4/C33).
Decides: (a) every purge issued by a role state (PurgeExecutor::execute_purge / RaftLog::purge_logs_up_to)
takes its boundary from SnapshotMetadata.last_included of a snapshot the node holds (directly, or through
LeaderState.scheduled_purge_upto which is only written from it) and is either guarded by can_purge_logs == true
(commit check; its decision table is C05-d) or follows the Some(..) arm of get_latest_snapshot_metadata after
a snapshot install; (b) SIBLINGS-AGREE(StateMachine::persist_last_snapshot_metadata): every engine's
implementation reaches a durable write - otherwise a restarted node that purged its log can offer lagging
peers neither the entries nor a snapshot; (c) snapshot routing at the purge boundary: in prepare_batch_requests a peer is
routed to snapshot exactly under `peer_next < first_entry_id()` (the first retained index taken as is) and an AppendEntries
request is built only under the complement.  The purge-boundary half of the restart story is C20-a.
Necessary conditions, not the whole behaviour."""
from .common import *
from .helpers_r3 import *

EXPLANATION = __doc__
PURGE = r"(PurgeExecutor::execute_purge|RaftLog::purge_logs_up_to)$"
SM_TRAIT = "d_engine_core::storage::state_machine::StateMachine"


def run(ctx):
    F = ctx.F
    # ---------------------------------------------------------------- C33-a purge boundary comes from a held snapshot, under a guard
    sites = [x for x in F.callers_of(lambda k: name_matches(k, PURGE))
             if F.bodies[x[1]].crate == "d_engine_core" and re.search(r"raft_role::\w+_state::", x[0]) and not name_matches(x[0], PURGE)]
    ctx.floor("C33-a", len(sites), 6, "purge call sites in role states")
    per = {}
    for (root, bid, bi, t) in sites:
        b = F.bodies[bid]
        nm = core.name_variants(callee_key(t))[0].split("::")[-1]
        k = "%s#%s" % (fkey(root), nm)
        n = per.get(k, 0)
        per[k] = n + 1
        key = "%s[%d]" % (k, n)
        s = XSlice(F, b).operand(t["args"][1])
        direct = s.has_field("SnapshotMetadata", "last_included")
        # a boundary assembled locally (LogId { index, term }) must take its *index* from the snapshot
        for blk in b.blocks:
            for st in blk["st"]:
                rv = st.get("rv")
                if rv and rv["k"] == "agg" and rv.get("adt", "").endswith("common::LogId") and st["lhs"]["l"] in s.seen:
                    direct = direct and XSlice(F, b).operand(agg_field(st, "index")).has_field("SnapshotMetadata", "last_included")
        via = None
        if not direct:
            flds = sorted(set((strip_generics(x[1]), x[2]) for x in s.sources if x[0] == "field" and strip_generics(x[1]).startswith("d_engine_core::raft_role")))
            for (adt, f) in flds:
                muts = [m for m in field_mutation_sites(F, adt.split("::")[-1], f) if not re.search(r"::(new|from|default)$", strip_generics(m[0]))]
                if not muts:
                    continue
                ok_all = True
                for (mroot, mb_, mbi) in muts:
                    vals = [st["rv"] for st in mb_.blocks[mbi]["st"] if "lhs" in st and any(pf[1] == f for pf in core.place_fields(st["lhs"]))]
                    for rv in vals:
                        xs = XSlice(F, mb_)
                        xs.rvalue(rv)
                        helpers_expand(F, xs, mb_)
                        if not xs.has_field("SnapshotMetadata", "last_included"):
                            ok_all = False
                if ok_all:
                    via = "%s.%s" % (adt.split("::")[-1], f)
        ctx.check("C33-a", key + "#boundary-from-snapshot", direct or bool(via),
                  "purge boundary is SnapshotMetadata.last_included%s" % (" (via %s)" % via if via else ""),
                  "the purge boundary does not derive from the last_included of a snapshot the node holds: entries not covered by any local snapshot can be deleted "
                  "and can then be served neither from the log nor by InstallSnapshot: %s" % sorted(x for x in s.sources if x[0] in ("call", "field"))[:5], loc(b, bi))
        conds = edge_conditions(b)
        g1, w1, _ = guarded_by(b, bi, lambda c: c.truth is True and cond_calls(F, c, r"::can_purge_logs$"), conds)
        g2, w2, _ = guarded_by(b, bi, lambda c: c.kind == "discr" and c.variants == {"Some"} and cond_calls(F, c, r"StateMachineHandler::get_latest_snapshot_metadata$"), conds)
        g3 = False
        if via:   # the scheduling write itself must be under can_purge_logs
            sch = [(cb, cbi) for (croot, cbid, cbi, ct) in F.callers_of(lambda k: strip_generics(k).endswith("LeaderState::" + via.split(".")[-1])) for cb in [F.bodies[cbid]]]
            g3 = bool(sch) and all(guarded_by(cb, cbi, lambda c: c.truth is True and cond_calls(F, c, r"::can_purge_logs$"))[0] for (cb, cbi) in sch)
        ctx.check("C33-a", key + "#guard", g1 or g2 or g3,
                  "purge is guarded by %s" % ("can_purge_logs == true" if g1 else ("a held snapshot (Some(metadata)) after install" if g2 else "can_purge_logs == true at scheduling time")),
                  "purge reachable without can_purge_logs == true and not under the Some(..) arm of get_latest_snapshot_metadata: uncommitted entries (index >= commit_index) can be purged",
                  loc(b, bi), (w1 or w2) and bpath(b, w1 or w2))

    # ---------------------------------------------------------------- C33-b snapshot metadata is persisted by every engine
    impls = []
    for im in F.impls:
        if im["crate"] != "d_engine_server":
            continue
        for it in im["items"]:
            if it.get("of") == SM_TRAIT + "::persist_last_snapshot_metadata":
                impls.append((im["self"], it["def"]))
    ctx.floor("C33-b", len(impls), 2, "StateMachine::persist_last_snapshot_metadata impls in d_engine_server")
    res = {}
    for (ty, d) in impls:
        res[ty] = reaches(F, d, DURABLE_SINK, max(ctx.depth, 8))
    ctx.floor("C33-b", len([1 for r in res.values() if r]), 1, "positive control: at least one engine persists the snapshot metadata durably")
    for (ty, d) in impls:
        r = res[ty]
        b = F.bodies[d]
        sib = [strip_generics(t2).split("::")[-1] for t2, r2 in res.items() if r2 and t2 != ty]
        ctx.check("C33-b", "%s::persist_last_snapshot_metadata#durable" % strip_generics(ty).split("::")[-1], bool(r),
                  "reaches a durable write: %s" % (r and [fkey(x) for x in r[1]][-2:]),
                  "persist_last_snapshot_metadata only updates memory (no file/database write reachable; sibling %s does persist it).  History: leader on this engine creates a "
                  "snapshot at index 100, purges the log up to 100 and restarts: snapshot_metadata() is None, so for a peer whose next_index <= 100 the leader has neither the "
                  "entries (purged) nor a snapshot to send ('Snapshot targets present but no snapshot available yet'): replication across the purge boundary stops" % sib,
                  "%s:%s" % (b.file, b.line))


def helpers_expand(F, xs, body):
    """merge the provenance of the enclosing function's parameters (through its callers) into xs"""
    from .helpers_r3 import _expand_params
    _expand_params(F, xs, body, 2, False, set())


# ---------------------------------------------------------------------------------------------- C33-c
_run_ab33 = run


def run(ctx):
    _run_ab33(ctx)
    snapshot_routing_at_the_purge_boundary(ctx)


def snapshot_routing_at_the_purge_boundary(ctx):
    """C33-c a peer whose next_index lies below the first entry the leader still has cannot be served from the log: it is routed
    to a snapshot.  In ReplicationHandler::prepare_batch_requests (1) the push into the snapshot-target list is guarded by
    `peer_next < first_entry_id()` with first_entry_id() taken as is (no arithmetic: `first - 1` leaves the peer that needs
    exactly the last purged entry on the AppendEntries path, with prev_log_term 0 and a batch that starts one index late);
    (2) every AppendEntries request built for a peer is guarded by the complement (`peer_next >= first_entry_id()`, or nothing
    was ever purged: first_entry_id() <= 1)."""
    F = ctx.F
    pb = F.try_method("ReplicationHandler", "prepare_batch_requests")
    if pb is None:
        ctx.floor("C33-c", 0, 1, "ReplicationHandler::prepare_batch_requests")
        return
    mb = F.main_body(pb)
    conds = edge_conditions(mb)

    def is_next(s):
        return s.has_field("ReplicationData", "peer_next_indices") and not s.has_call(r"RaftLog::first_entry_id$")

    def is_first(s):
        pure = not any(x[0] == "binop" for x in s.sources) and not s.has_call(r"(saturating|checked|wrapping)_(sub|add)$")
        return s.has_call(r"RaftLog::first_entry_id$") and pure and not s.has_field("ReplicationData", "peer_next_indices")

    def is_one(s):
        return s.consts() == ["1"] and not any(x[0] in ("call", "field", "param") for x in s.sources)
    builds = calls_matching(mb, r"ReplicationHandler::build_append_request$")
    ctx.floor("C33-c", len(builds), 1, "build_append_request call in prepare_batch_requests")
    h = None
    for (bi, t) in builds:
        hh, _e = loop_early_exits(F, mb, bi)
        h = h if h is not None else hh
    # the snapshot-target push: a Vec::push in the same per-peer loop whose value is the peer's id and that is NOT the request push
    pushes = []
    for (bi, t) in calls_matching(mb, r"Vec(::<.*>)?::push$"):
        vs = Slice(F, mb).operand(t["args"][1])
        if vs.has_call(r"build_append_request$"):
            continue
        if vs.has_field("NodeMeta", "id") and loop_early_exits(F, mb, bi)[0] == h and h is not None:
            pushes.append((bi, t))
    ctx.floor("C33-c", len(pushes), 1, "push of a peer id into the snapshot-target list inside the per-peer loop")
    def role_of(sl):
        return "next" if is_next(sl) else ("first" if is_first(sl) else None)

    def holds(rels, a, ops, b):
        """does a set of relations contain a REL b with REL in ops (either orientation)"""
        FL = {"<": ">", "<=": ">=", ">": "<", ">=": "<=", "==": "==", "!=": "!="}
        return any((x == a and y == b and r in ops) or (x == b and y == a and FL[r] in ops) for (x, r, y) in rels)

    def snap_pred(c):
        if cmp_rel(F, c, is_next, is_first) == "<":
            return True
        hr = helper_relations(F, c, role_of)     # `if Self::needs_snapshot(first, next)`: read the predicate helper
        return bool(hr) and all(holds(rs, "next", ("<",), "first") for rs in hr)

    def append_pred(c):
        if cmp_rel(F, c, is_next, is_first) in (">=", ">") or cmp_rel(F, c, is_first, is_one) in ("<=", "<", "=="):
            return True
        hr = helper_relations(F, c, role_of)
        return bool(hr) and all(holds(rs, "next", (">=", ">"), "first") or holds(rs, "first", ("<=", "<", "=="), "const:1") for rs in hr)
    for (bi, t) in pushes:
        ok, wit, _ = guarded_by(mb, bi, snap_pred, conds)
        ctx.check("C33-c", "%s#snapshot-target#next<first_entry_id" % fkey(pb), ok, "a peer is routed to snapshot exactly under peer_next < first_entry_id()",
                  "the snapshot routing is not guarded by `peer_next < first_entry_id()` with the first retained index taken as is: a peer that needs the last purged entry "
                  "(next_index == first_entry_id() - 1) stays on the AppendEntries path - prev_log_term goes out as 0 and the batch starts one index late: endless conflict loop, "
                  "or (boundary 1) a follower that resets its log and runs with a hole", loc(mb, bi), wit and bpath(mb, wit))
    for n, (bi, t) in enumerate(builds):
        ok, wit, _ = guarded_by(mb, bi, append_pred, conds)
        ctx.check("C33-c", "%s#build_append_request[%d]#next>=first_entry_id" % (fkey(pb), n), ok,
                  "AppendEntries is built only for peers whose next_index is still in the log (or nothing was purged)",
                  "an AppendEntries request can be built for a peer whose next_index is below first_entry_id(): the entries it needs are purged", loc(mb, bi), wit and bpath(mb, wit))
