"""C31 Leader notifications are consistent - coherent (leader, term) pairs (DESIGN 4/C31).
Decides where the pair handed to `Raft::notify_leader_change(leader, term)` comes from:
(a) a pair whose leader id is taken from an event payload while the term is the node's own `current_term()`
    is only coherent if every producer of that event with `Some(id)` first adopts the term of the request
    the id was read from (`update_current_term(req.term)` on the same path); otherwise `(new leader, my old
    term)` is published - a second leader for a term in which another node (possibly this one) was announced;
(b) `(self, term)` is published only in the `NoopCommitted` arm with the term carried by the event, the event
    is built only by LeaderState from a `PostCommitAction::LeaderNoop` whose term is `current_term()`;
(c) `LeaderDiscovered(id, term)` takes id and term from the same AppendEntries request, only after the
    request passed the `my_term > req.term` rejection and under `update_voted_for(committed: true)` == true,
    and the handler publishes exactly that pair;  (d) every other call publishes `None`.
Necessary conditions, not the whole behaviour (cross-node agreement of the published pairs is not decided)."""
from .common import *

EXPLANATION = __doc__


def ends(adt, suffix):
    a = strip_generics(adt)
    return a == suffix or a.endswith("::" + suffix)


def only_none(s):
    return any(x[0] == "agg" and x[2] == "None" for x in s.sources) and not any(x[0] in ("field", "param", "upvar", "call") or (x[0] == "agg" and x[2] == "Some") for x in s.sources)


def req_fields(s):
    """(adt, field) of proto request messages the value is read from"""
    return sorted(set((strip_generics(x[1]), x[2]) for x in s.sources if x[0] == "field" and strip_generics(x[1]).startswith("d_engine_proto::")))


def in_variant(b, bi, variant, conds):
    return guarded_by(b, bi, lambda c: c.kind == "discr" and c.variants == {variant} and ends(c.adt or "", "InternalEvent"), conds)[0]


def run(ctx):
    F = ctx.F
    nlc = ctx.anchor(F.method, "Raft", "notify_leader_change")
    if not nlc:
        return
    calls = [c for c in F.callers_of(lambda k: k == nlc.id) if not is_test_id(c[0])]
    # a thin wrapper (`fn notify_known_leader(&self, id, term) { self.notify_leader_change(Some(id), term) }`) is replaced by its
    # call sites, with the wrapper's parameters substituted by the callers' operands
    lifted = []
    for c in calls:
        (root, bid, bi, t) = c
        b = F.bodies[bid]
        rb = F.bodies.get(root)
        Ls, Ts = Slice(F, b).operand(t["args"][1]), Slice(F, b).operand(t["args"][2])
        pl = [x[1] for x in Ls.sources if x[0] == "param"]
        pt = [x[1] for x in Ts.sources if x[0] == "param"]
        only_params = pl and pt and not any(x[0] in ("call", "field") for x in (Ls.sources | Ts.sources))
        if only_params and rb is not None and not rb.impl_of and bid == root and strip_generics(self_type_of(F, root) or "").endswith("raft::Raft"):
            ws = [w for w in F.callers_of(lambda k, r=root: k == r) if not is_test_id(w[0]) and w[0] != root]
            for (wroot, wbid, wbi, wt) in ws:
                if max(pl[0], pt[0]) - 1 < len(wt["args"]):
                    t2 = dict(wt)
                    t2["args"] = [wt["args"][0], {"__wrap_some": wt["args"][pl[0] - 1]} if False else wt["args"][pl[0] - 1], wt["args"][pt[0] - 1]]
                    lifted.append((wroot, wbid, wbi, t2))
            if ws:
                continue
        lifted.append(c)
    calls = lifted
    ctx.floor("C31-a", len(calls), 5, "calls of Raft::notify_leader_change (wrappers replaced by their call sites)")
    relay = set()    # InternalEvent variants whose payload id is published with the node's own current term
    n_none = 0
    for (root, bid, bi, t) in calls:
        b = F.bodies[bid]
        conds = edge_conditions(b)
        L = Slice(F, b).operand(t["args"][1])
        T = Slice(F, b).operand(t["args"][2])
        own_term = T.has_call(r"::current_term$")
        key = "%s#notify_leader_change" % fkey(root)
        if only_none(L):
            n_none += 1
            ctx.ok("C31-d", key + "(None)", "publishes `no leader`", loc(b, bi))
        elif L.has_field("raft::Raft", "node_id"):
            ok = in_variant(b, bi, "NoopCommitted", conds) and T.has_field("InternalEvent", "term") and not own_term and not T.consts()
            ctx.check("C31-b", key + "(self)", ok, "(self, term) only in the NoopCommitted arm with the event's term",
                      "this node announces itself as leader outside the NoopCommitted arm or with a term that is not the one carried by NoopCommitted "
                      "(e.g. announced on BecomeLeader before the noop commits: a candidate that wins term T but never commits is reported as leader of T)",
                      loc(b, bi))
        elif L.has_field("InternalEvent", "0"):
            variants = [v for v in ("BecomeFollower", "LeaderDiscovered", "BecomeCandidate", "BecomeLeader", "BecomeLearner") if in_variant(b, bi, v, conds)]
            if T.has_field("InternalEvent", "1") and not own_term and variants == ["LeaderDiscovered"]:
                ctx.ok("C31-c", key + "(LeaderDiscovered)", "publishes exactly the (id, term) pair of the LeaderDiscovered event", loc(b, bi))
            elif own_term and len(variants) == 1:
                relay.add(variants[0])
                ctx.ok("C31-a", key + "(%s.0, current_term)" % variants[0], "pair = (event id, own term): producers are checked below", loc(b, bi))
            else:
                ctx.bad("C31-a", key + "(event id)", "leader id from an event payload paired with a term of unknown origin (arms %s)" % variants, loc(b, bi))
        else:
            ctx.bad("C31-a", key + "(?)", "unrecognised origin of the published leader id: %s" % sorted(L.sources, key=str)[:6], loc(b, bi))
    ctx.floor("C31-d", n_none, 2, "notify_leader_change(None, ..) calls")

    # ---------------------------------------------------------------- C31-a producers of relayed ids
    n_some = 0
    n_prod = 0
    for v in sorted(relay):
        for (b, bi, si, st) in all_agg_sites(F, "InternalEvent", v, crates=("d_engine_core", "d_engine_server")):
            if is_test_id(b.id):
                continue
            n_prod += 1
            s = Slice(F, b).operand(st["rv"]["ops"][0])
            if only_none(s):
                continue
            params = [x[1] for x in s.sources if x[0] == "param"]
            sites = []
            if params and b.parent is None and not req_fields(s):
                # helper forwarding its parameter: judge every call site of the helper
                for (root, cbid, cbi, ct) in F.callers_of(lambda k: k == b.id):
                    cb = F.bodies[cbid]
                    for p in params:
                        if p - 1 < len(ct["args"]):
                            sites.append((root, cb, cbi, Slice(F, cb).operand(ct["args"][p - 1])))
            else:
                sites.append((F.root_of[b.id], b, bi, s))
            for (root, cb, cbi, ids) in sites:
                n_some += 1
                if only_none(ids):
                    continue
                rf = req_fields(ids)
                desc = ",".join("%s.%s" % (a.split("::")[-1], f) for a, f in rf) or "?"
                ups = []
                for (ub, ut) in calls_matching(cb, r"RaftRoleState::update_current_term$"):
                    us = Slice(F, cb).operand(ut["args"][1])
                    same_req = any(us.has_field(a, "term") for a, _f in rf)
                    if same_req and (cb.dominates(ub, cbi) or must_pass(cb, cbi, [], [ub], treat_exit_as_goal=True) is None):
                        ups.append(ub)
                ctx.check("C31-a", "%s#%s(Some(%s))" % (fkey(root), v, desc), bool(rf) and bool(ups),
                          "the request's term is adopted on the same path, so (id, current_term) is the request's pair",
                          "%s(Some(%s)) is sent without update_current_term(<same request>.term); Raft::handle_internal_event then publishes "
                          "(that id, this node's OLD current_term). History: node A is leader of term 5 and has announced (A,5); it receives a "
                          "request of the term-6 leader B; A steps down and its listeners are told (B,5): two leaders for term 5, and B never "
                          "led term 5. (The correct (B,6) only follows when the replayed request is handled as follower.)" % (v, desc),
                          loc(cb, cbi))
    ctx.floor("C31-a", n_prod, 5, "constructions of relayed InternalEvent variants (%s)" % ",".join(sorted(relay)))
    ctx.floor("C31-a", n_some, 4, "producer sites examined (non-None constructions + call sites of id-forwarding helpers; 5 today, sites sharing a helper count once)")

    # ---------------------------------------------------------------- C31-b producers of NoopCommitted
    noops = [x for x in all_agg_sites(F, "InternalEvent", "NoopCommitted", crates=("d_engine_core", "d_engine_server")) if not is_test_id(x[0].id)]
    ctx.floor("C31-b", len(noops), 1, "constructions of InternalEvent::NoopCommitted")
    for (b, bi, si, st) in noops:
        root = F.root_of[b.id]
        s = Slice(F, b).operand(agg_field(st, "term"))
        ok = self_type_of(F, root).endswith("leader_state::LeaderState") and s.has_field("PostCommitAction", "term") and not s.consts()
        ctx.check("C31-b", "%s#NoopCommitted" % fkey(root), ok, "built by LeaderState from PostCommitAction::LeaderNoop.term",
                  "NoopCommitted is built outside LeaderState or its term is not the LeaderNoop action's term: (self, term) could be announced for a term "
                  "this node did not lead", loc(b, bi))
    acts = [x for x in all_agg_sites(F, "PostCommitAction", "LeaderNoop", crates=("d_engine_core",)) if not is_test_id(x[0].id)]
    ctx.floor("C31-b", len(acts), 1, "constructions of PostCommitAction::LeaderNoop")
    for (b, bi, si, st) in acts:
        root = F.root_of[b.id]
        s = Slice(F, b).operand(agg_field(st, "term"))
        ok = self_type_of(F, root).endswith("leader_state::LeaderState") and s.has_call(r"::current_term$") and not s.consts() and not req_fields(s)
        ctx.check("C31-b", "%s#LeaderNoop.term" % fkey(root), ok, "LeaderNoop.term = the leader's current_term()",
                  "the term recorded for the leader noop is not LeaderState::current_term(): the later (self, term) notification names a term this node "
                  "was not elected for", loc(b, bi))

    # ---------------------------------------------------------------- C31-c producer of LeaderDiscovered
    lds = [x for x in all_agg_sites(F, "InternalEvent", "LeaderDiscovered", crates=("d_engine_core", "d_engine_server")) if not is_test_id(x[0].id)]
    ctx.floor("C31-c", len(lds), 1, "constructions of InternalEvent::LeaderDiscovered")
    for (b, bi, si, st) in lds:
        root = F.root_of[b.id]
        key = "%s#LeaderDiscovered" % fkey(root)
        conds = edge_conditions(b)
        sid, stm = Slice(F, b).operand(st["rv"]["ops"][0]), Slice(F, b).operand(st["rv"]["ops"][1])
        fi, ft = req_fields(sid), req_fields(stm)
        link = lambda s: set(x for x in s.sources if x[0] in ("param", "upvar"))
        same = len(fi) == 1 and len(ft) == 1 and fi[0][0] == ft[0][0] and fi[0][1] == "leader_id" and ft[0][1] == "term" and link(sid) == link(stm) \
            and not stm.has_call(r"::current_term$") and not sid.consts() and not stm.consts()
        ctx.check("C31-c", key + "#pair", same, "(leader_id, term) of one request",
                  "LeaderDiscovered's id and term are not the leader_id and term of the same request (id from %s, term from %s): listeners get a leader "
                  "paired with a term it does not lead" % (fi, ft), loc(b, bi))
        req_adt = fi[0][0] if fi else "AppendEntriesRequest"

        def voted(c):
            return c.truth is True and cond_calls(F, c, r"update_voted_for$")
        okv, wit, _ = guarded_by(b, bi, voted, conds)
        ctx.check("C31-c", key + "#on-new-committed-vote", okv, "only when update_voted_for(..) returned true",
                  "LeaderDiscovered is sent without update_voted_for(..committed) having reported a change", loc(b, bi), wit and bpath(b, wit))

        def not_stale(c):
            return cmp_rel(F, c, lambda s: s.has_call(r"::current_term$"), lambda s: s.has_field(req_adt, "term")) in ("<=", "<", "==")
        oks, wit, _ = guarded_by(b, bi, not_stale, conds)
        ctx.check("C31-c", key + "#term-not-stale", oks, "only for requests with term >= current term",
                  "LeaderDiscovered(id, req.term) is reachable for a request whose term is below the node's term: a deposed leader of term 4 is "
                  "announced to listeners that already saw term 5 (terms decrease)", loc(b, bi), wit and bpath(b, wit))
        # the vote recorded for that leader is the same pair and is marked committed
        vf = []
        for (x, t) in calls_matching(b, r"update_voted_for$"):
            if not b.dominates(x, bi):
                continue
            vs = Slice(F, b).operand(t["args"][1])
            for (ab, asi, ast) in agg_sites(b, "VotedFor"):
                if ast["lhs"]["l"] in vs.seen:
                    vf.append((ab, ast))
        ctx.floor("C31-c", len(vf), 1, "VotedFor passed to update_voted_for before LeaderDiscovered")
        for (ab, ast) in vf:
            i, tm, cm = (Slice(F, b).operand(agg_field(ast, n)) for n in ("voted_for_id", "voted_for_term", "committed"))
            ok = req_fields(i) == [(req_adt, "leader_id")] and req_fields(tm) == [(req_adt, "term")] and cm.consts() == ["true"] and not any(x[0] in ("field", "param") for x in cm.sources)
            ctx.check("C31-c", key + "#VotedFor", ok, "VotedFor{id: req.leader_id, term: req.term, committed: true}",
                      "the vote that triggers LeaderDiscovered is not (req.leader_id, req.term, committed=true)", loc(b, ab))
