"""C29 Each write gets one correct response - structural clauses (DESIGN 4/C29).
Decides: (a) index agreement: WriteMetadata.start_idx (followed through helper parameters) derives from
the index allocation of the batch (pre_allocate_id_range), or from the same log state variable the
allocator reads, or the two state variables are always written together; (b) the pending-write map key
is start_idx + senders.len() - 1 and the commit drain maps sender i to start_idx + i; (c) in the
commit drain and in the ApplyCompleted handler every sender taken out of a queue is, on every path of
the loop body, either sent to or parked in another queue (not dropped while the leader lives);
(d) the ApplyCompleted handler chooses write_success / cas_failure by ApplyResult.succeeded of the
result that travels with the sender.  Necessary conditions, not the whole behaviour."""
from .helpers_r1 import *

EXPLANATION = __doc__

SEND = r"(MaybeCloneOneshotSender::send|oneshot::Sender::send)$"
ALLOC = r"RaftLog::(pre_allocate_id_range|pre_allocate_raft_logs_next_index)$"
ATOMIC_W = r"atomic::Atomic\w*::(store|fetch_add|fetch_sub|fetch_max|fetch_min|swap|compare_exchange|compare_exchange_weak|fetch_update)$"
ATOMIC_R = r"atomic::Atomic\w*::(load|fetch_add|fetch_sub|fetch_max|fetch_min|swap|compare_exchange|compare_exchange_weak|fetch_update)$"


def impl_bodies(F, trait_method_suffix):
    out = []
    for tm, lst in F.impls_of_method.items():
        if strip_generics(tm).endswith(trait_method_suffix):
            for (s, d) in lst:
                if d in F.bodies and not is_test_body(F.bodies[d]) and "Mock" not in s:
                    out.append(F.bodies[d])
    return out


def state_vars(F, bodies, rx):
    """(adt, field) atomics touched (per rx) by the given bodies"""
    out = set()
    for b in bodies:
        for gb in F.group_bodies(b):
            for (bi, t) in gb.calls():
                if re.search(rx, strip_generics(callee_key(t) or "")) and t["args"]:
                    for x in Slice(F, gb).operand(t["args"][0]).sources:
                        if x[0] == "field" and "d_engine" in x[1]:
                            out.add((strip_generics(x[1]).split("::")[-1], x[2]))
    return out


def run(ctx):
    F = ctx.F
    # ---------------------------------------------------------------- C29-a start_idx agrees with the allocated indexes
    sites = [(b, bi, si, st) for (b, bi, si, st) in all_agg_sites(F, "leader_state::WriteMetadata", None, crates=("d_engine_core",)) if not is_test_body(b)]
    ctx.floor("C29-a", len(sites), 2, "WriteMetadata constructions")
    alloc_impls = impl_bodies(F, "RaftLog::pre_allocate_id_range")
    ctx.floor("C29-a", len(alloc_impls), 1, "impls of RaftLog::pre_allocate_id_range")
    s_alloc = state_vars(F, alloc_impls, ATOMIC_R)
    lifted = []
    for (b, bi, si, st) in sites:
        op = agg_field(st, "start_idx")
        if op is None:
            continue
        for (ob, obi, s) in lifted_arg_sources(F, b, op):
            lifted.append((ob, obi if obi is not None else bi, s))
    ctx.floor("C29-a", len(lifted), 3, "start_idx producers (process_batch, send_heartbeat_or_batch, unified_write_and_linear_read)")
    producers, bad_prod, how = [], [], {}
    for (ob, obi, s) in lifted:
        name = fkey(F.root_of[ob.id])
        if name in producers:
            continue
        producers.append(name)
        if s.has_call(ALLOC) or s.has_field("PrepareResult", "first_index") or s.has_call(r"ReplicationCore::prepare_batch_requests$"):
            how[name] = "derives from the index allocation of this batch"
            continue
        readers = []
        for x in s.sources:
            if x[0] == "call" and re.search(r"RaftLog::\w+$", strip_generics(x[1])):
                readers += impl_bodies(F, "RaftLog::" + strip_generics(x[1]).split("::")[-1])
        s_start = state_vars(F, readers, ATOMIC_R)
        if s_start & s_alloc:
            how[name] = "reads the same log state variable as the allocator (%s)" % sorted(s_start & s_alloc)
            continue
        # two independent variables: every function that stores one must write the other
        lonely = []

        def writes_alloc_transitively(fn_body, depth=3):
            if state_vars(F, [fn_body], ATOMIC_W) & s_alloc:
                return True
            if depth == 0:
                return False
            for (_k, targets, _bid, _bi) in F.callees(fn_body.id):
                for tg in targets:
                    tb = F.bodies.get(tg)
                    if tb is not None and tb.crate == "d_engine_core" and writes_alloc_transitively(tb, depth - 1):
                        return True
            return False
        for bid, b in F.bodies.items():
            if b.crate != "d_engine_core" or is_test_body(b) or b.parent is not None:
                continue
            w = state_vars(F, [b], ATOMIC_W)
            if w & s_start and not (w & s_alloc):
                # a helper that writes the one variable is fine when every caller (it is treated as inlined) writes the other
                callers = [F.bodies[x[0]] for x in F.callers_of(lambda k, root=b.id: k == root) if x[0] != b.id and x[0] in F.bodies]
                callers = [c for c in callers if not is_test_body(c)]
                if callers and all(writes_alloc_transitively(c) for c in callers):
                    continue
                lonely.append(fkey(b))
        via = sorted(strip_generics(x[1]).split("::")[-1] for x in s.sources if x[0] == "call" and "RaftLog::" in strip_generics(x[1]))
        if s_start and not lonely:
            how[name] = "%s and %s are always written together" % (sorted(s_start), sorted(s_alloc))
        else:
            bad_prod.append((name, ob, obi, via, sorted(s_start), sorted(set(lonely))))
    if bad_prod:
        # Two independent variables (max_index / next_id).  Refined necessary condition (triage F29a): they must agree whenever a
        # leader assigns client-write indexes, i.e. (1) every TAIL truncation also lowers next_id, and (2) a front purge may empty the
        # log (max_index = 0) only because a new leader appends its no-op - which re-synchronises the two - before any client write.
        bad_tail, n_tail = tail_truncations_without_next_id(F, ctx.depth)
        ev = F.try_method("Raft", "handle_internal_event")
        noop_first = False
        if ev is not None:
            mbe = F.main_body(ev)
            ce = edge_conditions(mbe)
            for (nb, nt) in calls_matching(mbe, r"initiate_noop_commit$"):
                g, _w, _ = guarded_by(mbe, nb, lambda c: c.kind == "discr" and c.variants == {"BecomeLeader"}, ce)
                noop_first = noop_first or g
        lonely_all = sorted(set(x for bp in bad_prod for x in bp[5]))
        other = [x for x in lonely_all if not re.search(r"::(remove_range|purge_logs_up_to)$", x)]
        if n_tail >= 1 and not bad_tail and noop_first and not other:
            ctx.ok("C29-a", "WriteMetadata.start_idx#agrees-with-allocated-indexes",
                   "start_idx reads max_index, entries are allocated from next_id: every tail truncation (%d site(s)) lowers next_id too, and the only "
                   "other writers of max_index alone are front purges %s, after which a new leader appends its no-op (BecomeLeader arm) before any client write" % (n_tail, lonely_all))
            bad_prod = []
    if bad_prod:
        (name, ob, obi, via, ss, lonely) = bad_prod[0]
        ctx.bad("C29-a", "WriteMetadata.start_idx#agrees-with-allocated-indexes",
                "start_idx = %s()+1 (in %s) reads %s while the entries get their indexes from pre_allocate_id_range, which reads %s; %s store the former without "
                "touching the latter. History: a follower truncates 5..10 to [5',6'] (max_index=6, next_id stays 11) and is elected: its noop gets index 11 "
                "(log 1..6,11); a client batch is appended at 12.. but its responses are keyed from start_idx=last_entry_id()+1=7, so senders are answered for "
                "the wrong entries (or when a different index commits)" % ("/".join(via) or "?", sorted(x[0] for x in bad_prod), ss, sorted(s_alloc), lonely), loc(ob, obi))
    elif producers:
        ctx.ok("C29-a", "WriteMetadata.start_idx#agrees-with-allocated-indexes", "; ".join("%s: %s" % kv for kv in sorted(how.items())))

    # ---------------------------------------------------------------- C29-b key arithmetic
    ex = ctx.anchor(F.method, "LeaderState", "execute_and_process_raft_rpc")
    if ex:
        mb = F.main_body(ex)
        insc = field_calls(F, mb, "LeaderState", "pending_client_writes", r"BTreeMap::insert$")
        ctx.floor("C29-b", len(insc), 1, "pending_client_writes.insert")
        for (bi, t) in insc:
            s = Slice(F, mb).operand(t["args"][1])
            ops = set(x[1] for x in s.sources if x[0] == "binop")
            consts = [c for c in s.consts() if c.lstrip("-").isdigit()]
            ok = s.has_field("WriteMetadata", "start_idx") and s.has_field("WriteMetadata", "senders") and consts == ["1"] \
                and bool(ops & {"Add", "AddWithOverflow"}) and bool(ops & {"Sub", "SubWithOverflow"}) and not (ops & {"Mul", "MulWithOverflow", "Div"})
            # the key arithmetic start_idx + len - 1 is only the batch's LAST index when len >= 1: a sender-less batch (noop, config change:
            # one payload, no sender) would be keyed at start_idx - 1 = the previous entry, REPLACING the in-flight write batch that ends there
            cn = edge_conditions(mb)

            def nonempty(c):
                if not cond_reads_field(F, c, "WriteMetadata", "senders"):
                    return False
                if c.kind == "call" and re.search(r"::is_empty$", strip_generics(c.callee or "")):
                    return c.truth is False
                rel = cmp_rel(F, c, lambda x: x.has_field("WriteMetadata", "senders") and x.has_call(r"::len$"), lambda x: not x.has_field("WriteMetadata", "senders") and bool(x.consts()))
                return rel in (">", ">=", "!=")
            okn, witn, _ = guarded_by(mb, bi, nonempty, cn)
            ctx.check("C29-b", "%s#insert-only-with-senders" % fkey(ex), okn, "a batch is registered for answering only when it has senders (key = last index is then well defined)",
                      "pending_client_writes.insert is reachable with an EMPTY senders list: the key start_idx + 0 - 1 is the index of the previous log entry, so a sender-less "
                      "batch (noop / AddNode / BatchPromote: one payload, no sender) appended right behind an uncommitted client batch replaces that batch's WriteMetadata and "
                      "drops its response senders - those writes commit and apply but are never answered", loc(mb, bi), witn and bpath(mb, witn))
            ctx.check("C29-b", "%s#key=start_idx+len-1" % fkey(ex), ok, "batch is keyed by its last index start_idx + senders.len() - 1",
                      "pending_client_writes key is not start_idx + senders.len() - 1 (ops %s, constants %s): the batch is answered when a different index commits"
                      % (sorted(ops), consts), loc(mb, bi))
            v = Slice(F, mb).operand(t["args"][2])
            ctx.check("C29-b", "%s#value-is-that-batch" % fkey(ex), bool(v.seen & s.seen), "the stored metadata is the one the key was computed from",
                      "the WriteMetadata stored under the key is not the one whose start_idx/senders produced the key", loc(mb, bi))
    dpw = ctx.anchor(F.method, "LeaderState", "drain_pending_client_writes")
    if dpw:
        mb = F.main_body(dpw)
        park = field_calls(F, mb, "LeaderState", "pending_write_apply", r"HashMap::insert$")
        ctx.floor("C29-b", len(park), 1, "pending_write_apply.insert in drain_pending_client_writes")
        for (bi, t) in park:
            s = Slice(F, mb).operand(t["args"][1])
            ops = set(x[1] for x in s.sources if x[0] == "binop")
            consts = [c for c in s.consts() if c.lstrip("-").isdigit()]
            ok = s.has_field("WriteMetadata", "start_idx") and s.has_call(r"Iterator::enumerate$") and not consts \
                and bool(ops & {"Add", "AddWithOverflow"}) and not (ops - {"Add", "AddWithOverflow"})
            ctx.check("C29-b", "%s#sender-i-at-start_idx+i" % fkey(dpw), ok, "sender i waits for the apply result of index start_idx + i",
                      "the index under which sender i is parked is not start_idx + i (ops %s, constants %s): it receives the apply outcome of another entry" % (sorted(ops), consts),
                      loc(mb, bi))
            snd = Slice(F, mb).operand(t["args"][2])
            ctx.check("C29-b", "%s#same-enumeration" % fkey(dpw), bool(snd.seen & s.seen) and snd.has_call(r"Iterator::enumerate$"),
                      "index and sender come from the same enumerate() item", "the parked sender and its index do not come from the same enumeration item", loc(mb, bi))

    # ---------------------------------------------------------------- C29-c no sender dropped in the drain loops
    hac = ctx.anchor(F.method, "LeaderState", "handle_apply_completed")
    n_loops = 0
    for fn in (dpw, hac):
        if not fn:
            continue
        mb = F.main_body(fn)
        conds = edge_conditions(mb)
        sinks = [bi for (bi, t) in calls_matching(mb, SEND)] + [bi for (bi, t) in calls_matching(mb, r"(HashMap|BTreeMap|VecDeque|Vec)::(insert|push|push_back)$")
                                                                if any("Sender" in (mb.local_ty(l) or "") for a in t["args"][1:] for l in Slice(F, mb).operand(a).seen)]
        for eid, c in conds.items():
            if not (c.kind == "discr" and c.variants == {"Some"} and cond_calls(F, c, r"Iterator>?::next$")):
                continue
            dst = c.edge["dst"]
            carries = carries_sender(F, mb, dst)
            if not carries:
                continue
            n_loops += 1
            w = must_pass(mb, dst, [c.edge["src"]], sinks, treat_exit_as_goal=True)
            ctx.check("C29-c", "%s#loop-consumes-sender[%s]" % (fkey(fn), "apply-wait" if guarded_by(mb, dst, lambda x: x.truth is True and x.kind == "bool" and
                                                                                                      cond_reads_field(F, x, "WriteMetadata", "wait_for_apply"), conds)[0] else "reply"),
                      w is None, "every iteration sends to the sender or parks it", "an iteration can finish without answering or parking the sender it took out of the queue "
                      "(the client waits until its own timeout although the write was committed)", loc(mb, dst), w and bpath(mb, w))
    ctx.floor("C29-c", n_loops, 3, "sender-consuming loops in drain_pending_client_writes / handle_apply_completed")

    # ---------------------------------------------------------------- C29-d CAS outcome
    if hac:
        mb = F.main_body(hac)
        conds = edge_conditions(mb)
        n = 0
        for (nm, truth) in (("write_success", True), ("cas_failure", False)):
            for (bi, t) in calls_matching(mb, r"ClientResponse::%s$" % nm):
                n += 1
                ok, wit, _ = guarded_by(mb, bi, lambda c: c.kind == "bool" and c.truth is truth and cond_reads_field(F, c, "ApplyResult", "succeeded"), conds)
                ctx.check("C29-d", "%s#%s-iff-succeeded=%s" % (fkey(hac), nm, str(truth).lower()), ok, "chosen by ApplyResult.succeeded == %s" % truth,
                          "%s is sent on a path where ApplyResult.succeeded is not %s: the client is told the opposite of what was applied" % (nm, truth), loc(mb, bi), wit and bpath(mb, wit))
        ctx.floor("C29-d", n, 2, "write_success / cas_failure in handle_apply_completed")
        for (bi, t) in calls_matching(mb, SEND):
            snd = Slice(F, mb).operand(t["args"][0])
            res = set()
            for eid, c in conds.items():
                if c.kind == "bool" and cond_reads_field(F, c, "ApplyResult", "succeeded") and c.truth is True:
                    res |= cond_slice(F, c).seen
            ctx.check("C29-d", "%s#result-travels-with-sender" % fkey(hac), bool(snd.seen & res), "the sender and the ApplyResult it is answered from come from the same pair",
                      "the sender answered in handle_apply_completed is not paired with the ApplyResult whose `succeeded` is reported", loc(mb, bi))
