"""helpers shared by the rule modules"""
import re

from .. import core
from ..core import callee_key, callee_decl, strip_generics, Slice, edge_conditions, guarded_by, must_pass, is_noise_exp
from ..runner import bpath


from ..core import split_qualified, name_variants


def fkey(body_or_id):
    """stable short key of a function: `Type::method[::{closure#n}]` (no generics, no module path)"""
    fid = body_or_id.id if hasattr(body_or_id, "id") else body_or_id
    a, _tr, rest = split_qualified(fid)
    if a is not None:
        return "%s::%s" % (a.split("::")[-1], rest)
    parts = rest.split("::")
    # keep closures attached to their function
    i = len(parts) - 1
    while i > 0 and parts[i].startswith("{"):
        i -= 1
    return "::".join(parts[max(0, i - 1):])


short = fkey


def self_type_of(F, root):
    b = F.bodies.get(root if isinstance(root, str) else root.id)
    return strip_generics(b.self_ty) if b is not None and b.self_ty else ""


def callee_names(t):
    """candidate generic-stripped names of a call's callee: declared path, resolved path, and for a
    resolved `<A as B>::m` both `A::m` and `B::m`"""
    out = []
    for k in (callee_key(t), callee_decl(t)):
        if not k:
            continue
        a, b, rest = split_qualified(k)
        if a is None:
            out.append(rest)
        else:
            out.append("%s::%s" % (a, rest))
            if b:
                out.append("%s::%s" % (b, rest))
            out.append(strip_generics(k))
    return out


def calls_matching(body, rx, include_noise=False):
    r = re.compile(rx)
    out = []
    for bi, t in body.calls(include_noise=include_noise):
        if any(r.search(n) for n in callee_names(t)):
            out.append((bi, t))
    return out


def group_calls_matching(F, root, rx):
    out = []
    for b in F.group_bodies(root):
        for bi, t in calls_matching(b, rx):
            out.append((b, bi, t))
    return out


def agg_sites(body, adt_suffix, variant=None):
    """[(bi, si, stmt)] constructing ADT (path ends with adt_suffix) [variant]"""
    out = []
    for bi, blk in enumerate(body.blocks):
        if blk.get("cleanup"):
            continue
        for si, st in enumerate(blk["st"]):
            rv = st.get("rv")
            if rv and rv["k"] == "agg" and "adt" in rv and (rv["adt"] == adt_suffix or rv["adt"].endswith("::" + adt_suffix)):
                if variant is None or rv["v"] == variant:
                    out.append((bi, si, st))
    return out


def all_agg_sites(F, adt_suffix, variant=None, crates=None):
    out = []
    for bid, b in F.bodies.items():
        if crates and b.crate not in crates:
            continue
        for (bi, si, st) in agg_sites(b, adt_suffix, variant):
            out.append((b, bi, si, st))
    return out


def agg_field(st, name):
    rv = st["rv"]
    for f, o in zip(rv["fs"], rv["ops"]):
        if f == name:
            return o
    return None


def cond_slice(F, c, through_calls=False):
    """provenance of the value a switch edge tests"""
    body = c.body
    ck = "_slice_tc" if through_calls else "_slice"
    if getattr(c, ck, None) is not None:
        return getattr(c, ck)
    s = Slice(F, body, through_calls)
    setattr(c, ck, s)
    if c.kind == "cmp":
        s.operand(c.a)
        s.operand(c.b)
    elif c.kind == "discr":
        s.place(c.place)
    elif c.kind == "call":
        s.sources.add(("call", c.callee))
        for a in c.call["args"]:
            s.operand(a)
        # the tested value IS the call's result: the local it is stored in belongs to the slice
        d = c.call.get("dest") if isinstance(c.call, dict) else None
        if isinstance(d, dict) and "l" in d and not d.get("pj"):
            s.seen.add(d["l"])
    else:
        t = body.term(c.edge["src"])
        s.operand(t["d"])
    return s


def cond_calls(F, c, rx):
    """does the tested value derive from the result of a call matching rx"""
    return cond_slice(F, c).has_call(rx)


def cond_reads_field(F, c, adt_suffix, field):
    return cond_slice(F, c).has_field(adt_suffix, field)


def writes_to_field(body, adt_suffix, field):
    """[(bi, si, stmt)] assignments whose lhs place projects through (adt, field)"""
    out = []
    for bi, blk in enumerate(body.blocks):
        if blk.get("cleanup"):
            continue
        for si, st in enumerate(blk["st"]):
            if "lhs" in st:
                for (adt, f, _v) in core.place_fields(st["lhs"]):
                    if f == field and strip_generics(adt).endswith(adt_suffix):
                        out.append((bi, si, st))
        t = blk["t"]
        if t["k"] == "call":
            for (adt, f, _v) in core.place_fields(t["dest"]):
                if f == field and strip_generics(adt).endswith(adt_suffix):
                    out.append((bi, "term", t))
    return out


def field_receiver_calls(F, body, adt_suffix, field, method_rx):
    """calls whose first argument (receiver) derives from a place projecting (adt, field) and
    whose callee matches method_rx.  Used for atomics / collections held in fields."""
    r = re.compile(method_rx)
    out = []
    for bi, t in body.calls():
        k = strip_generics(callee_key(t) or "")
        if not r.search(k) or not t["args"]:
            continue
        s = Slice(F, body).operand(t["args"][0])
        if s.has_field(adt_suffix, field):
            out.append((bi, t))
    return out


def loc(body, bi):
    return body.loc(bi)


def return_aggs(body):
    """statements assigning an aggregate/const directly to _0"""
    out = []
    for bi, blk in enumerate(body.blocks):
        if blk.get("cleanup"):
            continue
        for si, st in enumerate(blk["st"]):
            if "lhs" in st and st["lhs"]["l"] == 0 and not st["lhs"].get("pj"):
                out.append((bi, si, st))
    return out


INTERIOR_MUT = re.compile(r"Atomic|Mutex|RwLock|Cell|Guard|watch::|Sender|Receiver|DashMap|SkipMap|ArcSwap|OnceLock|Notify")


def fields_read(body):
    """set of (adt, field) read anywhere in the body (operands, refs, discriminants, call args)"""
    out = set()

    def op(o):
        if o and "p" in o:
            for (adt, f, _v) in core.place_fields(o["p"]):
                out.add((strip_generics(adt), f))
    for blk in body.blocks:
        if blk.get("cleanup"):
            continue
        for st in blk["st"]:
            rv = st.get("rv")
            if not rv:
                continue
            for k in ("a", "b"):
                if k in rv:
                    op(rv[k])
            if "pl" in rv:
                for (adt, f, _v) in core.place_fields(rv["pl"]):
                    out.add((strip_generics(adt), f))
            for o in rv.get("ops", []):
                op(o)
        t = blk["t"]
        if t["k"] == "call":
            for a in t["args"]:
                op(a)
        elif t["k"] == "switch":
            op(t["d"])
    return out


def field_mutation_sites(F, adt_suffix, field):
    """places in the workspace where (adt, field) is assigned or mutably borrowed
    -> [(root fn id, body, block)]"""
    out = []
    for bid, b in F.bodies.items():
        for bi, blk in enumerate(b.blocks):
            if blk.get("cleanup"):
                continue
            for st in blk["st"]:
                hit = False
                if "lhs" in st:
                    pf = core.place_fields(st["lhs"])
                    if pf and pf[-1][1] == field and strip_generics(pf[-1][0]).endswith(adt_suffix):
                        hit = True
                    rv = st.get("rv")
                    if rv and rv["k"] in ("ref", "rawptr") and rv.get("mut", True):
                        pf = core.place_fields(rv["pl"])
                        if any(f == field and strip_generics(a).endswith(adt_suffix) for (a, f, _v) in pf):
                            hit = True
                if hit:
                    out.append((F.root_of[bid], b, bi))
            t = blk["t"]
            if t["k"] == "call":
                pf = core.place_fields(t["dest"])
                if pf and pf[-1][1] == field and strip_generics(pf[-1][0]).endswith(adt_suffix):
                    out.append((F.root_of[bid], b, bi))
    return out


def field_type(F, adt_suffix, field):
    for p, a in F.adts.items():
        if strip_generics(p).endswith(adt_suffix):
            for v in a["variants"]:
                for (n, t) in v["fields"]:
                    if n == field:
                        return t
    return None


def closure_functions(F, root, depth=5):
    """root fn ids reachable from root (including itself) within depth"""
    reach = F.reach_calls(root, depth)
    out = {F.root_of.get(root, root)}
    for k in reach:
        if k in F.bodies:
            out.add(F.root_of[k])
    return out


NEG = {"Lt": "Ge", "Le": "Gt", "Gt": "Le", "Ge": "Lt", "Eq": "Ne", "Ne": "Eq"}
SYM = {"Lt": "<", "Le": "<=", "Gt": ">", "Ge": ">=", "Eq": "==", "Ne": "!="}
FLIP = {"<": ">", "<=": ">=", ">": "<", ">=": "<=", "==": "==", "!=": "!="}


def cmp_rel(F, c, is_x, is_y):
    """For a 'cmp' Cond (one outgoing edge of a branch on a comparison) return the relation
    `X rel Y` that holds when this edge is taken, where is_x / is_y are predicates on the Slice of
    an operand that identify the two quantities.  None if the edge is not such a comparison."""
    if c.kind != "cmp" or c.truth is None:
        return None
    body = c.body
    if getattr(c, "_sa", None) is None:
        c._sa = Slice(F, body).operand(c.a)
        c._sb = Slice(F, body).operand(c.b)
    sa, sb = c._sa, c._sb
    op = c.op if c.truth else NEG[c.op]
    sym = SYM[op]
    if is_x(sa) and is_y(sb):
        return sym
    if is_y(sa) and is_x(sb):
        return FLIP[sym]
    return None


def const_operand(o):
    """literal value of a constant operand as string, else None"""
    if o is not None and "c" in o:
        return str(o.get("v", o["c"]))
    return None


# ---------------------------------------------------------------------- decision tables (pathsym)
from .. import pathsym
from ..pathsym import show as sym_show, mentions, agg_get, variant_of


def table_of(ctx, rule, fn_body, what):
    """decision table of a loop-free body; a function that is not loop-free (or too big) is a
    fail-closed violation of the rule"""
    try:
        paths, ev = pathsym.decision_table(ctx.F, fn_body)
        return paths
    except pathsym.TooComplex as e:
        ctx.bad(rule, "%s#table" % fkey(fn_body), "cannot build an exact decision table for %s: %s" % (what, e), "%s:%s" % (fn_body.file, fn_body.line))
        return None


def pick(exprs, pred, what):
    """the unique expression among `exprs` satisfying pred (None if absent, 'ambiguous' raises)"""
    c = [e for e in exprs if pred(e)]
    if len(c) == 1:
        return c[0]
    return None


def fld(base_pred, *names):
    """predicate: expression is base.<names...> where the innermost base satisfies base_pred; a field
    name matches with or without its enum-variant prefix ('Some.0' ~ '0')"""
    def p(e):
        cur = e
        for n in reversed(names):
            if cur[0] != "field" or not (cur[2] == n or cur[2].split(".")[-1] == n):
                return False
            cur = cur[1]
        return base_pred(cur)
    return p


def par(idx):
    return lambda e: e[0] == "param" and e[1] == idx


def run_table(ctx, rule, key, paths, outcome_of, spec, loc_=None, extra_exprs=(), variant_universe=None, what=""):
    """exhaustive comparison; records one obligation, returns the Table"""
    try:
        n, nbad, bad, tb = pathsym.check_table(paths, outcome_of, spec, extra_exprs=extra_exprs, variant_universe=variant_universe)
    except pathsym.TooComplex as e:
        ctx.bad(rule, key, "decision table too large for exhaustive evaluation: %s" % e, loc_)
        return None
    except KeyError as e:
        ctx.bad(rule, key, "UNRECOGNISED-FORM: the decision uses an expression the rule cannot evaluate: %s" % (pathsym.show(e.args[0]) if e.args and isinstance(e.args[0], tuple) else e,), loc_)
        return None
    ctx.check(rule, key, nbad == 0,
              "%s: decision table equals the specification on all %d worlds (%d paths)" % (what, n, len(paths)),
              "%s: decision table differs from the specification in %d of %d worlds, e.g. %s" % (what, nbad, n, bad[:2]), loc_)
    return tb


def control_dependent_on(body, site_block, pred, conds=None):
    """Is `site_block` control dependent on some branch whose tested condition satisfies pred
    (polarity-agnostic)?  True iff there is a switch block B with an edge Cond satisfying pred such that
    the site is reachable from one successor of B but not from another (without passing B again).
    returns (bool, [B...])"""
    if conds is None:
        conds = edge_conditions(body)
    by_src = {}
    for eid, c in conds.items():
        by_src.setdefault(c.edge["src"], []).append(c)
    hits = []
    for src, cs in by_src.items():
        if not any(pred(c) for c in cs):
            continue
        reach = []
        for c in cs:
            dst = c.edge["dst"]
            if dst == site_block:
                reach.append(True)
                continue
            seen, _p = body.reach_from(dst, avoid_blocks=frozenset([src]))
            reach.append(site_block in seen)
        if any(reach) and not all(reach):
            hits.append(src)
    return bool(hits), hits


def io_window_rule(ctx, rule):
    """(added after seeded mutant C10-s1) every place where the buffered log's IO task persists the
    not-yet-durable window reads it as get_entries_range(durable_index+1 ..= max_index), and any guard relating
    the two ends lets the single-entry window (start == end) through."""
    F = ctx.F
    bp = [b for b in F.find(r"BufferedRaftLog.*::batch_processor$") if b.parent is None]
    ctx.floor(rule, len(bp), 1, "BufferedRaftLog::batch_processor")
    n = 0
    for root in bp:
        for b in F.group_bodies(root):
            conds = None
            for (bi, t) in calls_matching(b, r"LogStore::persist_entries$"):
                arg = Slice(F, b, through_calls=True).operand(t["args"][1])
                if not arg.has_call(r"get_entries_range$") or not arg.has_field("BufferedRaftLog", "durable_index"):
                    continue  # entries handed over by a command / catch-up from a local high-water mark, not the durable window
                n += 1
                if conds is None:
                    conds = edge_conditions(b)
                is_start = lambda s: s.has_field("BufferedRaftLog", "durable_index") and not s.has_field("BufferedRaftLog", "max_index")
                is_end = lambda s: s.has_field("BufferedRaftLog", "max_index") and not s.has_field("BufferedRaftLog", "durable_index")
                window_ok = arg.has_field("BufferedRaftLog", "durable_index") and arg.has_field("BufferedRaftLog", "max_index") and "1" in arg.consts()
                bad_guard = None
                for eid, c in conds.items():
                    rel = cmp_rel(F, c, is_start, is_end)
                    if rel is None:
                        continue
                    g, _w, _ = guarded_by(b, bi, lambda x, c=c: x is c, conds)
                    if g and rel not in ("<=",):
                        bad_guard = rel
                ctx.check(rule, "%s#persist-window[%d]" % (fkey(root), n - 1), window_ok and bad_guard is None,
                          "IO task persists (durable_index, max_index] and the guard admits a single pending entry",
                          "the IO task's pending-window persist is %s: with exactly one entry above durable_index (start == end) nothing is written - "
                          "e.g. on graceful shutdown the last acknowledged entry is missing from the log after restart"
                          % ("guarded by `start %s end`" % bad_guard if bad_guard else "not reading durable_index+1 ..= max_index"), loc(b, bi))
    ctx.floor(rule, n, 3, "window persists in the IO task (notify arm, shutdown arm, safety timer)")


U64MAX_S = "18446744073709551615"


def tail_truncations_without_next_id(F, depth=6):
    """tail truncations of the in-memory log (remove_range(x..=u64::MAX)) that are not followed by a lowering
    write of the index allocator `next_id` -> [(fn, body, block, witness)] ; also returns the number of tail sites"""
    def lowers_next_id(body):
        return field_receiver_calls(F, body, "BufferedRaftLog", "next_id", r"atomic::Atomic\w*::(store|fetch_min|swap|compare_exchange|fetch_update|fetch_sub)$")
    fns = [b for b in F.bodies.values() if b.parent is None and self_type_of(F, b.id).endswith("buffered_raft_log::BufferedRaftLog")]
    rr = F.try_method("BufferedRaftLog", "remove_range")
    callee_lowers = bool(rr and any(lowers_next_id(b) for b in F.group_bodies(rr)))
    bad, n = [], 0
    for fn in fns:
        for b in F.group_bodies(fn):
            for (bi, t) in calls_matching(b, r"BufferedRaftLog::remove_range$"):
                s = Slice(F, b, through_calls=True).operand(t["args"][1])
                if U64MAX_S not in s.consts():
                    continue
                n += 1
                after = [x for (x, _t) in lowers_next_id(b) if x != bi]
                wit = None if callee_lowers else must_pass(b, bi, [], after, treat_exit_as_goal=True)
                if wit is not None and any(b.term(x)["k"] == "call" and "from_residual" in (callee_key(b.term(x)) or "") for x in wit) and after:
                    # only error exits skip the store
                    seen, _p = b.reach_from(bi, avoid_blocks=frozenset(after))
                    if all(b.term(x)["k"] != "return" or True for x in seen):
                        pass
                if wit is not None:
                    bad.append((fn, b, bi, wit))
    return bad, n


LOOP_NEXT_RX = r"(Iterator::next|VecDeque::pop_front|VecDeque::pop_back|Vec::pop|BTreeMap::pop_first|BTreeMap::pop_last|BinaryHeap::pop|mpsc::\w+::\w*Receiver::try_recv)$"


def loop_early_exits(F, body, inner_block, next_rx=LOOP_NEXT_RX):
    """The iterator loop (`for x in it`, `while let Some(x) = queue.pop_front()`) of `body` that contains `inner_block`: header = the innermost `Iterator::next` / pop call block that
    dominates inner_block and is reachable from it again.  Returns (header, [(src, dst)]) - the edges that leave the loop
    other than the `None` edge of the test of next()'s result (iterator exhausted): `break`, `return`, `?` inside the
    loop body.  (None, []) when inner_block is in no such loop."""
    heads = [bi for (bi, _t) in calls_matching(body, next_rx) if body.dominates(bi, inner_block) and bi != inner_block]
    best = None
    for h in heads:
        seen, _p = body.reach_from(inner_block)
        if h in seen and (best is None or body.dominates(best, h)):
            best = h
    if best is None:
        return None, []
    h = best
    n = len(body.blocks)
    preds = {}
    for x in range(n):
        if body.blocks[x].get("cleanup"):
            continue
        for y in body.succ(x):
            preds.setdefault(y, []).append(x)
    # natural loop: the nearest dominator H of the next() block that is the target of a back edge
    chain = [d for d in range(n) if body.dominates(d, h)]
    doms = list(chain)
    chain = sorted(doms, key=lambda d: -sum(1 for e in doms if body.dominates(e, d)))     # nearest dominator first
    H, loop = None, set()
    for d in chain:
        backs = [p for p in preds.get(d, []) if body.dominates(d, p)]
        if backs:
            H = d
            loop = {H}
            work = list(backs)
            while work:
                x = work.pop()
                if x in loop:
                    continue
                loop.add(x)
                work.extend(preds.get(x, []))
            break
    if H is None or h not in loop:
        return None, []
    conds = edge_conditions(body)
    exits = []
    for x in sorted(loop):
        for y in body.succ(x):
            if y in loop or body.blocks[y].get("cleanup") or body.blocks[y]["t"]["k"] == "unreachable":
                continue
            e = body.edge(x, y)
            c = conds.get(e["id"]) if e else None
            if c is not None and c.kind == "discr" and c.variants == {"None"} and cond_slice(F, c).has_call(next_rx):
                continue      # iterator exhausted: the regular exit
            exits.append((x, y))
    return h, exits


def is_test_id(x):
    """is a body id / function path test-only code (a test module, a test fn, a mock)?  Substring `test` alone is not enough:
    `get_latest_snapshot_metadata` contains it."""
    x = x or ""
    return re.search(r"(::tests?::|_tests?::|::tests?_\w*::|::test_\w+|_test$|_tests$|::mock\w*::|::Mock\w+|test_utils)", x) is not None


def natural_loop_of(body, block):
    """(header H, set of blocks) of the innermost natural loop containing `block`, or (None, set())"""
    n = len(body.blocks)
    preds = {}
    for x in range(n):
        if body.blocks[x].get("cleanup"):
            continue
        for y in body.succ(x):
            preds.setdefault(y, []).append(x)
    doms = [d for d in range(n) if body.dominates(d, block)]
    chain = sorted(doms, key=lambda d: -sum(1 for e in doms if body.dominates(e, d)))
    for d in chain:
        backs = [p for p in preds.get(d, []) if body.dominates(d, p)]
        if not backs:
            continue
        loop = {d}
        work = list(backs)
        while work:
            x = work.pop()
            if x in loop:
                continue
            loop.add(x)
            work.extend(preds.get(x, []))
        if block in loop:
            return d, loop
    return None, set()


def helper_relations(F, c, role_of):
    """c: the edge of a branch on the result of a loop-free bool-returning workspace helper `h(args..)`.
    role_of(slice of a call argument in the caller) -> a role label or None.  Returns, for the truth value of the edge, the list
    of relation sets that hold on the helper's paths producing that value: [ {(roleA, rel, roleB), ..}, .. ] with rel in
    < <= > >= == != and constants as roles 'const:<v>'; None when the helper cannot be read."""
    from .. import pathsym
    if c.kind != "call" or c.truth is None or not isinstance(c.call, dict):
        return None
    tg = [x for x in F.resolve_targets(c.call) if x in F.bodies]
    if len(tg) != 1:
        return None
    hb = F.bodies[tg[0]]
    if (hb.local_ty(0) or "") != "bool":
        return None
    try:
        paths, _ev = pathsym.decision_table(F, F.main_body(hb))
    except pathsym.TooComplex:
        return None
    roles = {}
    for i, a in enumerate(c.call["args"]):
        roles[i + 1] = role_of(Slice(F, c.body).operand(a))

    def role(e):
        e = pathsym.strip_refs(e)
        if e[0] == "param":
            return roles.get(e[1])
        if e[0] == "const":
            return "const:%s" % e[1]
        return None
    OPS = {"Lt": "<", "Le": "<=", "Eq": "==", "Ne": "!="}
    NEGS = {"<": ">=", "<=": ">", "==": "!=", "!=": "=="}

    def rel_of(e, truth):
        e = pathsym.strip_refs(e)
        if e[0] == "not":
            return rel_of(e[1], not truth)
        if e[0] == "bin" and e[1] in OPS:
            a, b = role(e[2]), role(e[3])
            if a is None or b is None:
                return None
            r = OPS[e[1]] if truth else NEGS[OPS[e[1]]]
            return (a, r, b)
        return None
    out = []
    for p in paths:
        rels = set()
        for (ce, o) in p.conds:
            if isinstance(o, bool):
                r = rel_of(ce, o)
                if r:
                    rels.add(r)
        r0 = pathsym.strip_refs(p.ret) if p.ret is not None else None
        if r0 is None:
            continue
        if r0[0] == "const":
            if (r0[1] in ("true", "1")) == c.truth:
                out.append(rels)
        else:
            r = rel_of(r0, c.truth)
            out.append(rels | ({r} if r else set()))
    return out
