"""helpers shared by the rule modules"""
import re

from .. import core
from ..core import callee_key, callee_decl, strip_generics, Slice, edge_conditions, guarded_by, must_pass, is_noise_exp
from ..runner import bpath


def split_qualified(fid):
    """`<A<T> as B<T>>::rest` -> (A, B, rest) with generics stripped; plain paths -> (None, None, path)"""
    if fid.startswith("<"):
        depth = 0
        for i, c in enumerate(fid):
            if c == "<":
                depth += 1
            elif c == ">":
                depth -= 1
                if depth == 0:
                    inner = fid[1:i]
                    rest = fid[i + 1:].lstrip(":")
                    # split on top-level " as "
                    d2 = 0
                    for j in range(len(inner)):
                        ch = inner[j]
                        if ch == "<":
                            d2 += 1
                        elif ch == ">":
                            d2 -= 1
                        elif d2 == 0 and inner.startswith(" as ", j):
                            return strip_generics(inner[:j]), strip_generics(inner[j + 4:]), strip_generics(rest)
                    return strip_generics(inner), None, strip_generics(rest)
    return None, None, strip_generics(fid)


def fkey(body_or_id):
    """stable short key of a function: `Type::method[::{closure#n}]` (no generics, no module path)"""
    fid = body_or_id.id if hasattr(body_or_id, "id") else body_or_id
    a, _tr, rest = split_qualified(fid)
    if a is not None:
        return "%s::%s" % (a.split("::")[-1], rest)
    parts = rest.split("::")
    # keep closures attached to their function
    i = len(parts) - 1
    while i > 0 and parts[i].startswith("{"):
        i -= 1
    return "::".join(parts[max(0, i - 1):])


short = fkey


def self_type_of(F, root):
    b = F.bodies.get(root if isinstance(root, str) else root.id)
    return strip_generics(b.self_ty) if b is not None and b.self_ty else ""


def calls_matching(body, rx, include_noise=False):
    r = re.compile(rx)
    out = []
    for bi, t in body.calls(include_noise=include_noise):
        k = callee_key(t) or ""
        d = callee_decl(t) or ""
        if r.search(strip_generics(k)) or r.search(strip_generics(d)):
            out.append((bi, t))
    return out


def group_calls_matching(F, root, rx):
    out = []
    for b in F.group_bodies(root):
        for bi, t in calls_matching(b, rx):
            out.append((b, bi, t))
    return out


def agg_sites(body, adt_suffix, variant=None):
    """[(bi, si, stmt)] constructing ADT (path ends with adt_suffix) [variant]"""
    out = []
    for bi, blk in enumerate(body.blocks):
        if blk.get("cleanup"):
            continue
        for si, st in enumerate(blk["st"]):
            rv = st.get("rv")
            if rv and rv["k"] == "agg" and "adt" in rv and (rv["adt"] == adt_suffix or rv["adt"].endswith("::" + adt_suffix)):
                if variant is None or rv["v"] == variant:
                    out.append((bi, si, st))
    return out


def all_agg_sites(F, adt_suffix, variant=None, crates=None):
    out = []
    for bid, b in F.bodies.items():
        if crates and b.crate not in crates:
            continue
        for (bi, si, st) in agg_sites(b, adt_suffix, variant):
            out.append((b, bi, si, st))
    return out


def agg_field(st, name):
    rv = st["rv"]
    for f, o in zip(rv["fs"], rv["ops"]):
        if f == name:
            return o
    return None


def cond_slice(F, c, through_calls=False):
    """provenance of the value a switch edge tests"""
    body = c.body
    s = Slice(F, body, through_calls)
    if c.kind == "cmp":
        s.operand(c.a)
        s.operand(c.b)
    elif c.kind == "discr":
        s.place(c.place)
    elif c.kind == "call":
        s.sources.add(("call", c.callee))
        for a in c.call["args"]:
            s.operand(a)
    else:
        t = body.term(c.edge["src"])
        s.operand(t["d"])
    return s


def cond_calls(F, c, rx):
    """does the tested value derive from the result of a call matching rx"""
    s = cond_slice(F, c)
    r = re.compile(rx)
    return any(x[0] == "call" and r.search(strip_generics(x[1])) for x in s.sources)


def cond_reads_field(F, c, adt_suffix, field):
    return cond_slice(F, c).has_field(adt_suffix, field)


def writes_to_field(body, adt_suffix, field):
    """[(bi, si, stmt)] assignments whose lhs place projects through (adt, field)"""
    out = []
    for bi, blk in enumerate(body.blocks):
        if blk.get("cleanup"):
            continue
        for si, st in enumerate(blk["st"]):
            if "lhs" in st:
                for (adt, f, _v) in core.place_fields(st["lhs"]):
                    if f == field and strip_generics(adt).endswith(adt_suffix):
                        out.append((bi, si, st))
        t = blk["t"]
        if t["k"] == "call":
            for (adt, f, _v) in core.place_fields(t["dest"]):
                if f == field and strip_generics(adt).endswith(adt_suffix):
                    out.append((bi, "term", t))
    return out


def field_receiver_calls(F, body, adt_suffix, field, method_rx):
    """calls whose first argument (receiver) derives from a place projecting (adt, field) and
    whose callee matches method_rx.  Used for atomics / collections held in fields."""
    r = re.compile(method_rx)
    out = []
    for bi, t in body.calls():
        k = strip_generics(callee_key(t) or "")
        if not r.search(k) or not t["args"]:
            continue
        s = Slice(F, body).operand(t["args"][0])
        if s.has_field(adt_suffix, field):
            out.append((bi, t))
    return out


def loc(body, bi):
    return body.loc(bi)


def return_aggs(body):
    """statements assigning an aggregate/const directly to _0"""
    out = []
    for bi, blk in enumerate(body.blocks):
        if blk.get("cleanup"):
            continue
        for si, st in enumerate(blk["st"]):
            if "lhs" in st and st["lhs"]["l"] == 0 and not st["lhs"].get("pj"):
                out.append((bi, si, st))
    return out


INTERIOR_MUT = re.compile(r"Atomic|Mutex|RwLock|Cell|Guard|watch::|Sender|Receiver|DashMap|SkipMap|ArcSwap|OnceLock|Notify")


def fields_read(body):
    """set of (adt, field) read anywhere in the body (operands, refs, discriminants, call args)"""
    out = set()

    def op(o):
        if o and "p" in o:
            for (adt, f, _v) in core.place_fields(o["p"]):
                out.add((strip_generics(adt), f))
    for blk in body.blocks:
        if blk.get("cleanup"):
            continue
        for st in blk["st"]:
            rv = st.get("rv")
            if not rv:
                continue
            for k in ("a", "b"):
                if k in rv:
                    op(rv[k])
            if "pl" in rv:
                for (adt, f, _v) in core.place_fields(rv["pl"]):
                    out.add((strip_generics(adt), f))
            for o in rv.get("ops", []):
                op(o)
        t = blk["t"]
        if t["k"] == "call":
            for a in t["args"]:
                op(a)
        elif t["k"] == "switch":
            op(t["d"])
    return out


def field_mutation_sites(F, adt_suffix, field):
    """places in the workspace where (adt, field) is assigned or mutably borrowed
    -> [(root fn id, body, block)]"""
    out = []
    for bid, b in F.bodies.items():
        for bi, blk in enumerate(b.blocks):
            if blk.get("cleanup"):
                continue
            for st in blk["st"]:
                hit = False
                if "lhs" in st:
                    pf = core.place_fields(st["lhs"])
                    if pf and pf[-1][1] == field and strip_generics(pf[-1][0]).endswith(adt_suffix):
                        hit = True
                    rv = st.get("rv")
                    if rv and rv["k"] in ("ref", "rawptr") and rv.get("mut", True):
                        pf = core.place_fields(rv["pl"])
                        if any(f == field and strip_generics(a).endswith(adt_suffix) for (a, f, _v) in pf):
                            hit = True
                if hit:
                    out.append((F.root_of[bid], b, bi))
            t = blk["t"]
            if t["k"] == "call":
                pf = core.place_fields(t["dest"])
                if pf and pf[-1][1] == field and strip_generics(pf[-1][0]).endswith(adt_suffix):
                    out.append((F.root_of[bid], b, bi))
    return out


def field_type(F, adt_suffix, field):
    for p, a in F.adts.items():
        if strip_generics(p).endswith(adt_suffix):
            for v in a["variants"]:
                for (n, t) in v["fields"]:
                    if n == field:
                        return t
    return None


def closure_functions(F, root, depth=5):
    """root fn ids reachable from root (including itself) within depth"""
    reach = F.reach_calls(root, depth)
    out = {F.root_of.get(root, root)}
    for k in reach:
        if k in F.bodies:
            out.add(F.root_of[k])
    return out


NEG = {"Lt": "Ge", "Le": "Gt", "Gt": "Le", "Ge": "Lt", "Eq": "Ne", "Ne": "Eq"}
SYM = {"Lt": "<", "Le": "<=", "Gt": ">", "Ge": ">=", "Eq": "==", "Ne": "!="}
FLIP = {"<": ">", "<=": ">=", ">": "<", ">=": "<=", "==": "==", "!=": "!="}


def cmp_rel(F, c, is_x, is_y):
    """For a 'cmp' Cond (one outgoing edge of a branch on a comparison) return the relation
    `X rel Y` that holds when this edge is taken, where is_x / is_y are predicates on the Slice of
    an operand that identify the two quantities.  None if the edge is not such a comparison."""
    if c.kind != "cmp" or c.truth is None:
        return None
    body = c.body
    sa = Slice(F, body).operand(c.a)
    sb = Slice(F, body).operand(c.b)
    op = c.op if c.truth else NEG[c.op]
    sym = SYM[op]
    if is_x(sa) and is_y(sb):
        return sym
    if is_y(sa) and is_x(sb):
        return FLIP[sym]
    return None


def const_operand(o):
    """literal value of a constant operand as string, else None"""
    if o is not None and "c" in o:
        return str(o.get("v", o["c"]))
    return None
