"""C09 Leaders commit only current-term entries backed by a voter majority (DESIGN 4/C09).
Decides: (a) calculate_majority_matched_index returns Some(i) only when entry(i).term == current_term and
i >= commit_index, with i = element len/2 of the descending sort of (peer matches + own last index);
(b) every vector handed to it is `match_index` filtered by a closure that keeps only peers whose
NodeMeta.role != Learner; (e) that map holds an element for EVERY voter from the moment of election (a peer that has
not acknowledged yet must count as 0, not be absent - otherwise the median is taken over the peers that answered); (c) match_index only advances, next_index never drops below match+1, and
match_index is written only from a response's own PeerUpdate; (d) the leader advances its commit index
only with such a result, or with its own last index under the single-voter flag, which derives from
voters().len()+1 == 1.  Necessary conditions; truthfulness of match_index is not decided."""
from .common import *

EXPLANATION = __doc__
TECHNIQUE = "static analysis of rustc MIR facts: dominance/guard and value-provenance rules plus exact symbolic decision tables of loop-free guard functions (exhaustive over weak orderings)"


def _voter_filter_closure(F, cb):
    """closure keeps peers whose NodeMeta.role != Learner (reads NodeMeta.id and .role, compares role with Ne)"""
    grp = [cb] + [b for b in F.bodies.values() if b.parent == cb.id]
    reads = set()
    ne_role = False
    for b in grp:
        reads |= fields_read(b)
        for blk in b.blocks:
            for st in blk["st"]:
                rv = st.get("rv")
                if rv and rv["k"] == "bin" and rv["op"] == "Ne":
                    sa = Slice(F, b).operand(rv["a"])
                    sb = Slice(F, b).operand(rv["b"])
                    if sa.has_field("NodeMeta", "role") or sb.has_field("NodeMeta", "role"):
                        other = sb if sa.has_field("NodeMeta", "role") else sa
                        # the other side is the Learner role constant (enum cast) or a captured copy of it
                        if any(x[0] == "const" for x in other.sources) or any(x[0] == "upvar" for x in other.sources) or other.has_field("NodeMeta", "role") is False:
                            ne_role = True
    ok = ("d_engine_proto::server::cluster::NodeMeta", "role") in reads and ("d_engine_proto::server::cluster::NodeMeta", "id") in reads and ne_role
    return ok


def _is_filtered_matches(F, e, owner_body):
    """expr == collect(map(filter(iter(self.match_index), voter-closure), _))"""
    def unwrap(e, name):
        if e[0] == "call" and e[1].endswith(name) and e[2]:
            return e[2]
        return None
    a = unwrap(e, "collect")
    if not a:
        return False, "not a collect(..)"
    a = unwrap(a[0], "map")
    if not a:
        return False, "not collect(map(..))"
    flt = unwrap(a[0], "filter")
    if not flt:
        return False, "no filter before map: %s" % sym_show(a[0])
    src, clo = flt[0], flt[1]
    src_ok = mentions(src, lambda x: x[0] == "field" and x[2] == "match_index")
    if not src_ok:
        return False, "filter source is not self.match_index"
    if clo[0] != "closure" or clo[1] not in F.bodies:
        return False, "filter argument is not a closure"
    if not _voter_filter_closure(F, F.bodies[clo[1]]):
        return False, "filter closure does not test NodeMeta.role != Learner"
    return True, ""


def run(ctx):
    F = ctx.F
    run_e(ctx)
    # ---------------------------------------------------------------- C09-a
    f = ctx.anchor(F.method, "BufferedRaftLog", "calculate_majority_matched_index")
    if f:
        paths = table_of(ctx, "C09-a", f, "calculate_majority_matched_index")
        if paths:
            somes = [p for p in paths if variant_of(p.ret) == "Some"]
            ctx.floor("C09-a", len(somes), 1, "Some(..) return paths")
            for n, p in enumerate(somes):
                i = agg_get(p.ret, "0")
                # i = vec[len(vec)/2]
                idx_ok = i[0] == "call" and i[1].endswith("index") and len(i[2]) == 2 and i[2][1][0] == "bin" and i[2][1][1] == "Div" and \
                    i[2][1][3] == ("const", "2") and i[2][1][2][0] == "call" and i[2][1][2][1].endswith("len")
                term_ok = any(out is True and e[0] == "bin" and e[1] == "Eq" and
                              ((par(2)(e[2]) and mentions(e[3], lambda x: x[0] == "field" and x[2].endswith("term")) and mentions(e[3], lambda x: x == i)) or
                               (par(2)(e[3]) and mentions(e[2], lambda x: x[0] == "field" and x[2].endswith("term")) and mentions(e[2], lambda x: x == i)))
                              for (e, out) in p.conds)
                commit_ok = any(out is False and e[0] == "bin" and e[1] == "Lt" and e[2] == i and par(3)(e[3]) for (e, out) in p.conds)
                eff = [x[0] for x in p.effects]
                names = [strip_generics(x).split("::")[-1] for x in eff]
                order_ok = "push" in names and "sort_unstable_by" in names and names.index("push") < names.index("sort_unstable_by") < len(names) - 1 - names[::-1].index("index")
                own = [x for x in p.effects if strip_generics(x[0]).endswith("::push")]
                own_ok = bool(own) and own[0][1][1][0] == "call" and own[0][1][1][1].endswith("last_entry_id")
                ctx.check("C09-a", "%s#Some[%d]" % (fkey(f), n), idx_ok and term_ok and commit_ok and order_ok and own_ok,
                          "Some(i): i = sorted[len/2] of (matches + own last index), entry(i).term == current_term, i >= commit_index",
                          "commit candidate is returned without the required conditions (median=%s term-check=%s >=commit=%s push/sort order=%s own-index=%s)" % (idx_ok, term_ok, commit_ok, order_ok, own_ok),
                          "%s:%s" % (f.file, f.line))
            # sort order: descending (closure returns cmp(b, a))
            srt = [b for b in F.group_bodies(f) if b.kind == "Closure"]
            desc = False
            for cb in srt:
                cp = table_of(ctx, "C09-a", cb, "sort closure")
                if cp and len(cp) == 1 and cp[0].ret[0] == "call" and cp[0].ret[1].endswith("cmp"):
                    a = cp[0].ret[2]
                    if len(a) == 2 and par(3)(a[0]) and par(2)(a[1]):
                        desc = True
                if cp and len(cp) == 1 and cp[0].ret[0] == "ordcmp" and par(3)(cp[0].ret[1]) and par(2)(cp[0].ret[2]):
                    desc = True
            ctx.check("C09-a", "%s#sort-descending" % fkey(f), desc, "matches sorted descending, so element len/2 is held by a majority",
                      "sort order / median position is not an accepted normal form (descending + len/2)", "%s:%s" % (f.file, f.line))
    # ---------------------------------------------------------------- C09-b voter filter on every caller
    callers = F.callers_of(lambda k: strip_generics(k).endswith("RaftLog::calculate_majority_matched_index"))
    callers = [c for c in callers if not strip_generics(c[0]).endswith("calculate_majority_matched_index")]
    ctx.floor("C09-b", len(callers), 2, "callers of calculate_majority_matched_index")
    seen = {}
    for (root, bid, bi, t) in callers:
        b = F.bodies[bid]
        try:
            paths, _ev = pathsym.decision_table(F, b)
        except pathsym.TooComplex:
            paths = None
        ok, why = False, "no path evaluates the call"
        if paths is not None:
            verdicts = []
            for p in paths:
                for (k, args, blk) in p.effects:
                    if blk == bi:
                        verdicts.append(_is_filtered_matches(F, args[3], b))
            if verdicts:      # EVERY path that evaluates the call must pass a filtered vector
                bad_v = [v for v in verdicts if not v[0]]
                ok, why = (False, bad_v[0][1]) if bad_v else (True, verdicts[0][1])
        else:
            # big coroutine bodies: fall back to provenance of the argument
            s = Slice(F, b, through_calls=True).operand(t["args"][3])
            clos = [x[1] for x in s.sources if x[0] == "closure" and x[1] in F.bodies]
            ok = s.has_field("LeaderState", "match_index") and s.has_call(r"Iterator::filter$") and any(_voter_filter_closure(F, F.bodies[c]) for c in clos)
            why = "argument does not derive from match_index filtered by a role != Learner closure"
        n = seen.get(fkey(root), 0)
        seen[fkey(root)] = n + 1
        ctx.check("C09-b", "%s#quorum-vector[%d]" % (fkey(root), n), ok, "quorum vector = match_index filtered to non-learner peers",
                  "a vector handed to calculate_majority_matched_index is not filtered to voters (%s): learners would count toward the commit/lease quorum" % why, loc(b, bi))
    # ---------------------------------------------------------------- C09-c
    um = ctx.anchor(F.method, "LeaderState", "update_match_index")
    if um:
        mb = F.main_body(um)
        conds = edge_conditions(mb)
        # write sites: map.insert(node, v) on match_index, or `*slot = v` through a slot obtained from entry()/get_mut() of match_index
        sites = []
        for (bi, t) in field_receiver_calls(F, mb, "LeaderState", "match_index", r"(HashMap|BTreeMap)::insert$"):
            sites.append((bi, t["args"][2], "insert"))
        for bi, blk in enumerate(mb.blocks):
            for st in blk["st"]:
                if "lhs" in st and "*" in st["lhs"].get("pj", []) and not is_noise_exp(st.get("exp")):
                    s = Slice(F, mb, through_calls=True).place({"l": st["lhs"]["l"]})
                    if s.has_field("LeaderState", "match_index") and s.has_call(r"(or_insert|or_insert_with|get_mut|or_default)$") and st["rv"]["k"] == "use":
                        sites.append((bi, st["rv"]["a"], "slot-store"))
        ctx.floor("C09-c", len(sites), 1, "match_index write site in update_match_index")
        for n, (bi, valop, kind) in enumerate(sites):
            vs = Slice(F, mb).operand(valop)
            from_arg = any(x[0] == "param" and x[1] == 3 for x in vs.sources)
            adv, wit, _ = guarded_by(mb, bi, lambda c: cmp_rel(F, c, lambda s: any(x[0] == "param" and x[1] == 3 for x in s.sources) and not s.has_field("LeaderState", "match_index"),
                                                                  lambda s: s.has_field("LeaderState", "match_index")) == ">", conds)
            ctx.check("C09-c", "%s#write[%d]" % (fkey(um), n), adv and from_arg, "match_index written (%s) only when new > current" % kind,
                      "match_index is overwritten without `new > current` (a stale, out-of-order ACK could move it backwards)", loc(mb, bi), wit and bpath(mb, wit))
    un = ctx.anchor(F.method, "LeaderState", "update_next_index")
    if un:
        paths = table_of(ctx, "C09-c", un, "update_next_index")
        if paths:
            for n, p in enumerate(paths):
                ins = [x for x in p.effects if strip_generics(x[0]).endswith("::insert")]
                for x in ins:
                    v = x[1][2]
                    ok = v[0] == "max" and any(par(3)(a) for a in v[1:]) and any(a[0] == "bin" and a[1] == "Add" and ("const", "1") in a[2:] and mentions(a, lambda y: y[0] == "field" and y[2] == "match_index") for a in v[1:])
                    ctx.check("C09-c", "%s#insert[%d]" % (fkey(un), n), ok, "next_index = max(requested, match_index + 1)",
                              "next_index can drop below match_index + 1: %s" % sym_show(v), "%s:%s" % (un.file, un.line))
    # writers of match_index
    mw = F.callers_of(lambda k: strip_generics(k).endswith("LeaderState::update_match_index") or strip_generics(k).endswith("RaftRoleState::update_match_index"))
    mw = [x for x in mw if not re.search(r"(_test|/tests?/|test_utils|mock)", F.bodies[x[1]].file or "")]
    wfn = sorted(set(fkey(x[0]) for x in mw))
    # who may write match_index: each production caller of update_match_index passes either the constant 0 (initialisation of a
    # new peer) or the match index of a follower's own response (PeerUpdate.match_index); anything else (the leader's own last
    # index, a sent-but-unacknowledged index) lets the leader commit entries no follower holds
    ctx.floor("C09-c", len(mw), 2, "production call sites of update_match_index (init + update_peer_index)")
    for (croot, cbid, cbi, ct) in mw:
        cb = F.bodies[cbid]
        if strip_generics(croot).endswith("RaftRoleState::update_match_index") or strip_generics(croot).endswith("RaftRole::update_match_index"):
            continue     # the delegating wrappers: their callers are in the list too
        vs = Slice(F, cb).operand(ct["args"][2]) if len(ct["args"]) > 2 else None
        zero = vs is not None and vs.consts() == ["0"] and not any(x[0] in ("call", "field", "param", "binop") for x in vs.sources)
        resp = vs is not None and vs.has_field("PeerUpdate", "match_index")
        fwd = vs is not None and any(x[0] == "param" for x in vs.sources) and not any(x[0] in ("call", "field", "binop") for x in vs.sources)
        ctx.check("C09-c", "%s#update_match_index#value-source" % fkey(croot), zero or resp or fwd,
                  "match_index written with %s" % ("0 (new peer)" if zero else ("the response's PeerUpdate.match_index" if resp else "its own parameter (wrapper)")),
                  "match_index is written with a value that is neither 0 nor a follower-reported match index: %s" % sorted(x for x in (vs.sources if vs else []) if x[0] in ("call", "field"))[:5],
                  loc(cb, cbi))
    # ... and the map itself is mutated nowhere else
    others = []
    for bid, b in F.bodies.items():
        if b.crate != "d_engine_core" or re.search(r"(_test|/tests?/|test_utils|mock)", b.file or ""):
            continue
        if re.search(r"^LeaderState::(update_match_index|new|from)$", fkey(F.root_of[bid])):
            continue
        for (bi, t) in field_receiver_calls(F, b, "LeaderState", "match_index", r"HashMap::(insert|entry|get_mut|remove|clear|retain|drain|iter_mut|values_mut)$"):
            others.append((b, bi, fkey(F.root_of[bid]), strip_generics(callee_key(t)).split("::")[-1]))
    allowed_other = {"remove": "a removed peer's slot is dropped", "retain": "removed peers' slots are dropped", "clear": "step-down / re-election resets the map"}
    for (b, bi, fk, m) in others:
        ctx.check("C09-c", "%s#match_index.%s#who-may-write" % (fk, m), m in allowed_other,
                  "match_index.%s: %s" % (m, allowed_other.get(m, "")),
                  "LeaderState.match_index is mutated (%s) outside update_match_index: the `new > current` / value-source rules do not see this write" % m, loc(b, bi))
    up = ctx.anchor(F.method, "LeaderState", "update_peer_index")
    if up:
        mb = F.main_body(up)
        ctx.floor("C09-c", len(calls_matching(mb, r"LeaderState::update_match_index$")), 1, "update_match_index call in update_peer_index")
        for (bi, t) in calls_matching(mb, r"LeaderState::update_match_index$"):
            s = Slice(F, mb).operand(t["args"][2])
            ctx.check("C09-c", "%s#match-from-response" % fkey(up), s.has_field("PeerUpdate", "match_index") and len([x for x in s.sources if x[0] == "field" and x[2] not in ("match_index", "0")]) == 0,
                      "match_index is set from the response's own PeerUpdate.match_index", "match_index does not come from PeerUpdate.match_index: %s" % sorted(s.sources)[:6], loc(mb, bi))
    hs = ctx.anchor(F.method, "ReplicationHandler", "handle_success_response")
    if hs:
        mb = F.main_body(hs)
        ctx.floor("C09-c", len(agg_sites(mb, "PeerUpdate")), 1, "PeerUpdate construction in handle_success_response")
        for (bi, si, st) in agg_sites(mb, "PeerUpdate"):
            s = Slice(F, mb).operand(agg_field(st, "match_index"))
            ctx.check("C09-c", "%s#PeerUpdate.match_index" % fkey(hs), s.has_field("SuccessResult", "last_match") and not s.has_field("AppendEntriesRequest", "entries"),
                      "a success reply advances match_index to the follower-reported last_match", "PeerUpdate.match_index of a success is not the follower-reported last_match", loc(mb, bi))
    hc = ctx.anchor(F.method, "ReplicationHandler", "handle_conflict_response")
    if hc:
        mb = F.main_body(hc)
        ctx.floor("C09-c", len(agg_sites(mb, "PeerUpdate")), 1, "PeerUpdate construction in handle_conflict_response")
        for (bi, si, st) in agg_sites(mb, "PeerUpdate"):
            o = agg_field(st, "match_index")
            s = Slice(F, mb).operand(o)
            ctx.check("C09-c", "%s#PeerUpdate.match_index" % fkey(hc), ("agg", "core::option::Option", "None") in s.sources and not any(x[0] == "agg" and x[2] == "Some" for x in s.sources),
                      "a conflict reply never carries a match index", "a conflict reply can carry a match index", loc(mb, bi))
    # ---------------------------------------------------------------- C09-d who advances the leader's commit index
    for fn, floor in (("handle_append_result", 1), ("handle_log_flushed", 1)):
        lf = ctx.anchor(F.method, "LeaderState", fn)
        if not lf:
            continue
        mb = F.main_body(lf)
        conds = edge_conditions(mb)
        us = calls_matching(mb, r"RaftRoleState::update_commit_index_with_signal$")
        ctx.floor("C09-d", len(us), floor, "update_commit_index_with_signal in LeaderState::%s" % fn)
        for n, (bi, t) in enumerate(us):
            s = Slice(F, mb).operand(t["args"][3])
            from_calc = s.has_call(r"LeaderState::calculate_new_commit_index$")
            from_last = s.has_call(r"RaftLog::last_entry_id$")
            ok = from_calc and not from_last
            why = "value from calculate_new_commit_index"
            if from_last:
                # every definition that takes last_entry_id must sit under the single_voter flag
                okg = True
                for (cb, ct) in s.call_sites:
                    if strip_generics(callee_key(ct) or "").endswith("last_entry_id"):
                        g, _w, _ = guarded_by(mb, cb, lambda c: c.truth is True and cond_reads_field(F, c, "ClusterMetadata", "single_voter"), conds)
                        okg = okg and g
                ok = okg
                why = "own last index only under cluster_metadata.single_voter, otherwise calculate_new_commit_index"
            ctx.check("C09-d", "%s#commit-value[%d]" % (fkey(lf), n), ok, why,
                      "leader commit index advanced with a value that is neither a majority result nor the single-voter case: %s" % sorted(x for x in s.sources if x[0] == "call")[:6], loc(mb, bi))
    single_voter_sites(ctx, "C09-d")


def single_voter_sites(ctx, rule):
    """EVERY place that gives ClusterMetadata.single_voter a value (aggregate constructions anywhere in d_engine_core, and direct
    writes of the field): the value is the constant false (placeholder before init_cluster_metadata) or (voters().len() + 1 == 1)
    computed from the live Membership::voters()"""
    F = ctx.F
    n = 0
    seen_keys = {}
    for (b, bi, si, st) in all_agg_sites(F, "leader_state::ClusterMetadata", None, crates=("d_engine_core",)):
        if re.search(r"(_test|/tests?/|test_utils|mock)", b.file or ""):
            continue
        o = agg_field(st, "single_voter")
        if o is None:
            continue
        s = Slice(F, b).operand(o)
        if s.has_field("ClusterMetadata", "single_voter") and not any(x[0] in ("binop", "const") for x in s.sources):
            continue     # a copy of an existing ClusterMetadata (derived Clone)
        n += 1
        const_false = ("c" in o and str(o.get("v", o["c"])) in ("false", "0")) or (s.consts() in (["false"], ["0"]) and not any(x[0] in ("call", "field", "param", "binop") for x in s.sources))
        live = s.has_call(r"Membership::voters$") and "1" in s.consts() and ("binop", "Eq") in s.sources
        root = F.root_of[b.id]
        key = "%s#single_voter" % fkey(root)
        seen_keys[key] = seen_keys.get(key, -1) + 1
        if seen_keys[key]:
            key += "[%d]" % seen_keys[key]
        ctx.check(rule, key, const_false or live,
                  "single_voter = false (placeholder)" if const_false else "single_voter = (voters().len() + 1 == 1)",
                  "ClusterMetadata.single_voter is neither the constant false nor derived from Membership::voters(): %s - a leader that believes it is the only voter "
                  "commits on its own flush" % sorted(x for x in s.sources if x[0] in ("call", "field", "const"))[:6], loc(b, bi))
    for bid, b in F.bodies.items():
        if b.crate != "d_engine_core" or re.search(r"(_test|/tests?/|test_utils|mock)", b.file or ""):
            continue
        for (bi, si, st) in writes_to_field(b, "ClusterMetadata", "single_voter"):
            pl = st["lhs"] if si != "term" else st["dest"]
            last = pl.get("pj", [])[-1] if pl.get("pj") else None
            if not (isinstance(last, dict) and last.get("f") == "single_voter"):
                continue
            n += 1
            ctx.bad(rule, "%s#single_voter#direct-write" % fkey(F.root_of[bid]), "ClusterMetadata.single_voter is written directly (outside a ClusterMetadata construction): "
                    "UNRECOGNISED-FORM, the rule cannot tell where the value comes from", loc(b, bi))
    ctx.floor(rule, n, 3, "places that give ClusterMetadata.single_voter a value (init/update_cluster_metadata, From<&CandidateState>)")


def _always_inserts(F, fn, field, depth=0):
    """does every returning path of fn insert into (or obtain an entry of) self.<field>?"""
    mb = F.main_body(fn)
    try:
        paths, _ev = pathsym.decision_table(F, mb)
    except pathsym.TooComplex:
        return None, "not loop-free"
    if not paths:
        return None, "no paths"
    missing = []
    for p in paths:
        hit = False
        for (k, args, blk) in p.effects:
            nm = strip_generics(k)
            if re.search(r"(HashMap|BTreeMap)::(insert|entry)$|Entry::or_insert(_with)?$", nm) and args and mentions(args[0], lambda x: x[0] == "field" and x[2] == field):
                hit = True
        if not hit:
            missing.append(" & ".join("%s=%s" % (sym_show(e), o) for (e, o) in p.conds) or "unconditional")
    return (not missing), missing


def run_e(ctx):
    F = ctx.F
    init = ctx.anchor(F.method, "LeaderState", "init_peers_next_index_and_match_index")
    if not init:
        return
    mb = F.main_body(init)
    # direct insert in the loop, or a callee that inserts on every path
    direct = field_receiver_calls(F, mb, "LeaderState", "match_index", r"(HashMap|BTreeMap)::(insert|entry)$")
    ok = bool(direct)
    why = ""
    if not ok:
        cands = [t for (_bi, t) in mb.calls() if any(tg in F.bodies and F.fn_reaches(tg, lambda k: True, 1) is not None for tg in F.resolve_targets(t))]
        for t in cands:
            for tg in F.resolve_targets(t):
                b = F.bodies.get(tg)
                if b is None or not any(field_receiver_calls(F, x, "LeaderState", "match_index", r"(HashMap|BTreeMap)::(insert|entry)$") for x in F.group_bodies(tg)):
                    continue
                res, missing = _always_inserts(F, b, "match_index")
                if res:
                    ok = True
                else:
                    why = "%s leaves match_index without an element on the path(s) [%s]" % (fkey(b), "; ".join(missing[:2]) if isinstance(missing, list) else missing)
    ctx.check("C09-e", "%s#every-voter-has-a-match-entry" % fkey(init), ok,
              "every peer gets a match_index element when the leader is initialised",
              "after an election the leader's match_index has NO element for peers that have not acknowledged yet (%s); the quorum vector is built from the "
              "elements present, so the median is taken over {leader} + {peers that answered}: a fresh leader of 3 commits on its own flush with zero ACKs, "
              "a fresh leader of 5 commits with one ACK" % why, "%s:%s" % (mb.file, mb.line))
    # the initialisation is invoked on the way to leadership with all peers
    ev = ctx.anchor(F.method, "Raft", "handle_internal_event")
    if ev:
        mbe = F.main_body(ev)
        calls = calls_matching(mbe, r"init_peers_next_index_and_match_index$")
        conds = edge_conditions(mbe)
        good = False
        for (bi, t) in calls:
            g, _w, _ = guarded_by(mbe, bi, lambda c: c.kind == "discr" and c.variants == {"BecomeLeader"}, conds)
            s = Slice(F, mbe, through_calls=True).operand(t["args"][2])
            if g and s.has_call(r"Membership::get_peers_id_with_condition$|Membership::voters$|Membership::replication_peers$"):
                good = True
        ctx.check("C09-e", "%s#init-on-BecomeLeader" % fkey(ev), good, "match/next index are initialised for all peers in the BecomeLeader arm",
                  "the BecomeLeader arm does not initialise match_index for the membership's peers", "%s:%s" % (mbe.file, mbe.line))
