"""C10 Acknowledged writes are durable and visible - ack-after-commit clauses (DESIGN 4/C10).
Decides: (a) WHO-MAY build a successful write response: ClientResponse::write_success / cas_failure are
called only from drain_pending_client_writes (under wait_for_apply == false) and from
handle_apply_completed, and no other function assembles a ClientResponse / WriteResult by hand;
(b) every call of drain_pending_client_writes(c) is on the success arm of
update_commit_index_with_signal(.., c, ..) with the same c, and the function answers exactly the part
of the map below c+1 (split_off(&(c+1)) keeps the rest); (c) senders parked in pending_write_apply are
inserted only after commit (in drain_pending_client_writes) and are answered with Ok only after a
remove keyed by ApplyResult.index in the ApplyCompleted handler; every other removal answers Err.
Necessary conditions, not the whole behaviour (which index is committed is C09; durability of
follower ACKs under crashes is behavioural and not decided here)."""
from .helpers_r1 import *

EXPLANATION = __doc__

SEND = r"(MaybeCloneOneshotSender::send|oneshot::Sender::send)$"


def payload_kind(F, body, t):
    """Ok / Err / ? of the value handed to a oneshot send"""
    s = Slice(F, body).operand(t["args"][1])
    ks = set(x[2] for x in s.sources if x[0] == "agg" and strip_generics(x[1]).endswith("result::Result"))
    if ks == {"Ok"}:
        return "Ok", s
    if ks == {"Err"}:
        return "Err", s
    return "?", s


def run(ctx):
    F = ctx.F
    D = ctx.depth
    dpw = ctx.anchor(F.method, "LeaderState", "drain_pending_client_writes")
    hac = ctx.anchor(F.method, "LeaderState", "handle_apply_completed")
    allowed = set(x.id for x in (dpw, hac) if x)
    # ---------------------------------------------------------------- C10-a who may acknowledge a write
    succ = [c for c in F.callers_of(lambda k: ends(k, "ClientResponse::write_success") or ends(k, "ClientResponse::cas_failure"))
            if not is_test_body(F.bodies[c[1]]) and F.bodies[c[1]].crate in ("d_engine_core", "d_engine_server")]
    ctx.floor("C10-a", len(succ), 3, "calls of ClientResponse::write_success / cas_failure")
    per = {}
    for (root, bid, bi, t) in succ:
        per.setdefault(root, []).append((F.bodies[bid], bi))
    for root, lst in sorted(per.items()):
        ctx.check("C10-a", "%s#builds-write-ack" % fkey(root), root in allowed, "listed acknowledger (%d site(s))" % len(lst),
                  "a successful write response is built outside drain_pending_client_writes / handle_apply_completed: a write can be acknowledged "
                  "without its entry being committed (and applied)", loc(*lst[0]))
    hand = []
    for adt in ("client::types::ClientResponse", "client::types::WriteResult"):
        for (b, bi, si, st) in all_agg_sites(F, adt, None, crates=("d_engine_core", "d_engine_server")):
            root = F.root_of[b.id]
            if is_test_body(b):
                continue
            inside = self_type_of(F, root).endswith("client::types::ClientResponse") or re.search(r"proto_convert::\w+$", strip_generics(root)) is not None \
                or re.search(r"as core::(clone::Clone|default::Default)>", root) is not None
            hand.append(root)
            if not inside:
                ctx.bad("C10-a", "%s#hand-built-%s" % (fkey(root), adt.split("::")[-1]),
                        "%s is assembled outside its constructors / the wire conversion: the who-may rule on write_success cannot see this response" % adt.split("::")[-1], loc(b, bi))
    ctx.floor("C10-a", len(hand), 5, "ClientResponse / WriteResult aggregates (constructors + conversions)")
    if dpw:
        mb = F.main_body(dpw)
        conds = edge_conditions(mb)
        n = 0
        for (bi, t) in calls_matching(mb, r"ClientResponse::(write_success|cas_failure)$"):
            n += 1
            ok, wit, _ = guarded_by(mb, bi, lambda c: c.truth is False and c.kind == "bool" and cond_reads_field(F, c, "WriteMetadata", "wait_for_apply"), conds)
            ctx.check("C10-a", "%s#immediate-ack-only-without-wait_for_apply" % fkey(dpw), ok, "commit-time ack only when wait_for_apply == false",
                      "a batch that must wait for the apply result (CAS) can be acknowledged as succeeded at commit time", loc(mb, bi), wit and bpath(mb, wit))
        ctx.floor("C10-a", n, 1, "write_success in drain_pending_client_writes")

    # ---------------------------------------------------------------- C10-b drained only after the commit index moved to c
    if dpw:
        callers = [c for c in F.callers_of(lambda k: k == dpw.id) if c[0] != dpw.id and not is_test_body(F.bodies[c[1]])]
        ctx.floor("C10-b", len(callers), 2, "callers of drain_pending_client_writes")
        for (root, bid, bi, t) in callers:
            b = F.bodies[bid]
            conds = edge_conditions(b)
            ups = calls_matching(b, r"::update_commit_index_with_signal$")

            def success(c):
                return c.kind == "discr" and c.variants in ({"Ok"}, {"Continue"}) and cond_calls(F, c, r"::update_commit_index_with_signal$")
            ok, wit, _ = guarded_by(b, bi, success, conds)
            darg = Slice(F, b).operand(t["args"][1])
            same = False
            for (ubi, ut) in ups:
                if b.dominates(ubi, bi) and len(ut["args"]) >= 4:
                    uarg = Slice(F, b).operand(ut["args"][3])
                    named = set(l for l in (uarg.seen & darg.seen) if b.local_name(l) or True)
                    src_a = set(x for x in uarg.sources if x[0] in ("call", "field"))
                    src_d = set(x for x in darg.sources if x[0] in ("call", "field"))
                    same = same or (bool(named) and src_a == src_d and not any(x[0] == "binop" for x in darg.sources - uarg.sources))
            ctx.check("C10-b", "%s#drain_pending_client_writes" % fkey(root), ok and same,
                      "writes are answered only after update_commit_index_with_signal(c) succeeded, with the same c",
                      "drain_pending_client_writes(c) is %s: client writes can be acknowledged for an index the commit index never reached"
                      % ("not on the success arm of update_commit_index_with_signal" if not ok else "called with a value that is not the committed index"),
                      loc(b, bi), wit and bpath(b, wit))
        mb = F.main_body(dpw)
        sp = field_receiver_calls(F, mb, "LeaderState", "pending_client_writes", r"BTreeMap::split_off$")
        ctx.floor("C10-b", len(sp), 1, "pending_client_writes.split_off in drain_pending_client_writes")
        cname = mb.local_name(2)
        for (bi, t) in sp:
            s = Slice(F, mb, through_calls=True).operand(t["args"][1])
            consts = [c for c in s.consts() if c.lstrip("-").isdigit()]
            # `c + 1` as an operator or as checked_add / saturating_add / wrapping_add(1)
            adds = any(x[0] == "binop" and x[1] in ("Add", "AddWithOverflow") for x in s.sources) or s.has_call(r"::(checked_add|saturating_add|wrapping_add|strict_add)$")
            other = [x for x in s.sources if x[0] == "call" and not re.search(r"::(checked_add|saturating_add|wrapping_add|strict_add)$|Option<.*>::|option::Option::", strip_generics(x[1]))
                     and not re.search(r"(clone|unwrap\w*|expect|into|from|borrow|deref)$", strip_generics(x[1]))]
            plus1 = s.has_param(cname) and consts == ["1"] and adds and not other \
                and not any(x[0] == "binop" and x[1] in ("Sub", "SubWithOverflow", "Mul", "MulWithOverflow") for x in s.sources)
            ctx.check("C10-b", "%s#split-at-c+1" % fkey(dpw), plus1, "map is split at new_commit + 1",
                      "pending_client_writes is not split at exactly new_commit + 1 (constants %s): batches whose end index is above the commit index are answered" % consts,
                      loc(mb, bi))
            # the upper part (split_off result) is what is written back; the lower part is what is answered
            keep = Slice(F, mb).operand({"p": t["dest"]}).seen if False else {t["dest"]["l"]}
            wb = [(xb, xt) for (xb, xt) in calls_matching(mb, r"mem::(replace|swap)$") if Slice(F, mb).operand(xt["args"][0]).has_field("LeaderState", "pending_client_writes")]
            okw = any(Slice(F, mb).operand(xt["args"][1]).seen & keep or Slice(F, mb).operand(xt["args"][1]).has_call(r"BTreeMap::split_off$") for (xb, xt) in wb)
            ctx.check("C10-b", "%s#keeps-upper-part" % fkey(dpw), okw, "the part above the commit index is put back into pending_client_writes; only the lower part is answered",
                      "the split_off result (keys > commit) is not what is stored back: the uncommitted part would be answered", loc(mb, bi))

    # ---------------------------------------------------------------- C10-c apply-waiting senders
    ins, outs = [], []
    for bid, b in F.bodies.items():
        if b.crate != "d_engine_core" or is_test_body(b):
            continue
        for (bi, t) in field_calls(F, b, "LeaderState", "pending_write_apply", r"HashMap::(insert|entry)$"):
            ins.append((b, bi, t))
        for (bi, t) in field_calls(F, b, "LeaderState", "pending_write_apply", r"(HashMap::(remove|remove_entry|drain|retain|clear|extract_if)|mem::(take|replace))$"):
            outs.append((b, bi, t))
    ctx.floor("C10-c", len(ins), 1, "insertions into pending_write_apply")
    ctx.floor("C10-c", len(outs), 2, "removals from pending_write_apply")
    for (b, bi, t) in ins:
        root = F.root_of[b.id]
        ctx.check("C10-c", "%s#parks-sender" % fkey(root), dpw is not None and root == dpw.id, "senders are parked for apply only by the commit drain",
                  "a sender is parked in pending_write_apply outside drain_pending_client_writes: it would be answered `succeeded` by an ApplyResult without its entry being committed",
                  loc(b, bi))
    for (b, bi, t) in outs:
        root = F.root_of[b.id]
        k = strip_generics(callee_key(t)).split("::")[-1]
        grp = F.group_bodies(root)
        oks = []
        in_closure = b.parent is not None and not b.coroutine
        for gb in grp:
            for (sbi, stt) in calls_matching(gb, SEND):
                kind, s = payload_kind(F, gb, stt)
                snd = Slice(F, gb, through_calls=True).operand(stt["args"][0])
                # replies to senders that came out of the map (all replies of the function when the flow crosses a closure)
                if kind != "Err" and (in_closure or slice_has_field(F, gb, snd, "LeaderState", "pending_write_apply")):
                    oks.append((gb, sbi, kind))
        if hac is not None and root == hac.id:
            key_s = Slice(F, b).operand(t["args"][1]) if len(t["args"]) > 1 else None
            okk = k == "remove" and key_s is not None and key_s.has_field("ApplyResult", "index")
            ctx.check("C10-c", "%s#answers-by-apply-index" % fkey(root), okk, "sender taken out by the index of the ApplyResult being reported",
                      "handle_apply_completed takes a waiting sender out of pending_write_apply with a key that is not ApplyResult.index: "
                      "the apply outcome of one entry is sent to the client of another", loc(b, bi))
        else:
            ctx.check("C10-c", "%s#%s-answers-only-errors" % (fkey(root), k), not oks, "every reply on this path is an error",
                      "senders waiting for their apply result are taken out of pending_write_apply by %s, which can answer Ok: acknowledged without the apply result"
                      % fkey(root), loc(b, bi))


_run_before_io_window = run


def run(ctx):
    _run_before_io_window(ctx)
    io_window_rule(ctx, "C10-d")
