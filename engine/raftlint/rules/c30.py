"""C30 No accepted request is silently dropped - bounded waits (DESIGN 4/C30).
Decides: (a) at the API boundary (gRPC service, EmbeddedClient, both read handles) every await on the
receiver of a request's response channel goes through tokio::time::timeout / handle_rpc_timeout, and
handle_rpc_timeout itself awaits under timeout and maps a dropped sender to an error reply; (b) every
LeaderState field that (transitively) holds a client response sender is swept by tick against a
deadline, or emptied by drain_read_buffer on step-down, or is in the listed set that relies on the API
timeout alone; in the tick sweeps and in drain_read_buffer every sender taken out is answered; a new
sender-holding field is picked up automatically and must satisfy the same table; (c) the deadline of a queued
element (WriteMetadata / PendingReadBatch / PendingLeaseRead / PostCommitEntry .deadline, the value tick compares with
now) is assigned only before the element is queued - never through a reference into a LeaderState queue; (d) loops
that answer the senders of a batch have a single exit (iterator exhausted).
Necessary conditions, not the whole behaviour (a dropped sender counts as a response: the receiver
sees RecvError and the boundary maps it to an error)."""
from .helpers_r1 import *

EXPLANATION = __doc__

SEND = r"(MaybeCloneOneshotSender::send|oneshot::Sender::send)$"
TIMEOUT = r"(tokio::time::timeout::timeout|tokio::time::timeout|grpc_raft_service::handle_rpc_timeout|time::timeout::timeout_at)$"
CHANNEL = r"(RaftOneshot::new|MaybeCloneOneshot::new|oneshot::channel)$"
BOUNDARY_FILES = r"d-engine-server/src/(api/|network/grpc/grpc_raft_service\.rs)"
# fields whose senders are bounded only by the API-side timeout (no sweep, no step-down drain) - reviewed by hand
API_BOUNDED_ONLY = {"pending_write_apply"}
EMPTYING = r"(::take_all|::drain|mem::take|::clear|mem::replace|::split_off|::flush|::retain|::remove|::pop_front)$"


def holds_sender(F, ty, seen=None, depth=0):
    """does a type (string) transitively contain a client response sender"""
    seen = seen if seen is not None else set()
    if "MaybeCloneOneshotSender" in ty or "oneshot::Sender" in ty:
        return True
    if depth > 4:
        return False
    for p, a in F.adts.items():
        if p.startswith("d_engine_") and p in ty and p not in seen:
            seen.add(p)
            for v in a["variants"]:
                for (n, t) in v["fields"]:
                    if holds_sender(F, t, seen, depth + 1):
                        return True
    return False


def run(ctx):
    F = ctx.F
    # ---------------------------------------------------------------- C30-a bounded waits at the API boundary
    n_wait = 0
    n_peer = 0
    per_fn = {}
    for bid, b in F.bodies.items():
        if b.crate != "d_engine_server" or is_test_body(b) or not re.search(BOUNDARY_FILES, b.file):
            continue
        chans = calls_matching(b, CHANNEL)
        if not chans:
            continue
        awaits = [(bi, t, Slice(F, b, through_calls=True).operand(t["args"][0])) for (bi, t) in calls_matching(b, r"IntoFuture::into_future$")]
        for (cbi, ct) in chans:
            L = ct["dest"]["l"]
            used = [(bi, t, s) for (bi, t, s) in awaits if L in s.seen]
            client = any(agg_sites(gb, "event::ClientCmd") or agg_sites(gb, "InboundEvent", "JoinCluster") or agg_sites(gb, "InboundEvent", "ClusterConf")
                         or agg_sites(gb, "InboundEvent", "DiscoverLeader") or agg_sites(gb, "read_actor::ReadCmd") for gb in F.group_bodies(F.root_of[bid]))
            for (bi, t, s) in used:
                # an await whose value is the channel's *sender* being sent (cmd_tx.send(..(tx)).await) is not a wait for the response
                if s.has_call(r"mpsc::(bounded::)?Sender::send$") and not s.has_call(TIMEOUT):
                    continue
                root = fkey(F.root_of[bid])
                ok = s.has_call(TIMEOUT)
                if not client:
                    n_peer += 1
                    if not ok:
                        ctx.note("peer RPC %s awaits its startup/response receiver without a timeout (%s); not a client request, not armed" % (root, loc(b, bi)))
                    continue
                n_wait += 1
                cur = per_fn.get(root, (True, 0, None))
                per_fn[root] = (cur[0] and ok, cur[1] + 1, cur[2] or (None if ok else loc(b, bi)))
    ctx.floor("C30-a", n_wait, 14, "awaits on a client-request response receiver at the API boundary")
    ctx.floor("C30-a", n_peer, 5, "awaits on a peer-RPC response receiver (observed only)")
    for root, (ok, n, l) in sorted(per_fn.items()):
        ctx.check("C30-a", "%s#response-wait-bounded" % root, ok, "%d response wait(s), all under timeout / handle_rpc_timeout" % n,
                  "the response receiver is awaited without a timeout: if the Raft loop keeps the sender in a queue that is never drained "
                  "(lost quorum, step-down path that skips the queue) the client call never returns", l)
    hrt = ctx.anchor(F.fn, "d_engine_server::network::grpc::grpc_raft_service::handle_rpc_timeout")
    if hrt:
        mb = F.main_body(hrt)
        aw = [(bi, t, Slice(F, mb, through_calls=True).operand(t["args"][0])) for (bi, t) in calls_matching(mb, r"IntoFuture::into_future$")]
        ctx.floor("C30-a", len(aw), 1, "await in handle_rpc_timeout")
        rx_name = mb.local_name(1) if not mb.coroutine else None
        for (bi, t, s) in aw:
            ctx.check("C30-a", "handle_rpc_timeout#awaits-under-timeout", s.has_call(r"tokio::time::timeout(::timeout)?$"),
                      "the receiver is awaited inside tokio::time::timeout", "handle_rpc_timeout awaits the receiver without tokio::time::timeout", loc(mb, bi))
        errs = [x for x in return_aggs(mb) if x[2]["rv"]["k"] == "agg" and x[2]["rv"].get("v") == "Err"]
        ctx.floor("C30-a", len(errs), 2, "error results of handle_rpc_timeout (channel closed, deadline exceeded)")

    # ---------------------------------------------------------------- C30-b every sender-holding queue has a way out
    ls = [a for p, a in F.adts.items() if p.endswith("leader_state::LeaderState")]
    ctx.floor("C30-b", len(ls), 1, "LeaderState ADT")
    tick = ctx.anchor(F.method, "LeaderState", "tick")
    drb = ctx.anchor(F.method, "LeaderState", "drain_read_buffer")
    if not (ls and tick and drb):
        return
    fields = [n for v in ls[0]["variants"] for (n, t) in v["fields"] if holds_sender(F, t)]
    ctx.floor("C30-b", len(fields), 9, "LeaderState fields holding client response senders")

    def touched(fn, field, depth=2):
        """blocks in fn's bodies (and LeaderState helpers it calls) that take entries out of the field"""
        out = []
        for b in F.group_bodies(fn):
            for (bi, t) in field_calls(F, b, "LeaderState", field, EMPTYING):
                out.append((b, bi))
            if depth > 0:
                for (bi, t) in b.calls():
                    for tg in F.resolve_targets(t):
                        if tg != F.root_of[b.id] and self_type_of(F, tg).endswith("LeaderState") and touched(F.bodies[tg], field, depth - 1):
                            out.append((b, bi))
        return out
    for f in fields:
        sw = touched(tick, f)
        dr = touched(drb, f)
        # a tick sweep must be deadline driven: some comparison in tick's bodies reads a `deadline` of the queue's entries
        how = []
        if sw:
            how.append("tick")
        if dr:
            how.append("step-down drain")
        if not how and f in API_BOUNDED_ONLY:
            how.append("API timeout only (listed)")
        ctx.check("C30-b", "LeaderState.%s#has-exit" % f, bool(how), "senders leave this queue via: %s" % ", ".join(how),
                  "LeaderState.%s holds client response senders but is neither swept by tick, nor emptied by drain_read_buffer, nor listed as bounded by the API timeout: "
                  "a request parked there when the leader loses its quorum is never answered" % f, "%s:%s" % (tick.file, tick.line))
    # senders taken out by the sweeps / the drain are answered: every loop over a drained collection sends
    for fn in (tick, drb):
        n_loops = 0
        for b in F.group_bodies(fn):
            conds = edge_conditions(b)
            sends = [bi for (bi, t) in calls_matching(b, SEND)]
            keeps = [bi for (bi, t) in calls_matching(b, r"(VecDeque|Vec|HashMap|BTreeMap)::(push_back|push|insert)$")]
            for eid, c in conds.items():
                if not (c.kind == "discr" and c.variants == {"Some"} and cond_calls(F, c, r"Iterator>?::next$")):
                    continue
                dst = c.edge["dst"]
                carries = carries_sender(F, b, dst)
                if not carries:
                    continue
                n_loops += 1
                w = must_pass(b, dst, [c.edge["src"]], sends + keeps, treat_exit_as_goal=True)
                if w is not None:
                    ctx.bad("C30-b", "%s#loop-answers-sender" % fkey(b), "a sender taken out of a queue can be dropped without a reply on this path", loc(b, dst), bpath(b, w))
        ctx.check("C30-b", "%s#answers-what-it-takes-out" % fkey(fn), n_loops >= 1 and not any(i["key"].startswith(fkey(fn)) and not i["ok"] for i in ctx.instances if i["rule"] == "C30-b"),
                  "%d loop(s) over removed entries, each iteration replies (or re-queues)" % n_loops, "no reply loop found / a loop drops senders", "%s:%s" % (fn.file, fn.line))
    ctx.floor("C30-b", len(calls_matching(F.main_body(tick), r"Instant::now$")), 1, "clock read in tick (deadline sweeps)")


# ---------------------------------------------------------------------------------------------- C30-c
_run_ab = run


def run(ctx):
    _run_ab(ctx)
    deadlines_fixed_at_insertion(ctx)
    answer_loops_single_exit(ctx)


def answer_loops_single_exit(ctx):
    """C30-d every sender of a batch is answered: a loop in raft_role that sends on client response senders (the drains on
    step-down / fatal error, the tick sweeps, commit / apply completion, batch rejection) is left only when its iterator is
    exhausted. A `break` / `return` / `?` inside such a loop leaves the remaining requests of the batch without the answer
    the loop exists to give (their senders are dropped unanswered or stay parked)."""
    F = ctx.F
    n = 0
    idx = {}
    for bid, b in sorted(F.bodies.items()):
        if b.crate != "d_engine_core" or is_test_body(b) or "/raft_role/" not in (b.file or ""):
            continue
        root = F.root_of[bid]
        per = {}
        cands = [(bi, t, [t["args"][0]]) for (bi, t) in calls_matching(b, SEND)]
        # the element handed to a workspace function that answers it (`while let Some(req) = queue.pop_front() { self.process_x(req, ..) }`)
        for (bi, t) in b.calls():
            k = callee_key(t) or ""
            if re.search(SEND, strip_generics(k)) or not k.startswith(("d_engine_", "<d_engine_")):
                continue
            if F.call_reaches(t, lambda c: re.search(SEND, strip_generics(c)) is not None, 3):
                cands.append((bi, t, t["args"]))
        for (bi, t, ops) in cands:
            h, early = loop_early_exits(F, b, bi)
            if h is None:
                continue
            # only loops whose ELEMENT is (or holds) the sender being answered: a search loop that answers one captured
            # sender and breaks is not a batch answer
            el = b.term(h)["dest"]["l"]
            if not any(el in Slice(F, b).operand(o).seen for o in ops):
                continue
            per.setdefault(h, []).append((bi, early))
        for h in sorted(per):
            (bi, early) = per[h][0]
            n += 1
            i = idx.get(root, 0)
            idx[root] = i + 1
            ctx.check("C30-d", "%s#answer-loop[%d]#single-exit" % (fkey(root), i), not early,
                      "the loop answering the senders of a batch runs to the end of the batch",
                      "a loop that answers client response senders can be left early at %s: the remaining requests of the batch get no answer from it" % [loc(b, x) for (x, _y) in early[:3]],
                      loc(b, bi))
    ctx.floor("C30-d", n, 26, "loops in raft_role that answer client response senders")


def deadline_adts(F):
    """ADTs of leader_state that carry a `deadline: Instant` next to client response senders (the queue element types)"""
    out = []
    for p, a in F.adts.items():
        if not p.startswith("d_engine_core::raft_role::leader_state::") or p.endswith("::LeaderState"):
            continue
        fs = [(n, t) for v in a["variants"] for (n, t) in v["fields"]]
        if any(n == "deadline" and "Instant" in t for (n, t) in fs):
            out.append(p)
    return sorted(out)


def deadlines_fixed_at_insertion(ctx):
    """C30-c the deadline of a queued request is fixed when it is queued: tick answers a queue element with an error once
    now >= element.deadline, so 'answered within the configured deadline' needs the deadline never to move afterwards.  Every
    assignment to `<queue element>.deadline` must target a value that is not (yet) reachable from a LeaderState field - a
    write through `self.<queue>.entry(..).or_insert_with(..)`, `get_mut`, `iter_mut`, `values_mut` .. extends the wait of
    requests that are already queued (each later arrival at the same key pushes the whole batch out: with a steady stream
    of arrivals and no quorum the first request is never answered)."""
    F = ctx.F
    adts = deadline_adts(F)
    ctx.floor("C30-c", len(adts), 3, "queue element types with a deadline (WriteMetadata, PendingReadBatch, PendingLeaseRead, PostCommitEntry)")
    n_sites, n_ctor = 0, 0
    for bid, b in F.bodies.items():
        if b.crate != "d_engine_core" or is_test_body(b):
            continue
        for adt in adts:
            short = adt.split("::")[-1]
            n_ctor += len(agg_sites(b, adt))
            for (bi, si, st) in assigns_field(b, short, "deadline"):
                n_sites += 1
                pl = st["lhs"] if si != "term" else st["dest"]
                s = Slice(F, b)
                s.local(pl["l"])
                for (a_, f_, _v) in core.place_fields({"l": pl["l"], "pj": pl.get("pj", [])[:-1]}):
                    s.sources.add(("field", a_, f_))
                queued = sorted(x[2] for x in s.sources if x[0] == "field" and strip_generics(x[1]).endswith("leader_state::LeaderState"))
                root = F.root_of[bid]
                ctx.check("C30-c", "%s#%s.deadline#not-extended-in-queue" % (fkey(root), short), not queued,
                          "the deadline is assigned before the element is queued",
                          "%s.deadline is overwritten on an element that is already held in LeaderState.%s: every such write moves the expiry of requests that were queued "
                          "earlier; tick only answers them once now >= deadline, so a steady stream of arrivals (no quorum, frozen read_index / commit index) keeps the first "
                          "request waiting for ever" % (short, "/".join(queued)), loc(b, bi))
    ctx.floor("C30-c", n_ctor, 3, "constructions of deadline-carrying queue elements")
    ctx.note("C30-c: %d assignment(s) to a queue element's deadline outside its construction" % n_sites)
