"""C26 Membership changes never allow two disjoint quorums (DESIGN 4/C26).
Raft without joint consensus is safe only if the voter set changes by one server at a time and a new
change starts only after the previous one took effect.  Decides: (a) one promotion entry changes at
most one voter: the batch size that flows from calculate_safe_batch_size into drain_batch /
BatchPromote.node_ids is bounded by 1 (exact decision table of calculate_safe_batch_size);
(b) the proposal of a voter-set change is control dependent on some state that can tell whether an
earlier configuration entry is still in flight; (c) one voter predicate everywhere: RaftMembership::voters
keeps exactly status == Active (and replication_peers includes Active), the leader's voter count used to
size a promotion is voters().len() + 1, and a promotion writes status Active; (d) the leader's cached configuration
(ClusterMetadata, read by every commit-quorum computation) is rebuilt on every applied configuration change, on every
non-error path.  Necessary conditions, not
the whole behaviour (quorum intersection over all histories is not decided)."""
from .common import *
from .helpers_r3 import *

EXPLANATION = __doc__

NOT_INFLIGHT_FIELDS = {"pending_promotions", "node_config", "stale_check_deadline", "cluster_metadata", "shared_state", "_marker"}
NOT_INFLIGHT_CALLS = r"Membership::(voters|members|contains_node|get_node_status|replication_peers|retrieve_node_meta|get_cluster_conf_version|nodes_with_status)$"


def dominating_conds(body, bi, conds):
    out = []
    for eid, c in conds.items():
        if is_noise_exp(body.term(c.edge["src"]).get("exp")):
            continue
        if guarded_by(body, bi, lambda x: x is c, conds)[0]:
            out.append(c)
    return out


def inflight_evidence(F, c, depth=2):
    """fields / calls read by a guard condition (looking into workspace predicates it calls) that could
    record an in-flight configuration change"""
    s = cond_slice(F, c)
    ev = []
    fields = set((strip_generics(x[1]), x[2]) for x in s.sources if x[0] == "field")
    for x in s.sources:
        if x[0] != "call":
            continue
        k = x[1]
        if re.search(r"Membership::\w+$", strip_generics(k)) and not re.search(NOT_INFLIGHT_CALLS, strip_generics(k)):
            ev.append("call " + strip_generics(k).split("::")[-1])
        if k in F.bodies and F.bodies[k].crate.startswith("d_engine"):
            for b in bodies_with_helpers(F, k, depth):
                fields |= fields_read(b)
    for (adt, f) in fields:
        if adt.endswith("leader_state::LeaderState") and f not in NOT_INFLIGHT_FIELDS:
            ev.append("LeaderState.%s" % f)
    return ev


def run(ctx):
    F = ctx.F
    # ---------------------------------------------------------------- C26-a one voter per promotion entry
    csb = ctx.anchor(F.fn, "d_engine_core::raft_role::leader_state::calculate_safe_batch_size")
    bounded = None
    worst = None
    if csb:
        paths = table_of(ctx, "C26-a", csb, "calculate_safe_batch_size")
        if paths:
            rets = [p.ret for p in paths]
            tb = pathsym.Table(paths, extra_exprs=[("bin", "Le", r, ("const", "1")) for r in rets])
            n = 0
            try:
                for w in tb.worlds():
                    n += 1
                    for p in tb.select(w):
                        v = w.int(p.ret)
                        if v > 1 and (worst is None or v < worst[0]):
                            worst = (v, w.describe())
                bounded = worst is None and n > 0
            except (KeyError, pathsym.TooComplex) as e:
                ctx.bad("C26-a", "calculate_safe_batch_size#table", "UNRECOGNISED-FORM: cannot evaluate the batch-size table: %s" % (e,), "%s:%s" % (csb.file, csb.line))
    hp = ctx.anchor(F.method, "LeaderState", "handle_promote_ready_learners")
    if hp:
        mb = F.main_body(hp)
        db = calls_matching(mb, r"LeaderState::drain_batch$")
        ctx.floor("C26-a", len(db), 1, "drain_batch call in handle_promote_ready_learners")
        for (bi, t) in db:
            s = XSlice(F, mb).operand(t["args"][1])
            from_csb = s.has_call(r"leader_state::calculate_safe_batch_size$")
            clamp = s.has_call(r"cmp::(Ord::)?min$") and "1" in s.consts()
            const1 = set(x[0] for x in s.sources) <= {"const", "cname"} and set(s.consts()) <= {"0", "1"}
            ok = clamp or const1 or (from_csb and bounded is True)
            ctx.check("C26-a", "%s#drain_batch#count<=1" % fkey(hp), ok,
                      "the number of learners put into one BatchPromote entry is bounded by 1",
                      "one BatchPromote entry can change more than one voter: the count passed to drain_batch comes from calculate_safe_batch_size, which returns %s "
                      "(smallest counter-example %s).  History: voters {A,B,C}, learners D,E caught up -> calculate_safe_batch_size(3,2) = 2 -> a single entry promotes D and E. "
                      "A (leader, term T) replicates it to everyone and commits; A,D,E learn the commit and apply it (5 voters, majority 3), B,C hold the entry but have not yet "
                      "learned the commit (3 voters, majority 2).  C times out: votes {B,C} elect it in T+1 under the old configuration; D times out: votes {A,D,E} elect it in T+1 "
                      "under the new one.  {B,C} and {A,D,E} are disjoint: two leaders in one term."
                      % ("> 1" if bounded is False else "an unbounded value", worst), loc(mb, bi))
        # node ids of the entry are exactly the drained batch
        for (bi, t) in calls_matching(mb, r"LeaderState::safe_batch_promote$"):
            s = XSlice(F, mb).operand(t["args"][1])
            ctx.check("C26-a", "%s#safe_batch_promote#ids" % fkey(hp), s.has_call(r"LeaderState::drain_batch$"),
                      "promoted ids are the drained batch", "ids handed to safe_batch_promote do not derive from drain_batch", loc(mb, bi))

    # ---------------------------------------------------------------- C26-b no second change while one is in flight
    # EVERY construction of a membership Change is classified (fail closed on an unknown variant):
    #   AddNode            adds a LEARNER (C27-a): the voter set is untouched
    #   BatchRemove        exempt only where the removed ids are the stale front of the pending-promotion queue, i.e. learners that
    #                      were taken OUT of the queue and therefore are in no in-flight promotion; anywhere else it may remove voters
    #   everything else    changes the voter set: needs in-flight evidence
    all_changes = [x for x in all_agg_sites(F, "membership_change::Change", None, crates=("d_engine_core", "d_engine_server")) if not is_test_body_c26(x[0])]
    ctx.floor("C26-b", len(all_changes), 3, "constructions of a membership Change (AddNode, BatchPromote, BatchRemove)")
    prom = []
    for x in all_changes:
        (b, bi, si, st) = x
        v = st["rv"]["v"]
        root = F.root_of[b.id]
        if v == "AddNode":
            continue
        if v == "BatchRemove":
            ids = XSlice(F, b, through_calls=True).operand(st["rv"]["ops"][0]) if st["rv"].get("ops") else None
            from_queue = bool(ids) and ids.has_field("LeaderState", "pending_promotions")
            if ids is not None and not from_queue:
                for (croot, cbid, cbi, ct) in F.callers_of(lambda k: k == root):
                    cb = F.bodies[cbid]
                    for a in ct["args"][1:]:
                        xs = XSlice(F, cb, through_calls=True).operand(a)
                        if xs.has_field("LeaderState", "pending_promotions"):
                            from_queue = True
                        # ids collected into a local Vec first: `stale_ids.push(entry.node_id)` with entry taken from the queue
                        for (pbi, pt) in calls_matching(cb, r"Vec::push$"):
                            recv = XSlice(F, cb).operand(pt["args"][0])
                            val = XSlice(F, cb, through_calls=True).operand(pt["args"][1])
                            if (recv.seen & xs.seen) and val.has_field("LeaderState", "pending_promotions"):
                                from_queue = True
            if from_queue:
                ctx.ok("C26-b", "%s#Change::BatchRemove#learners-from-stale-queue" % fkey(root),
                       "removes only ids popped from the pending-promotion queue (learners in no in-flight promotion): not a voter-set change", loc(b, bi))
                continue
        if v not in ("Promote", "BatchPromote", "RemoveNode", "BatchRemove"):
            ctx.bad("C26-b", "%s#Change::%s#unclassified" % (fkey(root), v), "UNRECOGNISED-FORM: a membership Change variant the rule has no classification for", loc(b, bi))
            continue
        prom.append(x)
    ctx.floor("C26-b", len(prom), 1, "constructions of a voter-changing Change (Promote/BatchPromote/RemoveNode/BatchRemove of non-queue ids)")
    for (b, bi, si, st) in prom:
        root = F.root_of[b.id]
        evidence = []
        sites = [(b, bi)]
        frontier = [root]
        for _lvl in range(3):
            nxt = []
            for fid in frontier:
                for (croot, cbid, cbi, t) in F.callers_of(lambda k: k == fid):
                    if croot != fid:
                        sites.append((F.bodies[cbid], cbi))
                        nxt.append(croot)
            frontier = nxt
        n_guards = 0
        for (sb, sbi) in sites:
            conds = edge_conditions(sb)
            for c in dominating_conds(sb, sbi, conds):
                n_guards += 1
                evidence += inflight_evidence(F, c)
        ctx.check("C26-b", "%s#Change::%s#one-at-a-time" % (fkey(root), st["rv"]["v"]), bool(evidence),
                  "proposal depends on in-flight state: %s" % sorted(set(evidence))[:4],
                  "a voter-set change is proposed without looking at any state that records an earlier, still uncommitted/unapplied configuration entry "
                  "(%d guards on the way to the proposal read only the promotion queue and the *applied* voter set).  History: voters {A,B,C,D}, learners E,F,G become "
                  "ready one after the other; each time voters() still returns the applied 4, calculate_safe_batch_size(4,1) = 1, so three single-voter entries i,i+1,i+2 are in "
                  "flight together.  A commits them with {A,B,C}; A,E,F,G apply (7 voters, majority 4), B,C have the entries but not the commit, D has neither.  C wins term T+1 "
                  "with {B,C,D} (majority of 4), E wins term T+1 with {A,E,F,G} (majority of 7): disjoint quorums although every entry changed one voter" % n_guards, loc(b, bi))

    # ---------------------------------------------------------------- C26-c one voter predicate
    vt = ctx.anchor(F.method, "RaftMembership", "voters")
    if vt:
        tests = role_tests(F, vt.id, "NodeMeta", "status", r"NodeStatus::\w+(::|$)")
        per = {}
        for (tb_, tbi, op) in tests:
            for st in tb_.blocks[tbi]["st"]:
                rv = st.get("rv")
                if rv and rv["k"] == "bin" and rv["op"] in ("Eq", "Ne"):
                    xs = XSlice(F, tb_).operand(rv["a"])
                    xs.operand(rv["b"])
                    for src in xs.sources:
                        if src[0] == "cname":
                            m = re.search(r"NodeStatus::(\w+)", src[1])
                            if m:
                                per.setdefault(m.group(1), set()).add(op)
        ctx.floor("C26-c", len(per), 1, "NodeMeta.status tests in RaftMembership::voters")
        ctx.check("C26-c", "%s#status==Active" % fkey(vt), per == {"Active": {"Eq"}},
                  "voters() keeps exactly the nodes with status == Active",
                  "RaftMembership::voters does not keep exactly status == Active (tests: %s): e.g. Promotable learners are asked for votes and counted in every quorum size "
                  "before any promotion entry committed, so a 3-voter cluster with 2 fresh learners needs 3 of 5 while the learners never grant a vote"
                  % dict((k, sorted(v)) for k, v in per.items()), "%s:%s" % (vt.file, vt.line))
    rp = ctx.anchor(F.method, "RaftMembership", "replication_peers")
    if rp:
        tests = role_tests(F, rp.id, "NodeMeta", "status", r"NodeStatus::Active(::|$)")
        ctx.check("C26-c", "%s#includes-Active" % fkey(rp), sorted(set(op for (_b, _bi, op) in tests)) == ["Eq"],
                  "replication_peers keeps status == Active nodes", "replication_peers has no `status == Active` disjunct: voters would not be replicated to", "%s:%s" % (rp.file, rp.line))
    if hp:
        mb = F.main_body(hp)
        cs = calls_matching(mb, r"leader_state::calculate_safe_batch_size$")
        ctx.floor("C26-c", len(cs), 1, "calculate_safe_batch_size call in handle_promote_ready_learners")
        for (bi, t) in cs:
            s = XSlice(F, mb).operand(t["args"][0])
            ctx.check("C26-c", "%s#current_voters" % fkey(hp), s.has_call(r"Membership::voters$") and "1" in s.consts() and any(x[0] == "binop" and x[1].startswith("Add") for x in s.sources),
                      "current voter count = voters().len() + 1 (self)", "voter count used to size a promotion does not derive from Membership::voters().len() + 1: %s" % sorted(x[1] for x in s.sources if x[0] == "call")[:5], loc(mb, bi))
    bp = all_agg_sites(F, "common::BatchPromote", None, crates=("d_engine_core", "d_engine_server"))
    ctx.floor("C26-c", len(bp), 1, "BatchPromote constructions")
    for (b, bi, si, st) in bp:
        s = XSlice(F, b).operand(agg_field(st, "new_status"))
        ctx.check("C26-c", "%s#BatchPromote.new_status" % fkey(F.root_of[b.id]), s.has_cname(r"NodeStatus::Active(::|$)"),
                  "promotion writes NodeStatus::Active (the status voters() selects)", "BatchPromote.new_status is not the constant NodeStatus::Active: %s" % sorted(x[1] for x in s.sources if x[0] == "cname"), loc(b, bi))


# ---------------------------------------------------------------------------------------------- C26-d
_run_abc26 = run


def run(ctx):
    _run_abc26(ctx)
    leader_cache_refreshed(ctx)


def is_test_body_c26(b):
    return bool(re.search(r"(_test|/tests?/|test_utils|mock)", b.file or "")) or "::tests::" in b.id


def leader_cache_refreshed(ctx):
    """C26-d the leader's cached configuration (ClusterMetadata: replication_targets with their roles, total_voters,
    single_voter - what calculate_new_commit_index / quorum_confirmed / is_voter read on every ACK) is rebuilt from the live
    membership on EVERY applied configuration change: (1) handle_membership_applied reaches update_cluster_metadata on every
    path; (2) update_cluster_metadata / init_cluster_metadata assign LeaderState.cluster_metadata on every path that returns Ok
    - no early `return Ok(())` that keeps the cached roles (a promotion changes no peer id, only roles: a shortcut on 'same ids'
    leaves the commit quorum at a majority of the OLD voter set while elections use the new one)."""
    F = ctx.F
    n = 0
    for name in ("update_cluster_metadata", "init_cluster_metadata"):
        f = F.try_method("LeaderState", name)
        if f is None:
            continue
        mb = F.main_body(f)
        writes = sorted(set(bi for (bi, si, st) in writes_to_field(mb, "LeaderState", "cluster_metadata")))
        # a helper that assigns the field counts as the assignment
        for (bi, t) in mb.calls():
            for tg in F.resolve_targets(t):
                if tg in F.bodies and tg != f.id and strip_generics(self_type_of(F, tg) or "").endswith("LeaderState") and \
                        any(writes_to_field(gb, "LeaderState", "cluster_metadata") for gb in F.group_bodies(F.bodies[tg])):
                    writes.append(bi)
        n += 1
        if not writes:
            ctx.bad("C26-d", "%s#assigns-cluster_metadata" % fkey(f), "%s never assigns LeaderState.cluster_metadata" % name, "%s:%s" % (mb.file, mb.line))
            continue
        # error exits (`?` residuals, explicit Err results) may leave the cache alone; every other way out must have assigned it
        errs = set(x for x, t in mb.calls() if "from_residual" in (callee_key(t) or ""))
        errs |= set(bi for bi, blk in enumerate(mb.blocks) for st in blk["st"]
                    if st.get("rv", {}).get("k") == "agg" and st["rv"].get("v") == "Err" and strip_generics(st["rv"].get("adt") or "").endswith("result::Result"))
        # a shortcut is harmless only when the freshly built ClusterMetadata EQUALS the cached one as a whole (all roles and counts):
        # blocks entered through the true edge of `<ClusterMetadata as PartialEq>::eq(..)` count as "assigned"
        same = []
        for c in edge_conditions(mb).values():
            if c.kind == "call" and c.truth is True and re.search(r"ClusterMetadata as core::cmp::PartialEq>::eq$|ClusterMetadata::eq$", c.callee or ""):
                same.append(c.edge["dst"])
        wit = must_pass(mb, 0, [], writes + sorted(errs) + same, treat_exit_as_goal=True)
        ctx.check("C26-d", "%s#assigns-cluster_metadata-on-every-Ok-path" % fkey(f), wit is None,
                  "every path that returns Ok has rebuilt ClusterMetadata from the membership it was given",
                  "%s can return Ok without assigning LeaderState.cluster_metadata: the leader keeps counting commit quorums with the cached voter roles of the previous "
                  "configuration (e.g. after BatchPromote[4,5] on {1,2,3} it still commits with 2 of {1,2,3} while {3,4,5} can elect a leader: disjoint quorums)" % name,
                  "%s:%s" % (mb.file, mb.line), wit and bpath(mb, wit))
    ctx.floor("C26-d", n, 2, "LeaderState::{update,init}_cluster_metadata")
    hma = F.try_method("LeaderState", "handle_membership_applied")
    if hma is not None:
        mb = F.main_body(hma)
        ups = [bi for (bi, t) in calls_matching(mb, r"LeaderState::update_cluster_metadata$")]
        ctx.floor("C26-d", len(ups), 1, "update_cluster_metadata call in LeaderState::handle_membership_applied")
        wit = must_pass(mb, 0, [], ups, treat_exit_as_goal=True) if ups else None
        ctx.check("C26-d", "%s#refreshes-cache" % fkey(hma), bool(ups) and wit is None, "every applied configuration change refreshes the leader's cached configuration",
                  "handle_membership_applied can finish without calling update_cluster_metadata", "%s:%s" % (mb.file, mb.line), wit and bpath(mb, wit))
    else:
        ctx.floor("C26-d", 0, 1, "LeaderState::handle_membership_applied")
