"""C22 Key-value command semantics: CAS truth table and in-batch visibility (DESIGN 4/C22).
For every `StateMachine::apply_chunk` impl the CompareAndSwap decision is extracted as an exact guard table
over (current value present?, expected present?) by walking every path of the CompareAndSwap arm from the
read of the current value to the assignment of the decision flag.  Decides:
 (a) truth table: present/present -> byte equality of current and expected, absent/absent -> true,
     present/absent and absent/present -> false; the same table in every engine (siblings agree);
 (c) the decision flag is what guards the store of the new value and selects ApplyResult::success / failure;
 (b) in-batch visibility: the current value is read through the same overlay that receives the chunk's own
     earlier writes - RocksDB: `get_from_batch_and_db_cf` on the batch object that gets the put/delete and is
     committed, and no direct `DB::get*` in apply_chunk; File: the lookup takes the per-chunk overlay map
     first (overlay.get(..) with the base map only as the fallback) and every mutating arm writes the overlay.
Necessary conditions; agreement over all sequences and chunkings is not decided."""
from .common import *
from .helpers_r2 import *
from .c23 import data_sites, STORE_RX

EXPLANATION = __doc__
TECHNIQUE = "static analysis of rustc MIR facts: dominance/guard and value-provenance rules plus exact symbolic decision tables of loop-free guard functions (exhaustive over weak orderings)"

READ_RX = r"::(get|get_cf|get_pinned_cf|get_from_batch_and_db_cf|get_from_batch_and_db|get_from_batch_cf)$"
FALLBACK_RX = r"option::Option::(unwrap_or_else|or_else|unwrap_or|or)$"
EQ_RX = r"::eq$"


class PSlice(Slice):
    """Slice that resolves `tuple.i` to the i-th operand of the tuple aggregate (match on a pair)"""

    def place(self, pl):
        pj = pl.get("pj", [])
        if pj and isinstance(pj[0], dict) and "i" in pj[0]:
            ds = self.body.defs().get(pl["l"], [])
            if len(ds) == 1 and ds[0][0] == "assign" and ds[0][3]["rv"]["k"] == "agg" and ds[0][3]["rv"].get("tuple"):
                for (adt, f, _v) in core.place_fields({"pj": pj[1:]}):
                    self.sources.add(("field", adt, f))
                return self.operand(ds[0][3]["rv"]["ops"][pj[0]["i"]])
        return Slice.place(self, pl)


def role_of(s):
    exp = s.has_field("Command", "expected")
    cur = any(x[0] == "call" and re.search(READ_RX, strip_generics(x[1])) for x in s.sources)
    if exp and not cur:
        return "exp"
    if cur and not exp:
        return "cur"
    return None


def const_bool(st):
    rv = st.get("rv")
    if rv and rv["k"] == "use" and "c" in rv["a"] and rv["a"].get("ty") == "bool":
        return str(rv["a"].get("v", rv["a"]["c"]))
    return None


def cas_table(F, b, conds, entry, stops):
    """walk the CompareAndSwap arm: [(cur, exp, value, block, flag_local, eq_terminator)] per path"""
    rows = []
    budget = [4000]

    def walk(bi, cur, exp, passed, onpath):
        budget[0] -= 1
        if budget[0] < 0 or bi in onpath:
            return
        blk = b.blocks[bi]
        if blk.get("cleanup"):
            return
        if passed:
            for st in blk["st"]:
                v = const_bool(st)
                if v is not None and not st["lhs"].get("pj") and b.local_ty(st["lhs"]["l"]) == "bool":
                    rows.append((cur, exp, v, bi, st["lhs"]["l"], None))
                    return
        t = blk["t"]
        if passed and t["k"] == "call" and not t["dest"].get("pj") and b.local_ty(t["dest"]["l"]) == "bool":
            k = strip_generics(callee_key(t) or "")
            rows.append((cur, exp, "eq" if re.search(EQ_RX, k) else "call:" + k.split("::")[-1], bi, t["dest"]["l"], t))
            return
        for s in b.succ(bi):
            if s in stops:
                continue
            c2, e2, p2 = cur, exp, passed
            e = b.edge(bi, s)
            c = conds.get(e["id"]) if e else None
            if c is not None and c.kind == "discr" and (c.adt or "").endswith("option::Option") and c.variants:
                r = role_of(PSlice(F, b).place(c.place))
                if r == "cur":
                    if cur is not None and not (cur & c.variants):
                        continue
                    c2 = frozenset(c.variants if cur is None else cur & c.variants)
                    p2 = True
                elif r == "exp":
                    if exp is not None and not (exp & c.variants):
                        continue
                    e2 = frozenset(c.variants if exp is None else exp & c.variants)
                    p2 = True
            walk(s, c2, e2, p2, onpath | {bi})
    walk(entry, None, None, False, frozenset())
    return rows


def cas_helper_table(F, b, arms, entry):
    """the CAS decision extracted into a boolean helper `fn(current: Option<..>, expected: Option<..>) -> bool` called from the
    CompareAndSwap arm: rows of the same shape as cas_table, computed from the helper's exact decision table (pathsym)"""
    from .. import pathsym
    for (bi, t) in b.calls():
        a = arm_of(b, arms, bi)
        if not a or a[1] != entry or t["dest"].get("pj") or b.local_ty(t["dest"]["l"]) != "bool" or len(t["args"]) < 2:
            continue
        tg = [x for x in F.resolve_targets(t) if x in F.bodies]
        if len(tg) != 1:
            continue
        roles = [role_of(PSlice(F, b).operand(x)) for x in t["args"]]
        if sorted(str(r) for r in roles if r) != ["cur", "exp"]:
            continue
        hb = F.main_body(F.bodies[tg[0]])
        try:
            paths, _ev = pathsym.decision_table(F, hb)
        except pathsym.TooComplex:
            continue
        pi = {"cur": roles.index("cur") + 1, "exp": roles.index("exp") + 1}
        is_par = lambda i: (lambda e: e[0] == "param" and e[1] == i)
        tb = pathsym.Table(paths)
        vc = [v for v in tb.vars if is_par(pi["cur"])(pathsym.strip_refs(v))]
        ve = [v for v in tb.vars if is_par(pi["exp"])(pathsym.strip_refs(v))]
        if len(vc) != 1 or len(ve) != 1:
            continue
        rows = []
        for p in paths:
            cv = ev = None
            for (ce, out) in p.conds:
                if ce[0] == "variant" and ce[1] == vc[0]:
                    cv = frozenset(out) if cv is None else cv & frozenset(out)
                if ce[0] == "variant" and ce[1] == ve[0]:
                    ev = frozenset(out) if ev is None else ev & frozenset(out)
            r = pathsym.strip_refs(p.ret) if p.ret is not None else None
            if r is None:
                continue
            if r[0] == "const":
                val, eq_roles = r[1], None
            elif r[0] == "bin" and r[1] == "Eq":
                val = "eq"
                m = lambda x, i: pathsym.mentions(x, is_par(i))
                sides = []
                for x in (r[2], r[3]):
                    sides.append("cur" if m(x, pi["cur"]) and not m(x, pi["exp"]) else ("exp" if m(x, pi["exp"]) and not m(x, pi["cur"]) else "None"))
                eq_roles = sorted(sides)
            else:
                val, eq_roles = "expr:%s" % pathsym.show(r)[:60], None
            rows.append((cv, ev, val, bi, t["dest"]["l"], None, eq_roles))
        if rows:
            return rows
    return []


SPEC = {("Some", "Some"): "eq", ("None", "None"): "true", ("Some", "None"): "false", ("None", "Some"): "false"}


def run(ctx):
    F = ctx.F
    impls = trait_impls(F, SM_TRAIT + "apply_chunk")
    ctx.floor("C22-a", len(impls), 2, "impls of StateMachine::apply_chunk")
    n_tab = 0
    n_result = {}
    tables = {}
    for root in impls:
        tag = engine_of(root)
        short_ty = self_type_of(F, root.id).split("::")[-1]
        decision = None
        for b in real_bodies(F, root):
            conds = edge_conditions(b)
            arms = variant_arms(b, conds, "command::Command")
            stops = set(e for (_c, e) in arms) | set(b.exits())
            for (c, entry) in arms:
                if c.variants != {"CompareAndSwap"}:
                    continue
                rows = cas_table(F, b, conds, entry, stops - {entry})
                if not rows or all(r[2].startswith("call:") for r in rows):
                    rows = cas_helper_table(F, b, arms, entry) or rows
                if rows:
                    decision = (b, entry, rows, conds, arms)
        key = "%s#cas" % fkey(root)
        if decision is None:
            ctx.bad("C22-a", key + "#table", "UNRECOGNISED-FORM: no CompareAndSwap arm in %s apply_chunk tests the presence of the current / expected "
                    "value before setting a bool flag" % tag, "%s:%s" % (root.file, root.line))
            continue
        (b, entry, rows, conds, arms) = decision
        n_tab += 1
        flags = set(r[4] for r in rows)
        got = {}
        for w in SPEC:
            vals = set(r[2] for r in rows if (r[0] is None or w[0] in r[0]) and (r[1] is None or w[1] in r[1]))
            got[w] = vals
        tables[tag] = dict((w, sorted(v)) for w, v in got.items())
        wrong = ["current=%s expected=%s -> %s (spec: %s)" % (w[0], w[1], sorted(got[w]) or "no path", SPEC[w]) for w in SPEC if got[w] != {SPEC[w]}]
        ctx.check("C22-a", key + "#table", not wrong and len(flags) == 1,
                  "CAS decision equals the specification in all 4 presence worlds (%d paths)" % len(rows),
                  "%s CAS decision differs from the specification: %s%s. History: a CAS whose (current, expected) presence falls in that world "
                  "reports the wrong success flag and (non-)writes the new value; the engines diverge from the reference semantics"
                  % (tag, "; ".join(wrong), "" if len(flags) == 1 else "; more than one decision flag %s" % sorted(flags)), loc(b, entry))
        for r in rows:
            if r[2] != "eq":
                continue
            t = r[5]
            roles = r[6] if t is None and len(r) > 6 else sorted(str(role_of(PSlice(F, b).operand(a))) for a in t["args"][:2])
            ctx.check("C22-a", key + "#eq-operands", roles == ["cur", "exp"], "equality compares the current value with the expected value",
                      "the equality that decides a present/present CAS does not compare current with expected (operand roles: %s)" % roles, loc(b, r[3]))
        flag = sorted(flags)[0]
        # ------------------------------------------------------------ C22-c the flag guards the store and the result
        def flag_true(c, body=b, fl=flag):
            return c.truth is True and c.body is body and fl in cond_slice(F, c).seen
        region_stores = [(bi, t) for (bi, t) in calls_matching(b, STORE_RX) if arm_of(b, arms, bi) and arm_of(b, arms, bi)[1] == entry]
        ctx.floor("C22-c", len(region_stores), 1, "store of the new value in the %s CompareAndSwap arm" % tag)
        for (bi, _t) in region_stores:
            ok, wit, _ = guarded_by(b, bi, flag_true, conds)
            ctx.check("C22-c", key + "#store-under-flag", ok, "the new value is stored only when the decision flag is true",
                      "the CompareAndSwap arm can store the new value although the decision flag is false (a failed CAS still writes)",
                      loc(b, bi), wit and bpath(b, wit))
        for mbody in real_bodies(F, root):
            mconds = edge_conditions(mbody)
            marms = variant_arms(mbody, mconds, "command::Command")

            def from_decision(c, mb_=mbody):
                if c.truth is None or c.body is not mb_:
                    return None
                s = cond_slice(F, c)
                if (mb_ is b and flag in s.seen) or ("closure", b.id) in s.sources:
                    return c.truth
                return None
            for (rx, want, what) in ((r"ApplyResult::success$", True, "success"), (r"ApplyResult::failure$", False, "failure")):
                for (bi, _t) in calls_matching(mbody, rx):
                    a = arm_of(mbody, marms, bi)
                    if not a or a[0].variants != {"CompareAndSwap"}:
                        continue
                    n_result[(tag, what)] = n_result.get((tag, what), 0) + 1
                    ok, wit, _ = guarded_by(mbody, bi, lambda c: from_decision(c) is want, mconds)
                    ctx.check("C22-c", "%s#result-%s-under-flag" % (key, what), ok, "ApplyResult::%s only when the flag is %s" % (what, want),
                              "ApplyResult::%s is produced on a path where the CAS decision is not %s: the client is told the opposite of what "
                              "was applied" % (what, want), loc(mbody, bi), wit and bpath(mbody, wit))
            if mbody is not b:
                for (bi, _t) in data_sites(F, mbody, STORE_RX, short_ty):
                    a = arm_of(mbody, marms, bi)
                    if not a or a[0].variants != {"CompareAndSwap"}:
                        continue
                    ok, wit, _ = guarded_by(mbody, bi, lambda c: from_decision(c) is True, mconds)
                    ctx.check("C22-c", key + "#data-store-under-flag", ok, "self.data is written only when the pre-computed decision is true",
                              "the data map is written in the CompareAndSwap arm without the pre-computed decision being true", loc(mbody, bi),
                              wit and bpath(mbody, wit))
        # ------------------------------------------------------------ C22-b in-batch visibility
        reads = [(bi, t) for (bi, t) in calls_matching(b, READ_RX) if arm_of(b, arms, bi) and arm_of(b, arms, bi)[1] == entry
                 and role_of(PSlice(F, b).operand({"p": t["dest"]})) == "cur"]
        rocks = [(bi, t) for (bi, t) in reads if "rocksdb" in strip_generics(callee_key(t))]
        if rocks:
            for (bi, t) in rocks:
                name = strip_generics(callee_key(t)).split("::")[-1]
                recv = Slice(F, b).operand(t["args"][0])
                same_batch = [x for (x, tt) in calls_matching(b, r"rust_rocksdb::.*::(put_cf|delete_cf)$") if Slice(F, b).operand(tt["args"][0]).seen & recv.seen]
                committed = [x for (x, tt) in calls_matching(b, r"rust_rocksdb::db::DBCommon::write(_wbwi)?(_opt)?$") if Slice(F, b).operand(tt["args"][1]).seen & recv.seen]
                ctx.check("C22-b", key + "#read-through-batch", name.startswith("get_from_batch_and_db") and bool(same_batch) and bool(committed),
                          "the current value is read through the batch that receives this chunk's writes and is committed",
                          "the CAS reads the current value with %s on an object that %s: writes made earlier in the same chunk are invisible. "
                          "History: one chunk [put(x,1), CAS(x:1->2)] on x=0: the CAS sees 0 and fails, another engine / another chunking succeeds"
                          % (name, "receives no put/delete" if not same_batch else "is not the committed batch"), loc(b, bi))
            direct = [(bi, t) for mb in real_bodies(F, root) for (bi, t) in calls_matching(mb, r"rust_rocksdb::db::DBCommon::(get|get_cf|get_pinned|get_pinned_cf|multi_get\w*)(_opt)?$")]
            ctx.check("C22-b", key + "#no-direct-db-read", not direct, "apply_chunk never reads the database behind the batch's back",
                      "apply_chunk reads the database directly (%d site(s)); values written earlier in the chunk are missed" % len(direct),
                      "%s:%s" % (root.file, root.line))
        else:
            fb = [(bi, t) for (bi, t) in calls_matching(b, FALLBACK_RX) if role_of(PSlice(F, b).operand({"p": t["dest"]})) == "cur"]
            overlay_first = False
            overlay_roots = set()
            for (bi, t) in fb:
                s0 = PSlice(F, b).operand(t["args"][0])
                prim = [tt for (_x, tt) in s0.call_sites if re.search(READ_RX, strip_generics(callee_key(tt)))]
                if prim:
                    overlay_first = True
                    for tt in prim:
                        overlay_roots |= set(x for x in Slice(F, b).operand(tt["args"][0]).sources if x[0] in ("upvar", "param")) | \
                            set(("local", l) for l in Slice(F, b).operand(tt["args"][0]).seen if b.local_name(l))
            # (added after seeded mutant C22-s1) an overlay HIT is final, also when it is a tombstone: between overlay.get(..) and the
            # base fallback no combinator may turn Some(tombstone) into None (and_then / flatten / filter / and), and the fallback
            # combinator must not be one that a flattened None falls through (`or_else`/`or` after such a step).
            tomb_ok = True
            why_t = ""
            for (bi, t) in fb:
                s0 = PSlice(F, b).operand(t["args"][0])
                steps = [strip_generics(callee_key(tt)).split("::")[-1] for (_x, tt) in s0.call_sites
                         if re.search(r"option::Option::\w+$", strip_generics(callee_key(tt) or ""))]
                lossy = [x for x in steps if x in ("and_then", "flatten", "filter", "and", "xor", "take_if", "zip")]
                if lossy:
                    tomb_ok = False
                    why_t = "overlay hit passes through Option::%s before the fallback" % "/".join(sorted(set(lossy)))
            ctx.check("C22-b", key + "#overlay-hit-is-final", tomb_ok or not fb,
                      "a key deleted earlier in the chunk (overlay tombstone) is seen as absent, the base map is asked only when the overlay has no entry",
                      "%s: a key deleted earlier in the same chunk (overlay entry = None) falls through to its PRE-chunk value. History: x exists; one chunk "
                      "[Delete(x), CAS(x, old -> new)]: the CAS sees the old value and succeeds, resurrecting x; the same commands in two chunks fail the CAS" % why_t,
                      loc(b, fb[0][0]) if fb else loc(b, entry))
            ctx.check("C22-b", key + "#overlay-before-base", overlay_first and bool(overlay_roots),
                      "the lookup asks the per-chunk overlay first and falls back to the base map",
                      "UNRECOGNISED-FORM / wrong precedence: the current value of the CAS is not `overlay.get(key)` with the base map as fallback",
                      loc(b, reads[0][0]) if reads else loc(b, entry))
            for want in ("Insert", "Delete", "CompareAndSwap"):
                hit = False
                for (bi, t) in calls_matching(b, r"Map::(insert|remove)$"):
                    a = arm_of(b, arms, bi)
                    if a and a[0].variants == {want}:
                        rs = Slice(F, b).operand(t["args"][0])
                        roots = set(x for x in rs.sources if x[0] in ("upvar", "param")) | set(("local", l) for l in rs.seen if b.local_name(l))
                        if roots & overlay_roots:
                            hit = True
                ctx.check("C22-b", "%s#overlay-updated:%s" % (key, want), hit, "the %s arm records its effect in the overlay" % want,
                          "the %s arm of the chunk pre-evaluation does not update the overlay the CAS lookup reads: a later CAS in the same chunk "
                          "decides on the pre-chunk value. History: one chunk [%s(x), CAS(x ...)] evaluates the CAS against the value before the chunk"
                          % (want, want), loc(b, entry))
    ctx.floor("C22-a", n_tab, 2, "CAS decision tables extracted (one per engine)")
    for tg_ in sorted(tables):
        for what in ("success", "failure"):
            ctx.floor("C22-c", n_result.get((tg_, what), 0), 1, "ApplyResult::%s built in the CompareAndSwap arm of the %s engine (under the decision flag)" % (what, tg_))
    if len(tables) >= 2:
        vals = list(tables.values())
        ctx.check("C22-a", "apply_chunk#cas#siblings-agree", all(v == vals[0] for v in vals), "all engines implement the same CAS table",
                  "the engines implement different CAS tables: %s" % tables)
