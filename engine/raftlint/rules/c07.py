"""C07 Followers only mark leader-matching entries as committed - bounded, ordered, success-only commit update
(DESIGN 4/C07).  Decides: (a) the follower's new commit index is `min(leader_commit, local bound)` and is
produced only when leader_commit > my_commit (exact decision table); (b) it is computed only after the
AppendEntries consistency check succeeded; (c) the local bound is read after conflicting entries were
replaced; (d) the value handed to update_commit_index_with_signal on the follower path is that result.
Necessary conditions; which local bound is the right one (observation O07) is not decided."""
from .common import *

EXPLANATION = __doc__
TECHNIQUE = "static analysis of rustc MIR facts: dominance/guard and value-provenance rules plus exact symbolic decision tables of loop-free guard functions (exhaustive over weak orderings)"


def run(ctx):
    F = ctx.F
    f = ctx.anchor(F.method, "ReplicationHandler", "if_update_commit_index_as_follower")
    if f:
        paths = table_of(ctx, "C07-a", f, "if_update_commit_index_as_follower")
        if paths:
            tb0 = pathsym.Table(paths)
            my, last, lead = par(1), par(2), par(3)
            q_my = pick(tb0.quant, my, "")
            q_ld = pick(tb0.quant, lead, "")
            if None in (q_my, q_ld) or len(tb0.quant) != 2 or tb0.bools:
                ctx.bad("C07-a", "%s#table" % fkey(f), "UNRECOGNISED-FORM: inputs %s %s" % ([sym_show(q) for q in tb0.quant], [sym_show(b) for b in tb0.bools]), "%s:%s" % (f.file, f.line))
            else:
                def outcome(p, w):
                    v = variant_of(p.ret)
                    if v == "Some":
                        x = agg_get(p.ret, "0")
                        is_min = x[0] == "min" and {x[1], x[2]} == {("param", 3, f.local_name(3)), ("param", 2, f.local_name(2))}
                        return ("Some", "min(leader_commit,bound)" if is_min else sym_show(x))
                    return (v, None)
                run_table(ctx, "C07-a", "%s#table" % fkey(f), paths, outcome,
                          lambda w: ("Some", "min(leader_commit,bound)") if w.int(q_ld) > w.int(q_my) else ("None", None), "%s:%s" % (f.file, f.line),
                          what="commit update = Some(min(leader_commit, local bound)) iff leader_commit > my_commit, else None")
    hae = ctx.anchor(F.method, "ReplicationHandler", "handle_append_entries")
    if hae:
        mb = F.main_body(hae)
        conds = edge_conditions(mb)
        cu = calls_matching(mb, r"ReplicationHandler::if_update_commit_index_as_follower$")
        ctx.floor("C07-b", len(cu), 1, "if_update_commit_index_as_follower call in handle_append_entries")
        for (bi, t) in cu:
            def not_x(x):
                return lambda c: c.truth is False and c.kind in ("call", "bool") and cond_calls(F, c, r"replication_ext::%s$" % x) \
                    and cond_calls(F, c, r"check_append_entries_request_is_legal$")
            ok1, w1, _ = guarded_by(mb, bi, not_x("is_conflict"), conds)
            ok2, w2, _ = guarded_by(mb, bi, not_x("is_higher_term"), conds)
            ctx.check("C07-b", "%s#commit-after-check" % fkey(hae), ok1 and ok2, "commit update computed only after a successful consistency check",
                      "follower commit update reachable although the consistency check failed", loc(mb, bi), (w1 or w2) and bpath(mb, w1 or w2))
            a0 = Slice(F, mb).operand(t["args"][0])
            a1 = Slice(F, mb).operand(t["args"][1])
            a2 = Slice(F, mb).operand(t["args"][2])
            ctx.check("C07-a", "%s#commit-args" % fkey(hae), a0.has_field("StateSnapshot", "commit_index") and a1.has_call(r"RaftLog::(last_entry_id|last_log_id)$") and a2.has_field("AppendEntriesRequest", "leader_commit_index"),
                      "arguments = (my commit index, local log bound, request.leader_commit_index)",
                      "arguments of if_update_commit_index_as_follower are not (my commit, local log bound, leader commit): %s | %s | %s" % (sorted(a0.sources)[:3], sorted(a1.sources)[:3], sorted(a2.sources)[:3]), loc(mb, bi))
            # (c) the bound is read after the conflicting tail was replaced
            bound_calls = [bb for (bb, tt) in a1.call_sites if re.search(r"(last_entry_id|last_log_id)$", strip_generics(callee_key(tt) or ""))]
            filt = [x for x, _ in calls_matching(mb, r"RaftLog::filter_out_conflicts_and_append$")]
            stale = []
            for bb in bound_calls:
                seen, _p = mb.reach_from(bb)
                if any(x in seen for x in filt):
                    stale.append(bb)
            ctx.check("C07-c", "%s#bound-after-append" % fkey(hae), bool(bound_calls) and not stale, "local bound read after filter_out_conflicts_and_append",
                      "the local log bound used for the commit index is read before conflicting entries are replaced", loc(mb, bi))
    # (d) follower-side commit update uses that result
    wf = [b for b in F.find(r"RaftRoleState::handle_append_entries_request_workflow$") if b.parent is None]
    ctx.floor("C07-d", len(wf), 1, "handle_append_entries_request_workflow")
    for w in wf:
        mb = F.main_body(w)
        us = calls_matching(mb, r"RaftRoleState::update_commit_index_with_signal$")
        ctx.floor("C07-d", len(us), 1, "update_commit_index_with_signal in the follower workflow")
        for (bi, t) in us:
            s = Slice(F, mb).operand(t["args"][3])
            ctx.check("C07-d", "%s#commit-from-handler" % fkey(w), s.has_field("AppendResponseWithUpdates", "commit_index_update") and s.has_call(r"ReplicationCore::handle_append_entries$") and not s.has_field("AppendEntriesRequest", "leader_commit_index"),
                      "follower commit index = commit_index_update computed by handle_append_entries",
                      "follower commit index does not come from handle_append_entries' bounded commit_index_update: %s" % sorted(s.sources)[:8], loc(mb, bi))
    # who else advances the commit index?
    allc = F.callers_of(lambda k: strip_generics(k).endswith("RaftRoleState::update_commit_index_with_signal") or strip_generics(k).endswith("RaftRoleState::update_commit_index"))
    fns = sorted(set(fkey(x[0]) for x in allc))
    allowed = {"RaftRoleState::handle_append_entries_request_workflow", "RaftRoleState::update_commit_index_with_signal", "LeaderState::handle_append_result", "LeaderState::handle_log_flushed"}
    ctx.check("C07-d", "update_commit_index#callers", set(fns) <= allowed and len(fns) >= 4, "commit index advanced only by the follower workflow and the two leader paths",
              "commit index is advanced from unexpected functions: %s" % sorted(set(fns) - allowed))
