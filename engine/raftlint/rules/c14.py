"""C14 Rejected writes are never applied - structural clauses (DESIGN 4/C14).
Decides: (a) in LeaderState::push_client_cmd no path that answers the client with an error reaches
propose_buffer.push (and the push happens only when the back-pressure test is false and the command
is present); the non-leader push_client_cmd reaches no log-mutating function at all (positive control:
LeaderState::process_batch does); (b) drain_read_buffer answers only errors and reaches no log-mutating
function, so the batch flushed out of propose_buffer on step-down is never appended; (c) the gRPC
write handler forwards ClientCmd::Propose only when the operation is present; (d) writes whose entries are
ALREADY in the leader's log (reply senders parked in pending_client_writes) are never answered with a code of the
rejection vocabulary (NotLeader and whatever codes push_client_cmd's rejections use): the error code of every
error reply sent by a function that takes senders out of pending_client_writes is followed (through a parameter
to the callers' operands) and compared with that vocabulary.
Necessary conditions, not the whole behaviour."""
from .helpers_r1 import *

EXPLANATION = __doc__

SEND = r"(MaybeCloneOneshotSender::send|oneshot::Sender::send)$"
LOG_SINK = r"(RaftLog::(insert_batch|append_entries|filter_out_conflicts_and_append|pre_allocate_raft_logs_next_index|pre_allocate_id_range|reset)" \
           r"|ReplicationCore::prepare_batch_requests|LeaderState::process_batch|LeaderState::execute_and_process_raft_rpc|ProposeBatchBuffer::push)$"


def is_sink(k):
    return re.search(LOG_SINK, strip_generics(k or "")) is not None


def reply_kind(F, body, t):
    s = Slice(F, body).operand(t["args"][1])
    ks = set(x[2] for x in s.sources if x[0] == "agg" and strip_generics(x[1]).endswith("result::Result"))
    if ks == {"Err"}:
        return "Err"
    if ks == {"Ok"} and s.has_call(r"ClientResponse::(client_error|not_leader)$") and not s.has_call(r"ClientResponse::(write_success|cas_failure|read_results)$"):
        return "Err"
    return "Ok" if ks == {"Ok"} else "?"


def run(ctx):
    F = ctx.F
    D = ctx.depth
    # ---------------------------------------------------------------- C14-a leader: error reply and push are exclusive
    lp = ctx.anchor(F.method, "LeaderState", "push_client_cmd")
    if lp:
        mb = F.main_body(lp)
        conds = edge_conditions(mb)
        pushes = field_calls(F, mb, "LeaderState", "propose_buffer", r"ProposeBatchBuffer::push$")
        ctx.floor("C14-a", len(pushes), 1, "propose_buffer.push in LeaderState::push_client_cmd")
        push_blocks = [bi for bi, _ in pushes]

        def in_propose(bi):
            return guarded_by(mb, bi, lambda c: c.kind == "discr" and c.variants == {"Propose"} and strip_generics(c.adt or "").endswith("ClientCmd"), conds)[0]
        errs = [(bi, t) for (bi, t) in calls_matching(mb, SEND) if in_propose(bi) and reply_kind(F, mb, t) != "Ok"]
        ctx.floor("C14-a", len(errs), 2, "error replies in the Propose arm (back-pressure, empty command)")
        kinds = {}
        for (bi, t) in errs:
            s = Slice(F, mb).operand(t["args"][1])
            what = sorted(strip_generics(x[1]).split("::")[-1] for x in s.sources if x[0] == "call" and "Status::" in strip_generics(x[1])) or ["error"]
            key = "%s#rejects(%s)#never-buffered" % (fkey(lp), "+".join(what))
            n = kinds.get(key, 0)
            kinds[key] = n + 1
            fwd = must_pass(mb, bi, push_blocks, [])
            back = None
            for pb in push_blocks:
                back = back or must_pass(mb, pb, [bi], [])
            ctx.check("C14-a", key if not n else key + "[%d]" % n, fwd is None and back is None, "after this rejection the command cannot reach propose_buffer.push (nor the other way round)",
                      "a write that is answered with an error can also be pushed into propose_buffer: the client retries elsewhere and the command is applied twice",
                      loc(mb, bi), (fwd or back) and bpath(mb, fwd or back))
        for (bi, t) in pushes:
            okb, wit, _ = guarded_by(mb, bi, lambda c: c.truth is False and cond_calls(F, c, r"BackpressureConfig::should_reject_write$"), conds)
            okc, wit2, _ = guarded_by(mb, bi, lambda c: c.kind == "discr" and c.variants == {"Some"} and cond_reads_field(F, c, "ClientWriteRequest", "command"), conds)
            ctx.check("C14-a", "%s#push#guards" % fkey(lp), okb and okc, "buffered only when should_reject_write is false and the command is present",
                      "propose_buffer.push is reachable %s" % ("although should_reject_write(..) is true (rejected and buffered)" if not okb else "without a command"),
                      loc(mb, bi), (wit or wit2) and bpath(mb, wit or wit2))
    dflt = ctx.anchor(F.fn, "d_engine_core::raft_role::role_state::RaftRoleState::push_client_cmd")
    if dflt:
        r = F.fn_reaches(dflt.id, is_sink, D)
        ctx.check("C14-a", "%s#reaches-no-log-sink" % fkey(dflt), r is None, "the non-leader push_client_cmd cannot append to the log or buffer a proposal",
                  "the non-leader push_client_cmd reaches %s: a write rejected as `Not leader` can still enter a log" % (r and [strip_generics(x).split("::")[-1] for x in r[1]]),
                  "%s:%s" % (dflt.file, dflt.line))
    pb_ = ctx.anchor(F.method, "LeaderState", "process_batch")
    if pb_:
        ctx.floor("C14-a", 1 if F.fn_reaches(pb_.id, lambda k: re.search(r"RaftLog::(insert_batch|append_entries)$|ReplicationCore::prepare_batch_requests$", strip_generics(k)), D) else 0, 1,
                  "positive control: LeaderState::process_batch reaches a log-mutating function")

    # ---------------------------------------------------------------- C14-b step-down drain only rejects
    drb = ctx.anchor(F.method, "LeaderState", "drain_read_buffer")
    if drb:
        mb = F.main_body(drb)
        # drain_read_buffer together with the LeaderState helpers it calls (treated as inlined: extracting a part of the drain
        # into a private method must not lose the anchors)
        group = list(F.group_bodies(drb))
        for k in sorted(closure_functions(F, drb.id, 3)):
            hb = F.bodies.get(k)
            if hb is not None and hb.id != drb.id and "leader_state::LeaderState" in strip_generics(self_type_of(F, hb.id) or "") and hb.crate == "d_engine_core":
                group += [x for x in F.group_bodies(hb) if x not in group]
        fl_all = [(gb, bi, t) for gb in group for (bi, t) in field_calls(F, gb, "LeaderState", "propose_buffer", r"ProposeBatchBuffer::(flush|take_all|drain)$")]
        ctx.floor("C14-b", len(fl_all), 1, "propose_buffer.flush in drain_read_buffer (and its LeaderState helpers)")
        r = F.fn_reaches(drb.id, is_sink, D)
        ctx.check("C14-b", "%s#reaches-no-log-sink" % fkey(drb), r is None, "the flushed batch cannot be appended: drain_read_buffer reaches no log-mutating function",
                  "drain_read_buffer reaches %s: writes flushed on step-down (answered `Not leader`) can still be appended and later applied"
                  % (r and [strip_generics(x).split("::")[-1] for x in r[1]]), "%s:%s" % (drb.file, drb.line))
        sends = []
        for b in group:
            for (bi, t) in calls_matching(b, SEND):
                sends.append((b, bi, reply_kind(F, b, t)))
        ctx.floor("C14-b", len(sends), 6, "replies sent by drain_read_buffer")
        bad = [(b, bi) for (b, bi, k) in sends if k != "Err"]
        ctx.check("C14-b", "%s#only-error-replies" % fkey(drb), not bad, "every reply sent while draining is an error",
                  "drain_read_buffer can answer a drained request with a non-error response", bad and loc(*bad[0]))
        # the payloads of the flushed batch are used by nothing: only its senders are consumed
        for (fb, bi, t) in fl_all:
            used = []
            for (xb, xt) in fb.calls():
                if xb == bi or re.search(SEND, strip_generics(callee_key(xt) or "")):
                    continue
                for a in xt["args"]:
                    s = Slice(F, fb).operand(a)
                    if t["dest"]["l"] in s.seen and s.has_field("RaftRequestWithSignal", "payloads"):
                        used.append((xb, strip_generics(callee_key(xt) or "?").split("::")[-1]))
            ctx.check("C14-b", "%s#flushed-payloads-unused" % fkey(drb), not used, "payloads of the flushed batch flow nowhere",
                      "payloads of the batch flushed on step-down flow into %s" % sorted(set(u[1] for u in used)), loc(fb, bi))

    # ---------------------------------------------------------------- C14-c gRPC: missing operation rejected before forwarding
    hw = [b for b in F.find(r"RaftClientService for .*Node<T>>::handle_client_write$") if b.parent is None]
    ctx.floor("C14-c", len(hw), 1, "gRPC handle_client_write")
    for fn in hw:
        n = 0
        for b in F.group_bodies(fn):
            for (bi, si, st) in agg_sites(b, "event::ClientCmd", "Propose"):
                n += 1
                ok, wit, _ = guarded_by(b, bi, lambda c: opt_some(c) and (cond_reads_field(F, c, "ClientWriteRequest", "command") or cond_reads_field(F, c, "WriteCommand", "operation")),
                                        edge_conditions(b))
                ctx.check("C14-c", "%s#Propose-only-with-operation" % fkey(fn), ok, "ClientCmd::Propose is built only when the operation is present",
                          "handle_client_write forwards a write whose operation is missing (it is rejected later as empty while a no-op payload may already be buffered)",
                          loc(b, bi), wit and bpath(b, wit))
        ctx.floor("C14-c", n, 1, "ClientCmd::Propose construction in handle_client_write")

    # ---------------------------------------------------------------- C14-d writes that are already in the log are never answered with a rejection code
    # `pending_client_writes` holds the reply senders of writes that process_batch has ALREADY appended to the log
    # (positive control below); the next leader may still commit them. Answering them with a code out of the
    # rejection vocabulary (the codes the rejection paths of push_client_cmd use: "nothing happened, redirect
    # and retry") makes the client retry a write that is then applied twice. Every function that takes senders
    # out of pending_client_writes and answers them with an error must use a code outside that vocabulary; a code
    # that arrives as a parameter is followed to the callers' operands.
    vocab = {"NotLeader"}
    cnl = [F.bodies[k] for k in F.bodies if strip_generics(k).endswith("RaftRoleState::create_not_leader_response")]
    for fn in [x for x in [lp, dflt] + cnl if x]:
        for b in F.group_bodies(fn):
            for (bi, t) in b.calls():
                if re.search(r"ClientResponse::client_error$", strip_generics(callee_key(t) or "")):
                    vocab |= _codes(F, b, t["args"][0])[0]
    ctx.note("C14-d rejection vocabulary (codes used by push_client_cmd rejections): %s" % sorted(vocab))
    takers = []
    for bid, b in F.bodies.items():
        if b.crate != "d_engine_core" or "_test" in (b.file or ""):
            continue
        root = F.root_of[bid]
        if "LeaderState" not in strip_generics(root):
            continue
        if field_calls(F, b, "LeaderState", "pending_client_writes", r"(mem::take|mem::replace|BTreeMap::<.*>::(split_off|remove|pop_first|pop_last|retain|into_iter|drain|extract_if)|BTreeMap::(split_off|remove|pop_first|pop_last|retain|into_iter|drain|extract_if))$"):
            if root not in [r for r, _ in takers]:
                takers.append((root, F.bodies[root] if root in F.bodies else b))
    ctx.floor("C14-d", len(takers), 2, "functions that take reply senders out of pending_client_writes")
    ins = [1 for bid, b in F.bodies.items() if "LeaderState" in strip_generics(F.root_of[bid]) and field_calls(F, b, "LeaderState", "pending_client_writes", r"BTreeMap(::<.*>)?::insert$")
           and F.fn_reaches(F.root_of[bid], lambda k: re.search(r"RaftLog::(insert_batch|append_entries)$|ReplicationCore::prepare_batch_requests$|LeaderState::execute_and_process_raft_rpc$", strip_generics(k)), D)]
    ctx.floor("C14-d", len(ins), 1, "positive control: pending_client_writes.insert sits in a function that also appends the batch to the log")
    n_err = 0
    for (root, fnb) in takers:
        for b in F.group_bodies(fnb):
            for (bi, t) in calls_matching(b, SEND):
                if reply_kind(F, b, t) == "Ok":
                    continue
                s = Slice(F, b).operand(t["args"][1])
                codes, params = set(), False
                for (xb, xt) in b.calls():
                    if xt["dest"]["l"] in s.seen and re.search(r"ClientResponse::client_error$", strip_generics(callee_key(xt) or "")):
                        c, p = _codes(F, b, xt["args"][0])
                        codes |= c
                        params = params or p
                        if p:
                            sl = Slice(F, b).operand(xt["args"][0])
                            for src in caller_sources_of(F, b, sl):
                                if src[0] == "agg" and strip_generics(src[1]).endswith("ErrorCode"):
                                    codes.add(src[2])
                if s.has_call(r"ClientResponse::not_leader$") or s.has_call(r"create_not_leader_response$"):
                    codes.add("NotLeader")
                n_err += 1
                key = "%s#in-flight-writes-answered(%s)" % (fkey(root), "+".join(sorted(codes)) or "?")
                hit = sorted(codes & vocab)
                ctx.check("C14-d", "%s#in-flight-writes-not-rejected" % fkey(root), not hit and bool(codes),
                          "writes already in the log are answered %s, outside the rejection vocabulary %s" % (sorted(codes), sorted(vocab)),
                          ("a write that is already appended to the log (and may be committed by the next leader) is answered %s, the definitive 'rejected, retry elsewhere' code: the retry is applied twice" % hit) if hit
                          else "the error code of this reply to an in-flight write cannot be determined", loc(b, bi))
    ctx.floor("C14-d", n_err, 1, "error replies to in-flight writes")


def _codes(F, body, operand):
    """ErrorCode variants an operand may carry, and whether it (also) depends on a parameter"""
    s = Slice(F, body).operand(operand)
    cs = set(x[2] for x in s.sources if x[0] == "agg" and strip_generics(x[1]).endswith("ErrorCode"))
    return cs, any(x[0] == "param" for x in s.sources)


def caller_sources_of(F, body, sl):
    from .c02 import caller_sources
    return caller_sources(F, body, sl)
